#!/bin/bash
# ben.sh <seed dir> <prop> [...]: apply the patch to /repo, run the given checks, undo (new files created by the patch are removed again)
D=$1; shift
cd /repo && git apply "$D/patch.diff" || exit 3
for p in "$@"; do (cd /verif && VERIF_EVIDENCE_OUT=/tmp/ben_ev ./check $p 2>&1 | grep -v "^  construct" | cut -c1-700 | head -${LINES_MAX:-14}); done
cd /repo && git checkout -- . && git clean -fdq -- outrank tests
