"""Adopt confirmed seeded changes from a scratch directory into /verif/seeded/<Cxx-mN>/ and (re)compute which checks detect them.
usage: adopt_seeds.py [--refresh] [SRC_DIR ...]"""
import glob, json, os, shutil, sys
HERE = os.path.dirname(os.path.dirname(os.path.abspath(__file__)))
sys.path.insert(0, HERE)
from selftest import workbench as w
import concurrent.futures as cf
refresh = '--refresh' in sys.argv
srcs = [a for a in sys.argv[1:] if not a.startswith('--')]
props = [f'C{i:02d}' for i in range(1, 21)]
seeded = os.path.join(HERE, 'seeded')
os.makedirs(seeded, exist_ok=True)
for d in srcs:
    conf = os.path.join(d, 'confirm.json')
    if not os.path.isfile(conf):
        print('no confirm.json, skipping', d); continue
    c = json.load(open(conf))
    benign = False
    try:
        benign = bool(json.load(open(os.path.join(d, 'meta.json'))).get('benign'))
    except Exception:
        pass
    ok = c['applies'] and c['suite_passed'] >= 58 and c['suite_failed'] == 0 and c['demo_without_change_rc'] == 0 and ((c['demo_with_change_rc'] == 0) if benign else (c['demo_with_change_rc'] != 0))
    if not ok:
        print('NOT CONFIRMED, skipping', d, c); continue
    prop = os.path.basename(os.path.dirname(d)); name = f'{prop}-{os.path.basename(d)}'
    if prop not in props:
        name = os.path.basename(d); prop = name.split('-')[0]
    dst = os.path.join(seeded, name)
    os.makedirs(dst, exist_ok=True)
    shutil.copy2(os.path.join(d, 'patch.diff'), os.path.join(dst, 'patch.diff'))
    shutil.copy2(os.path.join(d, 'demo.py'), os.path.join(dst, 'demo.py'))
    am = {}
    try:
        am = json.load(open(os.path.join(d, 'meta.json')))
    except Exception:
        pass
    meta = {
        'property': prop,
        'title': am.get('title', ''),
        'breaks': am.get('breaks', ''),
        'needs': am.get('needs', ''),
        'files': am.get('files', []),
        'benign': benign,
        'why_equivalent': am.get('why_equivalent', ''),
        'origin': 'written by an independent sub-agent that was given only the property text and a scratch worktree',
        'confirmed': {
            'how': 'tools/confirm_seed.sh in a fresh scratch worktree of /repo: git apply patch.diff; run demo.py (' + ('must pass: behaviour-preserving change' if benign else 'must fail') + '); run the pinned test suite (must pass); git checkout; run demo.py (must pass)',
            'repo_head': c.get('repo_head'), 'suite_passed_with_change': c['suite_passed'], 'suite_failed_with_change': c['suite_failed'],
            'demo_exit_with_change': c['demo_with_change_rc'], 'demo_exit_without_change': c['demo_without_change_rc'],
        },
        'ran_by_author_of_change': am.get('ran', []),
    }
    json.dump(meta, open(os.path.join(dst, 'meta.json'), 'w'), indent=1)
    print('adopted', name)
# detection matrix
jobs = []
for name in sorted(os.listdir(seeded)):
    patch = os.path.join(seeded, name, 'patch.diff')
    if os.path.isfile(patch):
        for p in props:
            jobs.append({'prop': p, 'name': name, 'kind': 'patch', 'patch': patch, 'expect': 'violation'})
res = {}
with cf.ThreadPoolExecutor(16) as ex:
    for v, status, info in ex.map(w._one, jobs):
        res.setdefault(v['name'], {})[v['prop']] = (status, info)
for name, r in sorted(res.items()):
    mp = os.path.join(seeded, name, 'meta.json')
    meta = json.load(open(mp))
    det = sorted(p for p, (s, i) in r.items() if s == 'ok')
    errs = sorted(p for p, (s, i) in r.items() if s == 'MISMATCH' and 'exited 2' in i)
    if meta.get('benign'):
        # a behaviour-preserving change: every check that reports a violation is a false alarm of the checker
        meta['false_alarm_for'] = det
        meta['detected_by'] = []
        meta['clean_for'] = sorted(p for p, (s, i) in r.items() if s == 'MISMATCH' and 'exited 0' in i)
        meta['abstains_for'] = errs
        meta['detection'] = {p: r[p][1][:300] for p in det}
        json.dump(meta, open(mp, 'w'), indent=1)
        print(f'{name}: benign; FALSE ALARMS={det}; abstains={errs}; clean={len(meta["clean_for"])}')
        continue
    meta['detected_by'] = det
    meta['analysis_error_for'] = errs
    meta['clean_for'] = sorted(p for p, (s, i) in r.items() if s == 'MISMATCH' and 'exited 0' in i)
    meta['detection'] = {p: r[p][1][:300] for p in det}
    json.dump(meta, open(mp, 'w'), indent=1)
    own = meta['property']
    print(f'{name}: own={own} {"DETECTED" if own in det else "MISSED"}; detected_by={det}; analysis_error_for={errs}')
