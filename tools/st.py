"""dev helper: run the selftest expectations of a few properties only.  usage: st.py C16 [C17 ...]"""
import os, sys
HERE = os.path.dirname(os.path.dirname(os.path.abspath(__file__)))
sys.path.insert(0, HERE)
from selftest import workbench as w
vs = []
for p in sys.argv[1:]:
    vs += w.catalogue(p)
sys.exit(w.run(vs, 16, quiet=True))
