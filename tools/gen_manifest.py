"""Regenerates MANIFEST.json from the property modules (run: /venv/bin/python tools/gen_manifest.py)."""
import importlib, json, os, sys
HERE = os.path.dirname(os.path.dirname(os.path.abspath(__file__)))
sys.path.insert(0, HERE)
checks, na = [], []
NA_REASONS = {}
for i in range(1, 21):
    pid = f'C{i:02d}'
    try:
        m = importlib.import_module(f'sa.props.{pid.lower()}')
    except ImportError:
        na.append({'property_id': pid, 'reason': NA_REASONS.get(pid, 'static checker for this property is not built yet (see DESIGN.md section 5 for the planned rules)')})
        continue
    checks.append({
        'property_id': pid,
        'quick_cmd': f'./check {pid}',
        'thorough_cmd': f'./check {pid} --tier thorough',
        'evidence_file': f'/verif/evidence/{pid}.json',
        'replay_cmd_template': f'./check {pid} --explain {{path}}',
        'engine': 'sa',
        'level_claimed': {
            'category': 'other',
            'text': getattr(m, 'LEVEL_TEXT', 'Static analysis of the source: every obligation is a necessary structural condition of the property, evaluated on all paths and call sites of the anchored code; it decides the shape of the code, not the run-time behaviour.') ,
            'design_ref': f'DESIGN.md section 5, {pid}',
        },
        'level_note': getattr(m, 'LEVEL_NOTE', '; '.join(getattr(m, 'TRUSTED_BASE', []) + getattr(m, 'ASSUMPTIONS', []))[:900] or 'Python ast semantics'),
        'technique': getattr(m, 'TECHNIQUE', 'static analysis: custom ast/CFG/dataflow rules over the repository source'),
    })
manifest = {
    'version': 1,
    'setup_cmd': 'test -x /venv/bin/python || command -v python3',
    'hooks': {
        'guard': 'OUTRANK_VERIF',
        'enable': 'no hooks are needed: every check reads the source of /repo (ast), nothing is built or executed',
        'baseline_off_cmd': 'cd /repo && /venv/bin/python -m pytest -ra -q -p no:cacheprovider --timeout=900 --continue-on-collection-errors',
        'source_commits': [],
        'add_only': True,
    },
    'engines': [{'name': 'sa', 'path': '/verif/sa', 'serves_properties': [c['property_id'] for c in checks],
                 'kind_free_text': 'static analysis: repository-specific checkers over the Python ast (source model, resolver, statement CFG with dominators, canonical terms, constant folding, small abstract domains); stdlib only'}],
    'checks': checks,
    'not_applicable': na,
    'notes': 'All checks are static (family: static analysis). Exit 0 = all obligations discharged; 1 = VIOLATION; 2 = ANALYSIS-ERROR (anchor vanished / construct not recognised). known_findings.json lists repaired defects (status fixed) and suppresses nothing. ./check selftest runs the variant workbench.',
}
with open(os.path.join(HERE, 'MANIFEST.json'), 'w') as fh:
    json.dump(manifest, fh, indent=1)
print(f'{len(checks)} checks, {len(na)} not applicable')
