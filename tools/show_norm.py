"""show the normalised + helper-expanded source the rules see: show_norm.py MODULE [FUNC] [--repo DIR]"""
import ast, os, sys
sys.path.insert(0, os.path.dirname(os.path.dirname(os.path.abspath(__file__))))
from sa.model import Repo
args = [a for a in sys.argv[1:] if not a.startswith('--repo')]
root = next((a.split('=', 1)[1] for a in sys.argv[1:] if a.startswith('--repo=')), os.environ.get('VERIF_REPO', '/repo'))
r = Repo(root)
m = r.mod(args[0])
print('# inlined:', m.inlined)
if len(args) > 1:
    print(ast.unparse(m.funcs[args[1]].node))
else:
    print(ast.unparse(m.tree))
