"""Regenerates the seeded-change table in DESIGN.md from seeded/*/meta.json."""
import json, os, re
HERE = os.path.dirname(os.path.dirname(os.path.abspath(__file__)))
rows = []
for name in sorted(os.listdir(os.path.join(HERE, 'seeded'))):
    mp = os.path.join(HERE, 'seeded', name, 'meta.json')
    if not os.path.isfile(mp):
        continue
    m = json.load(open(mp))
    own = m['property']
    det = m.get('detected_by', [])
    first = ''
    if own in m.get('detection', {}):
        d = m['detection'][own]
        mt = re.search(r'\[(C[^\]]+)\]', d)
        first = mt.group(1) if mt else ''
    title = (m.get('title') or '').replace('|', '/')[:90]
    needs = (m.get('needs') or '').replace('|', '/').replace('\n', ' ')[:110]
    rows.append(f"| {name} | {title} | {needs} | {'**' + own + '**' if own in det else 'MISSED'} ({first}) | {', '.join(p for p in det if p != own) or '-'} |")
table = "| seeded change | what was changed | needs, to manifest | caught by its property's check (obligation) | also reported by |\n|---|---|---|---|---|\n" + "\n".join(rows)
p = os.path.join(HERE, 'DESIGN.md')
s = open(p).read()
a = s.index('<!-- SEEDED-MATRIX-BEGIN -->'); b = s.index('<!-- SEEDED-MATRIX-END -->')
s = s[:a] + '<!-- SEEDED-MATRIX-BEGIN -->\n' + table + '\n' + s[b:]
open(p, 'w').write(s)
print(len(rows), 'rows')
