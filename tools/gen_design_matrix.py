"""Regenerates the seeded-change table in DESIGN.md from seeded/*/meta.json."""
import json, os, re
HERE = os.path.dirname(os.path.dirname(os.path.abspath(__file__)))
rows = []
for name in sorted(os.listdir(os.path.join(HERE, 'seeded'))):
    mp = os.path.join(HERE, 'seeded', name, 'meta.json')
    if not os.path.isfile(mp):
        continue
    m = json.load(open(mp))
    own = m['property']
    det = m.get('detected_by', [])
    first = ''
    if own in m.get('detection', {}):
        d = m['detection'][own]
        mt = re.search(r'\[(C[^\]]+)\]', d)
        first = mt.group(1) if mt else ''
    title = (m.get('title') or '').replace('|', '/')[:90]
    needs = (m.get('needs') or '').replace('|', '/').replace('\n', ' ')[:110]
    if m.get('benign'):
        fa = m.get('false_alarm_for', [])
        ab = m.get('abstains_for', [])
        verdict = ('FALSE ALARM: ' + ', '.join(fa)) if fa else ('no alarm; ' + ('own check passes' if own not in ab else 'own check abstains (exit 2)'))
        rows.append(f"| {name} | {title} | (behaviour-preserving refactoring: demo passes with and without it) | {verdict} | abstain: {', '.join(p for p in ab if p != own) or '-'} |")
        continue
    errs = m.get('analysis_error_for', [])
    caught = '**' + own + '**' if own in det else ('not decided (exit 2)' if own in errs else 'MISSED')
    rows.append(f"| {name} | {title} | {needs} | {caught} ({first}) | {', '.join(p for p in det if p != own) or '-'} |")
table = "| seeded change | what was changed | needs, to manifest | caught by its property's check (obligation) | also reported by |\n|---|---|---|---|---|\n" + "\n".join(rows)
p = os.path.join(HERE, 'DESIGN.md')
s = open(p).read()
a = s.index('<!-- SEEDED-MATRIX-BEGIN -->'); b = s.index('<!-- SEEDED-MATRIX-END -->')
s = s[:a] + '<!-- SEEDED-MATRIX-BEGIN -->\n' + table + '\n' + s[b:]
open(p, 'w').write(s)
print(len(rows), 'rows')
