#!/bin/bash
# confirm_seed.sh <dir with patch.diff demo.py> : verifies in a scratch worktree that
#  (a) the patch applies, (b) the pinned suite still passes with it, (c) demo fails with it, (d) demo passes without it.
# writes <dir>/confirm.json
D="$1"; NAME=$(echo "$D" | tr '/' '_')
WT=/tmp/confirm_wt/$NAME
mkdir -p /tmp/confirm_wt
git -C /repo worktree remove --force "$WT" >/dev/null 2>&1
git -C /repo worktree add -q --detach "$WT" HEAD || exit 3
cd "$WT"
res() { echo "{\"dir\": \"$D\", \"applies\": $1, \"suite_passed\": $2, \"suite_failed\": $3, \"demo_with_change_rc\": $4, \"demo_without_change_rc\": $5, \"repo_head\": \"$(git -C /repo rev-parse --short HEAD)\"}" > "$D/confirm.json"; cat "$D/confirm.json"; }
if ! git apply --whitespace=nowarn "$D/patch.diff" 2>/dev/null; then res false 0 0 -1 -1; cd /; git -C /repo worktree remove --force "$WT"; exit 0; fi
cp "$D/demo.py" "$WT/_demo.py"
export NUMBA_CACHE_DIR="$WT/.numba_cache"
PYTHONPATH="$WT" timeout 600 /venv/bin/python _demo.py > "$D/demo_with.log" 2>&1; RC_WITH=$?
timeout 1500 /venv/bin/python -m pytest -q -p no:cacheprovider --timeout=900 -x tests > "$D/suite_with.log" 2>&1
PASSED=$(grep -oE '[0-9]+ passed' "$D/suite_with.log" | grep -oE '[0-9]+' | tail -1); FAILED=$(grep -oE '[0-9]+ failed' "$D/suite_with.log" | grep -oE '[0-9]+' | tail -1)
git checkout -q -- . ; rm -rf "$WT/.numba_cache"; find "$WT" -name __pycache__ -type d -exec rm -rf {} + 2>/dev/null
PYTHONPATH="$WT" timeout 600 /venv/bin/python _demo.py > "$D/demo_without.log" 2>&1; RC_WITHOUT=$?
res true ${PASSED:-0} ${FAILED:-0} $RC_WITH $RC_WITHOUT
cd /; git -C /repo worktree remove --force "$WT"
