#!/bin/bash
# wt.sh <seed dir> <props..> : like ben.sh but in the private scratch worktree /tmp/wt/mine (never touches /repo)
D="$1"; shift
WT=/tmp/wt/mine
[ -d $WT ] || git -C /repo worktree add -q --detach $WT HEAD
git -C $WT checkout -q -- . ; git -C $WT clean -fdq
git -C $WT apply --whitespace=nowarn "$D/patch.diff" || { echo "patch does not apply"; exit 3; }
cd /verif
for p in "$@"; do ./check $p --repo $WT 2>&1 | grep -v "^  construct\|^  rule" | cut -c1-${LINES_MAX:-700}; done
