"""Run the built checks against candidate seeded patches (dev helper).
usage: try_seeds.py [DIR ...]   (default: /tmp/seed_out/*/m*  and /verif/seeded/*)"""
import glob, os, sys, json
HERE = os.path.dirname(os.path.dirname(os.path.abspath(__file__)))
sys.path.insert(0, HERE)
from selftest import workbench as w
import concurrent.futures as cf
dirs = sys.argv[1:] or sorted(glob.glob('/tmp/seed_out/C*/m*')) + sorted(glob.glob(os.path.join(HERE, 'seeded', '*')))
props = [f'C{i:02d}' for i in range(1, 21) if os.path.exists(os.path.join(HERE, 'sa', 'props', f'c{i:02d}.py'))]
only_own = os.environ.get('OWN', '1') == '1'
jobs = []
for d in dirs:
    patch = os.path.join(d, 'patch.diff')
    if not os.path.isfile(patch):
        continue
    meta = {}
    try:
        meta = json.load(open(os.path.join(d, 'meta.json')))
    except Exception:
        pass
    own = os.path.basename(os.path.dirname(d)) if '/seed_out/' in d else (meta.get('property') or '')
    for p in props:
        if only_own and own and p != own:
            continue
        jobs.append({'prop': p, 'name': d, 'kind': 'patch', 'patch': patch, 'expect': 'violation', 'title': meta.get('title', '')})
with cf.ThreadPoolExecutor(16) as ex:
    for v, status, info in ex.map(w._one, jobs):
        tag = 'DETECTED' if status == 'ok' else ('skipped ' if status == 'skipped' else 'missed  ')
        print(f'{tag} {v["prop"]} {v["name"]} [{v["title"][:60]}] {info[:230] if status != "MISMATCH" else info[:160]}')
