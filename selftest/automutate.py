"""Mutation sweep (thorough tier): generic AST mutation operators applied to the functions a property is anchored in; every mutant
is checked with the property's static check.  The sweep measures how much of the anchored code the obligations actually constrain
(killed = exit 1, inconclusive = exit 2, survived = exit 0).  It never decides a property: survivors are blind spots or equivalent /
property-irrelevant edits and are listed in the evidence for triage."""
from __future__ import annotations

import ast
import concurrent.futures as cf
import copy
import json
import os
import shutil
import subprocess
import sys
import tempfile

HERE = os.path.dirname(os.path.abspath(__file__))
VERIF = os.path.dirname(HERE)
REPO = os.environ.get('VERIF_REPO', '/repo')

P = 'outrank/'
MI = P + 'algorithms/feature_ranking/ranking_mi_numba.py'
IE = P + 'algorithms/importance_estimator.py'
CR = P + 'core_ranking.py'
CU = P + 'core_utils.py'
TR = P + 'task_ranking.py'
TS = P + 'task_summary.py'
RT = P + 'feature_transformations/ranking_transformers.py'
FW = P + 'feature_transformations/feature_transformer_vault/fw_transformers.py'
HLL = P + 'algorithms/sketches/counting_ultiloglog.py'
CMS = P + 'algorithms/sketches/counting_cms.py'
CNT = P + 'algorithms/sketches/counting_counters_ordinary.py'
COV = P + 'algorithms/feature_ranking/ranking_cov_alignment.py'
CC = P + 'algorithms/synthetic_data_generators/cc_generator.py'
GN = P + 'algorithms/synthetic_data_generators/generator_naive.py'
TG = P + 'task_generators.py'

KERNEL = [(MI, 'numba_unique'), (MI, 'compute_conditional_entropy'), (MI, 'compute_entropies'), (MI, 'mutual_info_estimator_numba')]
ANCHORS = {
    'C01': KERNEL,
    'C02': KERNEL + [(CR, 'mixed_rank_graph')],
    'C03': KERNEL + [(IE, 'numba_mi')],
    'C04': [(MI, 'stratified_subsampling'), (MI, 'mutual_info_estimator_numba'), (IE, 'numba_mi')],
    'C05': [(IE, 'conduct_feature_ranking'), (IE, 'generate_data_for_ranking'), (IE, 'get_importances_estimate_pairwise'), (IE, 'sklearn_MI'), (IE, 'sklearn_mi_adj'), (COV, 'max_pair_coverage')],
    'C06': [(CR, 'get_combinations_from_columns'), (CR, 'mixed_rank_graph'), (CR, 'prior_combinations_sample')],
    'C07': [(CR, 'prior_combinations_sample'), (CR, 'get_combinations_from_columns')],
    'C08': [(CR, 'estimate_importances_minibatches'), (CR, 'get_grouped_df'), (CR, 'checkpoint_importances_df')],
    'C09': [(CR, 'mixed_rank_graph'), (IE, 'initialize_classifier'), (IE, 'sklearn_surrogate'), (CR, 'compute_batch_ranking')],
    'C10': [(CR, 'compute_combined_features')],
    'C11': [(CR, 'compute_expanded_multivalue_features'), (CR, 'compute_subfeatures'), (RT, 'FeatureTransformerNoise.construct_new_features')],
    'C12': [(RT, 'FeatureTransformerGeneric.__init__'), (RT, 'FeatureTransformerGeneric.get_vals'), (RT, 'FeatureTransformerGeneric.construct_new_features'), (FW, '<module>')],
    'C13': [(CR, 'compute_value_counts'), (CR, 'compute_cardinalities'), (CR, 'compute_coverage'), (CU, 'internal_hash'), (CU, 'summarize_rare_counts')],
    'C14': [(HLL, 'HyperLogLogWCache.__init__'), (HLL, 'HyperLogLogWCache._hasher_update'), (HLL, 'HyperLogLogWCache.add'), (HLL, 'HyperLogLogWCache.__len__')],
    'C15': [(CMS, 'cms_hash'), (CMS, 'CountMinSketch.__init__'), (CMS, 'CountMinSketch._add'), (CMS, 'CountMinSketch.add'), (CMS, 'CountMinSketch.query'), (CNT, 'PrimitiveConstrainedCounter.__init__'), (CNT, 'PrimitiveConstrainedCounter.add')],
    'C16': [(CU, 'parse_ob_line'), (CU, 'parse_ob_line_vw'), (CU, 'parse_ob_csv_line'), (CU, 'generic_line_parser'), (CU, 'parse_namespace')],
    'C17': [(IE, 'rank_features_3MR')],
    'C18': [(TS, 'generate_final_ranking'), (TS, 'create_final_dataframe'), (TS, 'handle_interaction_order')],
    'C19': [(CC, 'CategoricalClassification.generate_data'), (CC, 'CategoricalClassification._generate_feature'), (GN, 'generate_random_matrix')],
    'C20': [(CC, 'CategoricalClassification.generate_correlated'), (CC, 'CategoricalClassification.generate_duplicates'), (CC, 'CategoricalClassification.generate_combinations'),
            (CC, 'CategoricalClassification.generate_noise'), (CC, 'CategoricalClassification.downsample_dataset')],
}

CMP_SWAP = {ast.Lt: ast.LtE, ast.LtE: ast.Lt, ast.Gt: ast.GtE, ast.GtE: ast.Gt, ast.Eq: ast.NotEq, ast.NotEq: ast.Eq, ast.In: ast.NotIn, ast.NotIn: ast.In, ast.Is: ast.IsNot, ast.IsNot: ast.Is}
BIN_SWAP = {ast.Add: ast.Sub, ast.Sub: ast.Add, ast.Mult: ast.Div, ast.Div: ast.Mult, ast.Mod: ast.FloorDiv, ast.LShift: ast.RShift, ast.RShift: ast.LShift, ast.BitAnd: ast.BitOr, ast.BitOr: ast.BitAnd}
NOISE_HEADS = ('logger', 'logging', 'print', 'pbar', 'local_pbar')


def _is_noise(s):
    if isinstance(s, ast.Expr) and isinstance(s.value, ast.Constant):
        return True
    if isinstance(s, ast.Expr) and isinstance(s.value, ast.Call):
        h = s.value.func
        while isinstance(h, ast.Attribute):
            h = h.value
        return isinstance(h, ast.Name) and (h.id in NOISE_HEADS or h.id.endswith('pbar'))
    return False


def _find(tree, qual):
    if qual == '<module>':
        return tree
    parts = qual.split('.')
    body = tree.body
    node = None
    for p in parts:
        node = next((n for n in body if isinstance(n, (ast.FunctionDef, ast.ClassDef)) and n.name == p), None)
        if node is None:
            return None
        body = node.body
    return node


def mutants_of(tree, qual):
    """yield (description, mutated_tree)"""
    root = _find(tree, qual)
    if root is None:
        return
    nodes = list(ast.walk(root))
    skip = set()
    for n in nodes:
        if isinstance(n, ast.stmt) and _is_noise(n):
            skip |= {id(x) for x in ast.walk(n)}
        if isinstance(n, (ast.FunctionDef,)) and n is not root:
            for d in n.decorator_list:
                skip |= {id(x) for x in ast.walk(d)}
            if n.returns is not None:
                skip |= {id(x) for x in ast.walk(n.returns)}
            for a in n.args.args + n.args.kwonlyargs:
                if a.annotation is not None:
                    skip |= {id(x) for x in ast.walk(a.annotation)}
        if isinstance(n, ast.AnnAssign):
            skip |= {id(x) for x in ast.walk(n.annotation)}
    if isinstance(root, ast.FunctionDef):
        for d in root.decorator_list:
            skip |= {id(x) for x in ast.walk(d)}
        if root.returns is not None:
            skip |= {id(x) for x in ast.walk(root.returns)}
        for a in root.args.args + root.args.kwonlyargs:
            if a.annotation is not None:
                skip |= {id(x) for x in ast.walk(a.annotation)}
    if isinstance(root, ast.Module):
        for n in root.body:
            if isinstance(n, (ast.Import, ast.ImportFrom)) or (isinstance(n, ast.If) and '__main__' in ast.unparse(n.test)):
                skip |= {id(x) for x in ast.walk(n)}
    index = {id(n): i for i, n in enumerate(ast.walk(tree))}

    def variant(node, edit):
        t2 = copy.deepcopy(tree)
        target = list(ast.walk(t2))[index[id(node)]]
        edit(target)
        ast.fix_missing_locations(t2)
        return t2

    for n in nodes:
        if id(n) in skip:
            continue
        line = getattr(n, 'lineno', 0)
        if isinstance(n, ast.Compare) and len(n.ops) == 1 and type(n.ops[0]) in CMP_SWAP:
            new = CMP_SWAP[type(n.ops[0])]

            def e(t, new=new):
                t.ops = [new()]
            yield f'{qual}:{line} compare {ast.unparse(n)[:60]} -> {new.__name__}', variant(n, e)
        if isinstance(n, ast.BinOp) and type(n.op) in BIN_SWAP and not (isinstance(n.op, ast.Mod) and isinstance(n.left, ast.Constant) and isinstance(n.left.value, str)):
            new = BIN_SWAP[type(n.op)]

            def e(t, new=new):
                t.op = new()
            yield f'{qual}:{line} binop {ast.unparse(n)[:60]} -> {new.__name__}', variant(n, e)
        if isinstance(n, ast.AugAssign) and type(n.op) in BIN_SWAP:
            new = BIN_SWAP[type(n.op)]

            def e(t, new=new):
                t.op = new()
            yield f'{qual}:{line} augassign {ast.unparse(n)[:60]} -> {new.__name__}', variant(n, e)
        if isinstance(n, ast.BoolOp):
            def e(t):
                t.op = ast.Or() if isinstance(t.op, ast.And) else ast.And()
            yield f'{qual}:{line} boolop {ast.unparse(n)[:60]} flipped', variant(n, e)
        if isinstance(n, ast.UnaryOp) and isinstance(n.op, ast.Not):
            def e(t):
                t.op = ast.UAdd()
                t.operand = ast.Call(ast.Name('bool', ast.Load()), [t.operand], [])
            yield f'{qual}:{line} not removed in {ast.unparse(n)[:60]}', variant(n, e)
        if isinstance(n, ast.Constant) and not isinstance(n.value, (str, bytes, type(None), type(Ellipsis))):
            if isinstance(n.value, bool):
                def e(t):
                    t.value = not t.value
                yield f'{qual}:{line} const {n.value} negated', variant(n, e)
            elif isinstance(n.value, (int, float)):
                def e(t):
                    t.value = t.value + 1
                yield f'{qual}:{line} const {n.value} + 1', variant(n, e)
        if isinstance(n, ast.Constant) and isinstance(n.value, str) and 0 < len(n.value) <= 12 and not n.value.isspace():
            par_is_doc = False
            if not par_is_doc:
                def e(t):
                    t.value = t.value + '_'
                yield f'{qual}:{line} str {n.value!r} altered', variant(n, e)
        if isinstance(n, (ast.Assign, ast.AugAssign, ast.Expr, ast.Continue, ast.Break, ast.Delete)) and not (isinstance(n, ast.Expr) and isinstance(n.value, ast.Constant)):
            def e(t):
                t.__class__ = ast.Pass
                for f in list(t._fields):
                    if hasattr(t, f):
                        delattr(t, f)
                t._fields = ()
            yield f'{qual}:{line} statement deleted: {ast.unparse(n)[:70]}', variant(n, e)
        if isinstance(n, ast.If):
            def e(t):
                t.test = ast.Constant(True)
            yield f'{qual}:{line} condition forced true: {ast.unparse(n.test)[:60]}', variant(n, e)

            def e2(t):
                t.test = ast.Constant(False)
            yield f'{qual}:{line} condition forced false: {ast.unparse(n.test)[:60]}', variant(n, e2)
        if isinstance(n, ast.Call) and len(n.args) >= 2 and not any(isinstance(a, ast.Starred) for a in n.args):
            def e(t):
                t.args[0], t.args[1] = t.args[1], t.args[0]
            if ast.unparse(n.args[0]) != ast.unparse(n.args[1]):
                yield f'{qual}:{line} first two arguments swapped: {ast.unparse(n)[:70]}', variant(n, e)
        if isinstance(n, ast.Call) and n.keywords:
            for i, k in enumerate(n.keywords):
                if k.arg:
                    def e(t, i=i):
                        del t.keywords[i]
                    yield f'{qual}:{line} keyword {k.arg} removed: {ast.unparse(n)[:70]}', variant(n, e)
        if isinstance(n, ast.Slice):
            if n.upper is not None:
                def e(t):
                    t.upper = ast.BinOp(t.upper, ast.Add(), ast.Constant(1))
                yield f'{qual}:{line} slice upper + 1: {ast.unparse(n)[:50]}', variant(n, e)
            if n.lower is not None:
                def e(t):
                    t.lower = ast.BinOp(t.lower, ast.Add(), ast.Constant(1))
                yield f'{qual}:{line} slice lower + 1: {ast.unparse(n)[:50]}', variant(n, e)
        if isinstance(n, ast.Return) and n.value is not None and isinstance(n.value, ast.Tuple) and len(n.value.elts) == 2:
            def e(t):
                t.value.elts.reverse()
            yield f'{qual}:{line} returned pair swapped', variant(n, e)


def _mkroot(tmp, relfile, source):
    root = os.path.join(tmp, 'repo')
    os.makedirs(root)
    for name in os.listdir(REPO):
        if name in ('.git', 'outrank', 'outrank.egg-info', '__pycache__', '.pytest_cache'):
            continue
        os.symlink(os.path.join(REPO, name), os.path.join(root, name))
    for dirpath, dirnames, filenames in os.walk(os.path.join(REPO, 'outrank')):
        dirnames[:] = [d for d in dirnames if d != '__pycache__']
        rel = os.path.relpath(dirpath, REPO)
        os.makedirs(os.path.join(root, rel), exist_ok=True)
        for fn in filenames:
            if fn.endswith('.py'):
                r = os.path.join(rel, fn)
                if r == relfile:
                    with open(os.path.join(root, r), 'w') as fh:
                        fh.write(source)
                else:
                    os.symlink(os.path.join(dirpath, fn), os.path.join(root, r))
    return root


def _run(job):
    pid, relfile, desc, source = job
    tmp = tempfile.mkdtemp(prefix='verif-mut-')
    try:
        try:
            compile(source, relfile, 'exec')
        except SyntaxError:
            return desc, 'invalid', ''
        root = _mkroot(tmp, relfile, source)
        env = dict(os.environ, VERIF_EVIDENCE_OUT=os.path.join(tmp, 'e.json'), VERIF_VIOLATIONS_OUT=os.path.join(tmp, 'v'), VERIF_NO_SELFTEST='1')
        p = subprocess.run([sys.executable, '-B', '-m', 'sa.run', pid, '--repo', root, '--tier', 'quick'], cwd=VERIF, env=env, capture_output=True, text=True, timeout=120)
        st = {0: 'survived', 1: 'killed', 2: 'inconclusive'}.get(p.returncode, 'error')
        first = next((l for l in p.stdout.splitlines() if l.startswith('  rule') or l.startswith('ANALYSIS-ERROR')), '')
        return desc, st, first.strip()[:200]
    except Exception as e:
        return desc, 'error', str(e)
    finally:
        shutil.rmtree(tmp, ignore_errors=True)


def sweep(pid, jobs=16, limit=None, seed=0):
    work = []
    for relfile, qual in ANCHORS.get(pid, []):
        path = os.path.join(REPO, relfile)
        if not os.path.isfile(path):
            continue
        with open(path, encoding='utf-8') as fh:
            tree = ast.parse(fh.read())
        for desc, t2 in mutants_of(tree, qual):
            try:
                src = ast.unparse(t2)
            except Exception:
                continue
            work.append((pid, relfile, f'{relfile}::{desc}', src))
    if limit and len(work) > limit:
        import random
        rnd = random.Random(seed)
        work = rnd.sample(work, limit)
    res = []
    with cf.ThreadPoolExecutor(max_workers=jobs) as ex:
        for r in ex.map(_run, work):
            res.append(r)
    out = {'property': pid, 'mutants': len(res)}
    for st in ('killed', 'inconclusive', 'survived', 'invalid', 'error'):
        out[st] = sum(1 for _, s, _ in res if s == st)
    out['survivors'] = [d for d, s, _ in res if s == 'survived']
    out['inconclusive_list'] = [f'{d} :: {i}' for d, s, i in res if s == 'inconclusive']
    out['killed_sample'] = [f'{d} :: {i}' for d, s, i in res if s == 'killed'][:15]
    return out


if __name__ == '__main__':
    sys.path.insert(0, VERIF)
    pid = sys.argv[1]
    r = sweep(pid, limit=int(sys.argv[2]) if len(sys.argv) > 2 else None)
    print(json.dumps({k: v for k, v in r.items() if k not in ('survivors', 'inconclusive_list', 'killed_sample')}))
    for s in r['survivors']:
        print('SURVIVED', s)
    for s in r['inconclusive_list']:
        print('INCONCLUSIVE', s)
