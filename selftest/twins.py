"""Automatic benign twins: behaviour-preserving rewrites of the anchored functions, each of which every check must call clean.
 T1  alpha-renaming of every local variable of a function (parameters, globals, attributes and keyword names untouched)
 T2  comparison direction flipped (a < b  ->  b > a) everywhere in a function
 T3  a logging statement inserted at the top of every loop body and branch
The verdict expected for every twin is exit 0; anything else is a false alarm (or an unnecessary name/shape dependence) of the checker."""
from __future__ import annotations

import ast
import concurrent.futures as cf
import copy
import json
import os
import sys

HERE = os.path.dirname(os.path.abspath(__file__))
VERIF = os.path.dirname(HERE)
sys.path.insert(0, VERIF)
from selftest import automutate as am   # noqa: E402

BUILTINS = set(dir(__builtins__)) if not isinstance(__builtins__, dict) else set(__builtins__)


def _locals_of(fn: ast.FunctionDef):
    params = {a.arg for a in fn.args.posonlyargs + fn.args.args + fn.args.kwonlyargs}
    if fn.args.vararg:
        params.add(fn.args.vararg.arg)
    if fn.args.kwarg:
        params.add(fn.args.kwarg.arg)
    glob = set()
    bound = set()
    nested_params = set()
    for n in ast.walk(fn):
        if isinstance(n, (ast.Global, ast.Nonlocal)):
            glob |= set(n.names)
        if isinstance(n, ast.Name) and isinstance(n.ctx, (ast.Store, ast.Del)):
            bound.add(n.id)
        if isinstance(n, (ast.FunctionDef, ast.Lambda)) and n is not fn:
            a = n.args
            nested_params |= {x.arg for x in a.posonlyargs + a.args + a.kwonlyargs}
        if isinstance(n, ast.ExceptHandler) and n.name:
            bound.add(n.name)
        if isinstance(n, ast.FunctionDef) and n is not fn:
            bound.add(n.name)
    # `X` is the variable the transformer formulas are written in (evaluated by eval): renaming it changes behaviour
    return {b for b in bound if b not in params and b not in glob and b not in nested_params and b != 'X' and not b.startswith('__')}


def rename_locals(tree, qual):
    root = am._find(tree, qual)
    if root is None or not isinstance(root, ast.FunctionDef):
        return None
    names = _locals_of(root)
    if not names:
        return None
    t2 = copy.deepcopy(tree)
    r2 = am._find(t2, qual)
    for n in ast.walk(r2):
        if isinstance(n, ast.Name) and n.id in names:
            n.id = n.id + '_rn'
        if isinstance(n, ast.ExceptHandler) and n.name in names:
            n.name = n.name + '_rn'
        if isinstance(n, ast.FunctionDef) and n is not r2 and n.name in names:
            n.name = n.name + '_rn'
    return t2


def flip_comparisons(tree, qual):
    root = am._find(tree, qual)
    if root is None:
        return None
    t2 = copy.deepcopy(tree)
    r2 = am._find(t2, qual)
    flip = {ast.Lt: ast.Gt, ast.Gt: ast.Lt, ast.LtE: ast.GtE, ast.GtE: ast.LtE}
    n_ = 0
    for n in ast.walk(r2):
        if isinstance(n, ast.Compare) and len(n.ops) == 1 and type(n.ops[0]) in flip:
            n.left, n.comparators[0] = n.comparators[0], n.left
            n.ops = [flip[type(n.ops[0])]()]
            n_ += 1
    return t2 if n_ else None


def add_logging(tree, qual):
    root = am._find(tree, qual)
    if root is None or not isinstance(root, ast.FunctionDef):
        return None
    t2 = copy.deepcopy(tree)
    r2 = am._find(t2, qual)
    # numba kernels cannot log
    if any('njit' in ast.unparse(d) for d in r2.decorator_list):
        return None
    stmt = ast.parse("logging.getLogger('syn-logger').debug('twin')").body[0]
    n_ = 0
    for n in list(ast.walk(r2)):
        if isinstance(n, (ast.For, ast.While)):
            n.body.insert(0, copy.deepcopy(stmt))
            n_ += 1
    if not n_:
        r2.body.insert(1 if (r2.body and isinstance(r2.body[0], ast.Expr) and isinstance(r2.body[0].value, ast.Constant)) else 0, copy.deepcopy(stmt))
    has_logging = any(isinstance(x, ast.Import) and any(a.name == 'logging' for a in x.names) for x in t2.body)
    if not has_logging:
        pos = 0
        for i, x in enumerate(t2.body):
            if (isinstance(x, ast.Expr) and isinstance(x.value, ast.Constant)) or (isinstance(x, ast.ImportFrom) and x.module == '__future__'):
                pos = i + 1
        t2.body.insert(pos, ast.parse('import logging').body[0])
    ast.fix_missing_locations(t2)
    return t2


def expand_augassign(tree, qual):
    """x += y  ->  x = x + y   (plain names only; not inside numba kernels' array updates)"""
    root = am._find(tree, qual)
    if root is None:
        return None
    t2 = copy.deepcopy(tree)
    r2 = am._find(t2, qual)
    n_ = 0

    class T(ast.NodeTransformer):
        def visit_AugAssign(self, node):
            nonlocal n_
            if isinstance(node.target, ast.Name) and isinstance(node.op, (ast.Add, ast.Sub)):
                n_ += 1
                return ast.copy_location(ast.Assign(targets=[ast.Name(node.target.id, ast.Store())], value=ast.BinOp(ast.Name(node.target.id, ast.Load()), node.op, node.value)), node)
            return node
    T().visit(r2)
    ast.fix_missing_locations(t2)
    return t2 if n_ else None


def swap_if_else(tree, qual):
    """if c: A else: B  ->  if not c: B else: A   (only ifs that have a plain else block)"""
    root = am._find(tree, qual)
    if root is None:
        return None
    t2 = copy.deepcopy(tree)
    r2 = am._find(t2, qual)
    n_ = 0
    for n in ast.walk(r2):
        if isinstance(n, ast.If) and n.orelse and not (len(n.orelse) == 1 and isinstance(n.orelse[0], ast.If)) and n is not r2:
            n.test = ast.UnaryOp(ast.Not(), n.test)
            n.body, n.orelse = n.orelse, n.body
            n_ += 1
    ast.fix_missing_locations(t2)
    return t2 if n_ else None


def name_returns(tree, qual):
    """return <expr>  ->  result_value = <expr>; return result_value"""
    root = am._find(tree, qual)
    if root is None or not isinstance(root, ast.FunctionDef):
        return None
    t2 = copy.deepcopy(tree)
    r2 = am._find(t2, qual)
    if any('njit' in ast.unparse(d) for d in r2.decorator_list):
        pass
    n_ = 0

    def rewrite(body):
        nonlocal n_
        out = []
        for s in body:
            for f in ('body', 'orelse', 'finalbody'):
                if hasattr(s, f) and isinstance(getattr(s, f), list) and not isinstance(s, (ast.FunctionDef, ast.ClassDef)):
                    setattr(s, f, rewrite(getattr(s, f)))
            if isinstance(s, ast.Return) and s.value is not None and not isinstance(s.value, (ast.Name, ast.Constant)):
                n_ += 1
                out.append(ast.copy_location(ast.Assign(targets=[ast.Name('result_value', ast.Store())], value=s.value), s))
                out.append(ast.copy_location(ast.Return(ast.Name('result_value', ast.Load())), s))
            else:
                out.append(s)
        return out
    r2.body = rewrite(r2.body)
    ast.fix_missing_locations(t2)
    return t2 if n_ else None


TWINS = {'rename-locals': rename_locals, 'flip-comparisons': flip_comparisons, 'add-logging': add_logging,
         'expand-augassign': expand_augassign, 'swap-if-else': swap_if_else, 'name-returns': name_returns}


def run(pids=None, jobs=16):
    pids = pids or sorted(am.ANCHORS)
    work = []
    for pid in pids:
        for relfile, qual in am.ANCHORS[pid]:
            path = os.path.join(am.REPO, relfile)
            with open(path, encoding='utf-8') as fh:
                tree = ast.parse(fh.read())
            for tname, fnc in TWINS.items():
                t2 = fnc(tree, qual)
                if t2 is None:
                    continue
                work.append((pid, relfile, f'{tname} {relfile}::{qual}', ast.unparse(t2)))
    bad = 0
    with cf.ThreadPoolExecutor(max_workers=jobs) as ex:
        for desc, st, info in ex.map(am._run, work):
            if st != 'survived':
                bad += 1
                print(f'FALSE-ALARM {st:12s} {desc} :: {info}')
    print(f'twins: {len(work)} generated, {bad} not clean')
    return bad


if __name__ == '__main__':
    sys.exit(1 if run(sys.argv[1:] or None) else 0)
