"""Catalogue of breaking variants and benign twins (DESIGN.md §7).

Each entry is a text edit located in a file of the current /repo tree (the `old`
fragment must occur exactly `count` times, default once; otherwise the variant is
reported as skipped).  `expect` is what the property check must say about the
edited tree."""

def V(prop, name, file, old, new, expect='violation', count=1):
    return dict(prop=prop, name=name, file=file, old=old, new=new, expect=expect, count=count)


CU = 'outrank/core_utils.py'
CR = 'outrank/core_ranking.py'
MI = 'outrank/algorithms/feature_ranking/ranking_mi_numba.py'
IE = 'outrank/algorithms/importance_estimator.py'

VARIANTS = []

# ---------------------------------------------------------------- C16
VARIANTS += [
    V('C16', 'F11 reintroduced: strip() before split', CU, "line_string = line_string.rstrip('\\r\\n')", "line_string = line_string.strip()"),
    V('C16', 'strip tab explicitly', CU, "line_string = line_string.rstrip('\\r\\n')", "line_string = line_string.rstrip('\\t\\r\\n')"),
    V('C16', 'whitespace split', CU, "parts = line_string.split(delimiter)", "parts = line_string.split()"),
    V('C16', 'drop empty tsv fields', CU, "parts = line_string.split(delimiter)\n    return parts", "parts = [p for p in line_string.split(delimiter) if p]\n    return parts"),
    V('C16', 'csv via split', CU, "clx = list(csv.reader([line_string])).pop()", "clx = line_string.strip().split(delimiter)"),
    V('C16', 'csv fields stripped', CU, "clx = list(csv.reader([line_string])).pop()", "clx = [x.strip() for x in list(csv.reader([line_string])).pop()]"),
    V('C16', 'vw join with space', CU, "other_parts = '-'.join(x for x in core_parts[1:] if x != '')", "other_parts = ' '.join(x for x in core_parts[1:] if x != '')"),
    V('C16', 'vw keeps empty tokens', CU, "other_parts = '-'.join(x for x in core_parts[1:] if x != '')", "other_parts = '-'.join(x for x in core_parts[1:])"),
    V('C16', 'vw prefix slice 1', CU, "x[2:] if x is not None else None", "x[1:] if x is not None else None"),
    V('C16', 'vw header from 0', CU, ") for el in table_header[1:]", ") for el in table_header"),
    V('C16', 'vw absent namespaces as empty string', CU, "remainder_hash.get(\n            el, None,\n        )", "remainder_hash.get(\n            el, '',\n        )"),
    V('C16', 'vw label second token', CU, "label_part = all_line_parts[0].split(' ')[0]", "label_part = all_line_parts[0].split(' ')[1]"),
    V('C16', 'dispatch: csv-raw to tsv parser', CU, "elif args.data_source == 'ob-csv' or args.data_source == 'csv-raw':\n        return parse_ob_csv_line(line_string, delimiter, args)", "elif args.data_source == 'ob-csv':\n        return parse_ob_csv_line(line_string, delimiter, args)\n    elif args.data_source == 'csv-raw':\n        return parse_ob_line(line_string, delimiter, args)"),
    V('C16', 'dispatch: default returns', CU, "        raise NotImplementedError(\n            'Please, specify a valid --data_source argument!',\n        )", "        return parse_ob_csv_line(line_string, delimiter, args)"),
    V('C16', 'field-count gate >=', CR, "if len(parsed_line) == len(column_descriptions):", "if len(parsed_line) >= len(column_descriptions):"),
    V('C16', 'namespace: f32 test changed', CU, "if type_name == 'f32':", "if type_name != 'generic':"),
    V('C16', 'namespace: map reversed', CU, "id_feature_map[fw_id] = feature", "id_feature_map[feature] = fw_id"),
    # twins
    V('C16', 'twin: rstrip newline only', CU, "line_string = line_string.rstrip('\\r\\n')", "line_string = line_string.rstrip('\\n')", expect='clean'),
    V('C16', 'twin: inline split', CU, "parts = line_string.split(delimiter)\n    return parts", "return line_string.split(delimiter)", expect='clean'),
    V('C16', 'twin: next(csv.reader)', CU, "clx = list(csv.reader([line_string])).pop()", "clx = next(csv.reader([line_string]))", expect='clean'),
    V('C16', 'twin: vw join list comprehension', CU, "other_parts = '-'.join(x for x in core_parts[1:] if x != '')", "tokens = [x for x in core_parts[1:] if x]\n        other_parts = '-'.join(tokens)", expect='clean'),
    V('C16', 'twin: dispatch with in-set', CU, "elif args.data_source == 'ob-csv' or args.data_source == 'csv-raw':", "elif args.data_source in {'ob-csv', 'csv-raw'}:", expect='clean'),
]

# ---------------------------------------------------------------- C14
HLL = 'outrank/algorithms/sketches/counting_ultiloglog.py'
_ADD_FIXED = """        if not self.hll_flag:
            if value in self.warmup_set:
                return
            if len(self.warmup_set) < self.warmup_size:
                self.warmup_set.add(value)
                return
            # a new value beyond the warm-up capacity: switch to the registers
            self.M = np.zeros(self.m)
            for element in self.warmup_set:
                self._hasher_update(element)
            self.warmup_set = {}
            self.hll_flag = True
        self._hasher_update(value)
"""
_ADD_ORIG = """        if len(self.warmup_set) < self.warmup_size and not self.hll_flag:
            self.warmup_set.add(value)
        elif not self.hll_flag:
            if not self.hll_flag:
                self.M = np.zeros(self.m)
                for element in self.warmup_set:
                    self._hasher_update(element)
                self.warmup_set = {}
            self.hll_flag = True
        else:
            self._hasher_update(value)
"""
_ADD_TWIN = """        if self.hll_flag:
            self._hasher_update(value)
            return
        if value in self.warmup_set:
            return
        if len(self.warmup_set) >= self.warmup_size:
            self.M = np.zeros(self.m)
            for element in self.warmup_set:
                self._hasher_update(element)
            self.hll_flag = True
            self.warmup_set = {}
            self._hasher_update(value)
        else:
            self.warmup_set.add(value)
"""
VARIANTS += [
    V('C14', 'F10 reintroduced: original add()', HLL, _ADD_FIXED, _ADD_ORIG),
    V('C14', 'trigger value dropped', HLL, "            self.hll_flag = True\n        self._hasher_update(value)\n", "            self.hll_flag = True\n            return\n        self._hasher_update(value)\n"),
    V('C14', 'duplicate check removed', HLL, "            if value in self.warmup_set:\n                return\n", ""),
    V('C14', 'set dropped before transfer', HLL, "            for element in self.warmup_set:\n                self._hasher_update(element)\n            self.warmup_set = {}\n", "            self.warmup_set = {}\n            for element in self.warmup_set:\n                self._hasher_update(element)\n"),
    V('C14', 'transfer loop removed', HLL, "            for element in self.warmup_set:\n                self._hasher_update(element)\n            self.warmup_set = {}\n", "            self.warmup_set = {}\n"),
    V('C14', 'capacity off by one (<=)', HLL, "if len(self.warmup_set) < self.warmup_size:", "if len(self.warmup_set) <= self.warmup_size:"),
    V('C14', 'capacity m/4', HLL, "self.warmup_size = int(self.m / 2)", "self.warmup_size = int(self.m / 4)"),
    V('C14', 'p = 16', HLL, "self.p = 19", "self.p = 16"),
    V('C14', 'register overwrite instead of max', HLL, "self.M[j] = max(self.M[j], rho)", "self.M[j] = rho"),
    V('C14', 'min instead of max', HLL, "self.M[j] = max(self.M[j], rho)", "self.M[j] = min(self.M[j], rho)"),
    V('C14', 'bucket from high bits mis-sized', HLL, "j = x & (self.m - 1)", "j = x & self.m"),
    V('C14', 'estimator log2', HLL, "np.log(np.divide(self.m, len(np.where(self.M == 0)[0])))", "np.log2(np.divide(self.m, len(np.where(self.M == 0)[0])))"),
    V('C14', 'estimator counts non-empty', HLL, "len(np.where(self.M == 0)[0])", "len(np.where(self.M != 0)[0])"),
    V('C14', 'len ignores flag', HLL, "            return len(self.warmup_set)\n", "            return len(self.warmup_set) + 1\n"),
    V('C14', 'hasher built once', HLL, "        self.hll_flag = False\n", "        self.hll_flag = False\n        self.hasher = xxhash.xxh32(seed=self.p)\n", expect='clean'),
    V('C14', 'hasher not reset per value', HLL, "        self.hasher = xxhash.xxh32(seed=self.p)\n        if isinstance(value, str):", "        if isinstance(value, str):"),
    V('C14', 'twin: add restructured', HLL, _ADD_FIXED, _ADD_TWIN, expect='clean'),
    V('C14', 'twin: count_nonzero zero registers', HLL, "len(np.where(self.M == 0)[0])", "np.count_nonzero(self.M == 0)", expect='clean'),
    V('C14', 'twin: 2**18 literal capacity', HLL, "self.warmup_size = int(self.m / 2)", "self.warmup_size = 2**18", expect='clean'),
]

# ---------------------------------------------------------------- C15
CMS = 'outrank/algorithms/sketches/counting_cms.py'
CNT = 'outrank/algorithms/sketches/counting_counters_ordinary.py'
VARIANTS += [
    V('C15', 'query uses max', CMS, "return min(self.M[i][cms_hash(x, self.hash_seeds[i], self.width)] for i in range(self.depth))", "return max(self.M[i][cms_hash(x, self.hash_seeds[i], self.width)] for i in range(self.depth))"),
    V('C15', 'query skips last row', CMS, "for i in range(self.depth))", "for i in range(self.depth - 1))"),
    V('C15', 'query uses first seed for all rows', CMS, "return min(self.M[i][cms_hash(x, self.hash_seeds[i], self.width)]", "return min(self.M[i][cms_hash(x, self.hash_seeds[0], self.width)]"),
    V('C15', 'update increments by 1 not delta', CMS, "M[i, location] += delta", "M[i, location] += 1"),
    V('C15', 'update loop starts at 1', CMS, "for i in prange(depth):", "for i in prange(1, depth):"),
    V('C15', 'update width-1', CMS, "location = cms_hash(x, hash_seeds[i], width)", "location = cms_hash(x, hash_seeds[i], width - 1)"),
    V('C15', 'add drops delta', CMS, "CountMinSketch._add(self.M, x, self.depth, self.width, self.hash_seeds, delta)", "CountMinSketch._add(self.M, x, self.depth, self.width, self.hash_seeds)"),
    V('C15', 'add swaps depth/width', CMS, "CountMinSketch._add(self.M, x, self.depth, self.width, self.hash_seeds, delta)", "CountMinSketch._add(self.M, x, self.width, self.depth, self.hash_seeds, delta)"),
    V('C15', 'hash without modulo', CMS, "return (x_hash + seed) % width", "return (x_hash + seed) & width"),
    V('C15', 'conservative update (conditional)', CMS, "            M[i, location] += delta\n", "            if M[i, location] < 10:\n                M[i, location] += delta\n"),
    V('C15', 'counter guard <=', CNT, "    def add(self, val):\n        if len(self.default_counter) < self.max_bound_thr:", "    def add(self, val):\n        if len(self.default_counter) <= self.max_bound_thr:"),
    V('C15', 'counter guard removed', CNT, "    def add(self, val):\n        if len(self.default_counter) < self.max_bound_thr:\n            self.default_counter[val] += 1", "    def add(self, val):\n        self.default_counter[val] += 1"),
    V('C15', 'counter += 2', CNT, "self.default_counter[val] += 1", "self.default_counter[val] += 2"),
    V('C15', 'counter bound doubled', CNT, "self.max_bound_thr = bound", "self.max_bound_thr = bound * 2"),
    V('C15', 'twin: query list + np.min', CMS, "return min(self.M[i][cms_hash(x, self.hash_seeds[i], self.width)] for i in range(self.depth))", "return min([self.M[i, cms_hash(x, self.hash_seeds[i], self.width)] for i in range(self.depth)])", expect='clean'),
    V('C15', 'twin: range instead of prange', CMS, "for i in prange(depth):", "for i in range(depth):", expect='clean'),
    V('C15', 'twin: inline location', CMS, "            location = cms_hash(x, hash_seeds[i], width)\n            M[i, location] += delta", "            M[i, cms_hash(x, hash_seeds[i], width)] += delta", expect='clean'),
    V('C15', 'twin: counter guard flipped', CNT, "    def add(self, val):\n        if len(self.default_counter) < self.max_bound_thr:", "    def add(self, val):\n        if self.max_bound_thr > len(self.default_counter):", expect='clean'),
]

# ---------------------------------------------------------------- C07 / C06
_DIAG = """    # note: combinations_with_replacement already contains the diagonal elements
    return combinations
"""
_DIAG_ORIG = """    if args.target_ranking_only != 'True':
        # Diagonal elements (non-label)
        combinations += [
            (individual_column, individual_column)
            for individual_column in all_columns
            if individual_column != args.label_column
        ]
    return combinations
"""
VARIANTS += [
    V('C07', 'F18 reintroduced: diagonal appended to cwr', CR, _DIAG, _DIAG_ORIG),
    V('C06', 'F17 reintroduced: diagonal incl. relation features', CR, _DIAG, _DIAG_ORIG),
    V('C07', 'F16 reintroduced: shared counter', CR, "    full_combination_space = prior_combinations_sample(\n        full_combination_space, args, GLOBAL_PRIOR_CONSTRUCTION_COUNTS[join_string],\n    )", "    full_combination_space = prior_combinations_sample(full_combination_space, args)"),
    V('C07', 'construction counter not per kind', CR, "GLOBAL_PRIOR_CONSTRUCTION_COUNTS[join_string],", "GLOBAL_PRIOR_CONSTRUCTION_COUNTS['interactions'],"),
    V('C07', 'descending sort', CR, "key=prior_counts.get, reverse=False)", "key=prior_counts.get, reverse=True)"),
    V('C07', 'sort a set of the candidates', CR, "tmp = sorted(combinations, key=prior_counts.get, reverse=False)", "tmp = sorted(set(combinations), key=prior_counts.get, reverse=False)"),
    V('C07', 'cap + 1', CR, "[:args.combination_number_upper_bound]\n\n    for combination in tmp:", "[:args.combination_number_upper_bound + 1]\n\n    for combination in tmp:"),
    V('C07', 'suffix slice', CR, "[:args.combination_number_upper_bound]\n\n    for combination in tmp:", "[-args.combination_number_upper_bound:]\n\n    for combination in tmp:"),
    V('C07', 'increment all candidates', CR, "    for combination in tmp:\n        prior_counts[combination] += 1", "    for combination in combinations:\n        prior_counts[combination] += 1"),
    V('C07', 'increment by 2', CR, "        prior_counts[combination] += 1", "        prior_counts[combination] += 2"),
    V('C07', 'counts reset every batch', CR, "    missing_combinations = set(set(combinations)).difference(prior_counts.keys())", "    missing_combinations = set(combinations)"),
    V('C07', 'outside writer', CR, "    random.shuffle(combinations)\n", "    random.shuffle(combinations)\n    GLOBAL_PRIOR_COMB_COUNTS[combinations[0]] += 1\n"),
    V('C07', 'export filtered', 'outrank/task_ranking.py', "out_dict = {str(k): v for k, v in GLOBAL_PRIOR_COMB_COUNTS.items()}", "out_dict = {str(k): v for k, v in GLOBAL_PRIOR_COMB_COUNTS.items() if v > 0}"),
    V('C07', 'export counts + 1', 'outrank/task_ranking.py', "out_dict = {str(k): v for k, v in GLOBAL_PRIOR_COMB_COUNTS.items()}", "out_dict = {str(k): v + 1 for k, v in GLOBAL_PRIOR_COMB_COUNTS.items()}"),
    V('C07', 'interaction candidates with replacement', CR, "itertools.combinations(all_columns, interaction_order),", "itertools.product(all_columns, repeat=interaction_order),"),
    V('C07', 'twin: heapq.nsmallest', CR, "    tmp = sorted(combinations, key=prior_counts.get, reverse=False)[:args.combination_number_upper_bound]", "    import heapq\n    tmp = heapq.nsmallest(args.combination_number_upper_bound, combinations, key=prior_counts.get)", expect='clean'),
    V('C07', 'twin: lambda key', CR, "key=prior_counts.get, reverse=False)", "key=lambda c: prior_counts[c])", expect='clean'),
    V('C07', 'twin: set difference operator', CR, "    missing_combinations = set(set(combinations)).difference(prior_counts.keys())", "    missing_combinations = set(combinations) - set(prior_counts.keys())", expect='clean'),
    # C06
    V('C06', 'mirror keeps orientation', CR, "inv = (triplet[1], triplet[0], triplet[2])", "inv = (triplet[0], triplet[1], triplet[2])"),
    V('C06', 'mirror drops original', CR, "        final_triplets.append(inv)\n        final_triplets.append(triplet)\n", "        final_triplets.append(inv)\n"),
    V('C06', 'mirror only non-self pairs', CR, "        final_triplets.append(inv)\n        final_triplets.append(triplet)\n", "        if triplet[0] != triplet[1]:\n            final_triplets.append(inv)\n        final_triplets.append(triplet)\n"),
    V('C06', 'combinations without replacement', CR, "_combinations = itertools.combinations_with_replacement(all_columns, 2)", "_combinations = itertools.combinations(all_columns, 2)"),
    V('C06', 'relation features in full enumeration', CR, "itertools.combinations_with_replacement(non_rel_columns, 2),", "itertools.combinations_with_replacement(sorted(all_columns), 2),"),
    V('C06', 'relation x label dropped', CR, "        combinations += [(column, args.label_column) for column in rel_columns]\n", ""),
    V('C06', 'cap applied after evaluation list copied', CR, "    combinations = prior_combinations_sample(combinations, args)\n    random.shuffle(combinations)", "    sampled = prior_combinations_sample(combinations, args)\n    random.shuffle(combinations)"),
    V('C06', 'constant path scores 1.0', CR, "final_constant_imp.append((c1, c2, 0.0))", "final_constant_imp.append((c1, c2, 1.0))"),
    V('C06', 'names swapped in worker result', IE, "    return feature_one, feature_two, ranking_score", "    return feature_two, feature_one, ranking_score"),
    V('C06', 'twin: inline inverse', CR, "        inv = (triplet[1], triplet[0], triplet[2])\n        final_triplets.append(inv)", "        final_triplets.append((triplet[1], triplet[0], triplet[2]))", expect='clean'),
    V('C06', 'twin: target-only as list comprehension over list', CR, "            combinations = [x for x in _combinations if args.label_column in x]", "            combinations = [pair for pair in list(_combinations) if args.label_column in pair]", expect='clean'),
]

# ---------------------------------------------------------------- C13
TRK = 'outrank/task_ranking.py'
VARIANTS += [
    V('C13', 'F9 reintroduced: bare value membership', CR, "if (column, value) not in ignored_values:", "if value not in ignored_values:"),
    V('C13', 'F21 reintroduced: numbers reach xxhash unconverted', 'outrank/core_utils.py', "    if not isinstance(input_obj, (str, bytes)):\n        # numeric columns (e.g. the noise control features) reach the cardinality step too\n        input_obj = str(input_obj)\n", ""),
    V('C13', 'F21 reintroduced: truthiness guard drops 0', CR, "            if not (isinstance(unique_value, str) and unique_value == ''):", "            if unique_value:"),
    V('C13', 'twin: empty-string guard spelled !=', CR, "            if not (isinstance(unique_value, str) and unique_value == ''):", "            if unique_value != '':", expect='clean'),
    V('C13', 'str values no longer encoded', 'outrank/core_utils.py', "    if isinstance(input_obj, str):\n        input_obj = input_obj.encode('utf-8')\n", ""),
    V('C13', 'retire on >=', CR, "if val > rare_value_count_upper_bound:", "if val >= rare_value_count_upper_bound:"),
    V('C13', 'membership test dropped', CR, "            if (column, value) not in ignored_values:\n                global_storage[(column, value)] += 1", "            global_storage[(column, value)] += 1"),
    V('C13', 'retired set rebuilt each batch', CR, "    ignored_values = IGNORED_VALUES\n", "    ignored_values = set()\n"),
    V('C13', 'store keyed by value only', CR, "                global_storage[(column, value)] += 1", "                global_storage[value] += 1"),
    V('C13', 'retired keys not deleted', CR, "    for key in keys_to_remove:\n        del global_storage[key]\n", ""),
    V('C13', 'sketch re-created every batch', CR, "        if column not in GLOBAL_CARDINALITY_STORAGE:\n            GLOBAL_CARDINALITY_STORAGE[column] = HyperLogLog(HYPERLL_ERROR_BOUND)", "        GLOBAL_CARDINALITY_STORAGE[column] = HyperLogLog(HYPERLL_ERROR_BOUND)"),
    V('C13', 'counter re-created every batch', CR, "        if column not in GLOBAL_COUNTS_STORAGE:\n            GLOBAL_COUNTS_STORAGE[column] = PrimitiveConstrainedCounter(max_unique_hist_constraint)", "        GLOBAL_COUNTS_STORAGE[column] = PrimitiveConstrainedCounter(max_unique_hist_constraint)"),
    V('C13', 'counter fed per batch (batch_add)', CR, "        for value in column_data.values:\n            GLOBAL_COUNTS_STORAGE[column].add(value)", "        GLOBAL_COUNTS_STORAGE[column].batch_add(column_data.values)"),
    V('C13', 'counter fed with unique values only', CR, "        for value in column_data.values:\n            GLOBAL_COUNTS_STORAGE[column].add(value)", "        for value in unique_values:\n            GLOBAL_COUNTS_STORAGE[column].add(value)"),
    V('C13', 'sketch fed unhashed first 100 values', CR, "        for unique_value in unique_values:\n", "        for unique_value in list(unique_values)[:100]:\n"),
    V('C13', 'sketch skips short values', CR, "            if not (isinstance(unique_value, str) and unique_value == ''):\n                GLOBAL_CARDINALITY_STORAGE", "            if len(unique_value) > 1:\n                GLOBAL_CARDINALITY_STORAGE"),
    V('C13', 'F7 reintroduced: str to xxhash', CU, "    if isinstance(input_obj, str):\n        input_obj = input_obj.encode('utf-8')\n", ""),
    V('C13', 'coverage without *100', CR, "            1 - (all_missing / input_dataframe.shape[0])\n        ) * 100", "            1 - (all_missing / input_dataframe.shape[0])\n        )"),
    V('C13', 'coverage counts only first symbol', CR, "                for x in all_missing_symbols\n", "                for x in list(all_missing_symbols)[:1]\n"),
    V('C13', 'coverage denominators columns', CR, "1 - (all_missing / input_dataframe.shape[0])", "1 - (all_missing / input_dataframe.shape[1])"),
    V('C13', 'tail batch coverage not accumulated', CR, "        for k, v in coverage_storage.items():\n            local_coverage_object[k].append(v)\n\n        step_timing_checkpoints", "        step_timing_checkpoints"),
    V('C13', 'annotation uses max coverage', TRK, "round((np.mean(np.array(coverage_object[feature_first]))), 1)", "round((np.max(np.array(coverage_object[feature_first]))), 1)"),
    V('C13', 'annotation cardinality of other feature', TRK, "card_second = str(len(cardinality_object[feature_second]))", "card_second = str(len(cardinality_object[feature_first]))"),
    V('C13', 'histogram >= n', TRK, "more_than = lambda n, ary: len(np.where(ary > n)[0])", "more_than = lambda n, ary: len(np.where(ary >= n)[0])"),
    V('C13', 'histogram thresholds to 10^4', TRK, "for x in [0] + [1 * 10 ** x for x in range(6)]}", "for x in [0] + [1 * 10 ** x for x in range(5)]}"),
    V('C13', 'rare table drops count 1', CU, "        namespace, value = namespace_tuple\n        out_df_rows.append([namespace, value, count])", "        namespace, value = namespace_tuple\n        if count > 1:\n            out_df_rows.append([namespace, value, count])"),
    V('C13', 'outside writer of rare store', CR, "    bounds_storage = compute_bounds_increment(input_dataframe, numeric_column_types)\n", "    bounds_storage = compute_bounds_increment(input_dataframe, numeric_column_types)\n    GLOBAL_RARE_VALUE_STORAGE.clear()\n"),
    V('C13', 'twin: inline bound', CR, "        if val > rare_value_count_upper_bound:", "        if val > args.rare_value_count_upper_bound:", expect='clean'),
    V('C13', 'twin: tuple key in a local', CR, "            if (column, value) not in ignored_values:\n                global_storage[(column, value)] += 1", "            pair = (column, value)\n            if pair not in ignored_values:\n                global_storage[pair] += 1", expect='clean'),
    V('C13', 'twin: unique() for the sketch', CR, "        unique_values = set(column_data)\n", "        unique_values = set(column_data.values)\n", expect='clean'),
]

# ---------------------------------------------------------------- C12
RTF = 'outrank/feature_transformations/ranking_transformers.py'
FWF = 'outrank/feature_transformations/feature_transformer_vault/fw_transformers.py'
DEFF = 'outrank/feature_transformations/feature_transformer_vault/default_transformers.py'
VARIANTS += [
    V('C12', 'F8 reintroduced: reset inside preset loop', RTF, "        self.transformer_collection: dict[str, str] = dict()\n        for transformer_namespace in preset.split(','):\n", "        for transformer_namespace in preset.split(','):\n            self.transformer_collection: dict[str, str] = dict()\n"),
    V('C12', 'collection aliases vault dict', RTF, "                self.transformer_collection = {\n                    **self.transformer_collection,\n                    **transformer_subspace,\n                }", "                if not self.transformer_collection:\n                    self.transformer_collection = transformer_subspace\n                else:\n                    self.transformer_collection.update(transformer_subspace)"),
    V('C12', 'majority threshold 0.9', RTF, "self.max_maj_support = 0.80", "self.max_maj_support = 0.90"),
    V('C12', 'majority <= ', RTF, "and cfreq < self.max_maj_support", "and cfreq <= self.max_maj_support"),
    V('C12', 'nan threshold swapped with majority', RTF, "and nan_prop < self.nan_prop_support", "and nan_prop < self.max_maj_support"),
    V('C12', 'distinct >= 1', RTF, "len(u) > 1\n", "len(u) >= 1\n"),
    V('C12', 'nan condition dropped', RTF, "                    and nan_prop < self.nan_prop_support\n", ""),
    V('C12', 'majority over unique count', RTF, "cfreq = np.divide(np.max(c), np.sum(c))", "cfreq = np.divide(np.max(c), len(c))"),
    V('C12', 'empty parses to nan', RTF, "cvals = [0.0 if len(x) == 0 else float(x) for x in cvals]", "cvals = [np.nan if len(x) == 0 else float(x) for x in cvals]"),
    V('C12', 'empty rows skipped', RTF, "cvals = [0.0 if len(x) == 0 else float(x) for x in cvals]", "cvals = [float(x) for x in cvals if len(x) > 0]"),
    V('C12', 'fw sqrt uses log', FWF, "f'np.round(np.sqrt(X-{greater_than})*{resolution},0), 0))'", "f'np.round(np.log(X-{greater_than})*{resolution},0), 0))'"),
    V('C12', 'fw res/gt swapped in name', FWF, "FW_TRANSFORMERS[f'_tr_fw_sqrt_res_{resolution}_gt_{greater_than}'] = (", "FW_TRANSFORMERS[f'_tr_fw_sqrt_res_{greater_than}_gt_{resolution}'] = ("),
    V('C12', 'fw prob threshold not divided', FWF, "    for greater_than in [np.divide(x, 100) for x in greater_than_range]:", "    for greater_than in [np.divide(x, 10) for x in greater_than_range]:", expect='clean'),
    V('C12', 'fw inner threshold off', FWF, "np.where(X >{greater_than}, np.round(np.log(X-{greater_than})*{resolution},0), 0))'\n\nfor", "np.where(X >{greater_than}, np.round(np.log(X-{resolution})*{resolution},0), 0))'\n\nfor"),
    V('C12', 'fw rounding to 1 decimal', FWF, "np.round(np.sqrt(X-{greater_than})*{resolution},0), 0))'\n\n        FW_TRANSFORMERS[\n            f'_tr_fw_prob_log", "np.round(np.sqrt(X-{greater_than})*{resolution},1), 0))'\n\n        FW_TRANSFORMERS[\n            f'_tr_fw_prob_log"),
    V('C12', 'minimal sqrt formula drifts from default', DEFF, "MINIMAL_TRANSFORMERS = {\n    '_tr_sqrt': 'np.sqrt(X)',", "MINIMAL_TRANSFORMERS = {\n    '_tr_sqrt': 'np.sqrt(np.abs(X))',"),
    V('C12', 'log(x+1) becomes log(x)', DEFF, "    '_tr_log(x+1)': 'np.log(X + 1)',", "    '_tr_log(x+1)': 'np.log(X)',", count=4),
    V('C12', 'column named by transformer only', RTF, "feature_name = f'{numeric_column}{k}'", "feature_name = f'{k}'"),
    V('C12', 'X from wrong column', RTF, "X = self.get_vals(dataframe, numeric_column)", "X = self.get_vals(dataframe, dataframe.columns[0])"),
    V('C12', 'twin: dict union operator', RTF, "                self.transformer_collection = {\n                    **self.transformer_collection,\n                    **transformer_subspace,\n                }", "                self.transformer_collection = self.transformer_collection | transformer_subspace", expect='clean'),
    V('C12', 'twin: threshold literal 4/5', RTF, "self.max_maj_support = 0.80", "self.max_maj_support = 4 / 5", expect='clean'),
    V('C12', 'twin: parse spelled the other way round', RTF, "cvals = [0.0 if len(x) == 0 else float(x) for x in cvals]", "cvals = [float(x) if x else 0.0 for x in cvals]", expect='clean'),
    V('C12', 'twin: fw formula spacing', FWF, "f'np.where(X < {greater_than}, '\n            f'X, '\n            f'np.where(X>{greater_than} ,'", "f'np.where(X<{greater_than}, '\n            f'X, '\n            f'np.where(X > {greater_than},'", expect='clean'),
]

# ---------------------------------------------------------------- C08
VARIANTS += [
    V('C08', 'batch trigger >', CR, "if len(line_tmp_storage) >= args.minibatch_size:", "if len(line_tmp_storage) > args.minibatch_size:"),
    V('C08', 'subsampling ==', CR, "if line_counter % args.subsampling != 0:", "if line_counter % args.subsampling == 0:"),
    V('C08', 'counter incremented after the skip', CR, "        line_counter += 1\n        local_pbar.update(1)\n\n        if line_counter % args.subsampling != 0:\n            continue\n", "        local_pbar.update(1)\n\n        if line_counter % args.subsampling != 0:\n            line_counter += 1\n            continue\n        line_counter += 1\n"),
    V('C08', 'counter starts at 1', CR, "    line_counter = 0\n", "    line_counter = 1\n"),
    V('C08', 'header read twice', CR, "    file_stream.readline()\n", "    file_stream.readline()\n    file_stream.readline()\n"),
    V('C08', 'header not skipped', CR, "    file_stream.readline()\n", ""),
    V('C08', 'tail threshold >=', CR, "if remaining_batch_size > 2**10:", "if remaining_batch_size >= 2**10:"),
    V('C08', 'tail threshold 2**9', CR, "if remaining_batch_size > 2**10:", "if remaining_batch_size > 2**9:"),
    V('C08', 'buffer not reset', CR, "            line_tmp_storage = []\n            step_timing_checkpoints", "            step_timing_checkpoints"),
    V('C08', 'accumulate after checkpoint', CR, "            importances_df += importances_batch.triplet_scores\n\n            if args.heuristic != 'Constant':\n                local_pbar.set_description('Creating checkpoint')\n                checkpoint_importances_df(importances_df)\n", "            if args.heuristic != 'Constant':\n                local_pbar.set_description('Creating checkpoint')\n                checkpoint_importances_df(importances_df)\n            importances_df += importances_batch.triplet_scores\n"),
    V('C08', 'checkpoint only every 2nd batch', CR, "            if args.heuristic != 'Constant':\n                local_pbar.set_description('Creating checkpoint')", "            if args.heuristic != 'Constant' and len(step_timing_checkpoints) % 2 == 0:\n                local_pbar.set_description('Creating checkpoint')"),
    V('C08', 'checkpoint of the batch only', CR, "                checkpoint_importances_df(importances_df)\n\n    file_stream.close()", "                checkpoint_importances_df(importances_batch.triplet_scores)\n\n    file_stream.close()"),
    V('C08', 'tail not checkpointed', CR, "        bounds_storage_batch.append(bounds_storage)\n        checkpoint_importances_df(importances_df)\n", "        bounds_storage_batch.append(bounds_storage)\n"),
    V('C08', 'tail not accumulated', CR, "        step_timing_checkpoints.append(importances_batch.step_times)\n        importances_df += importances_batch.triplet_scores\n        bounds_storage = dict()", "        step_timing_checkpoints.append(importances_batch.step_times)\n        bounds_storage = dict()"),
    V('C08', 'mean instead of median', CR, "grouped = importances_df.groupby(['FeatureA', 'FeatureB'], as_index=False).median()", "grouped = importances_df.groupby(['FeatureA', 'FeatureB'], as_index=False).mean()"),
    V('C08', 'group by FeatureA only', CR, "grouped = importances_df.groupby(['FeatureA', 'FeatureB'], as_index=False).median()", "grouped = importances_df.groupby(['FeatureA'], as_index=False).median()"),
    V('C08', 'descending final sort', TRK, "triplets = triplets.sort_values(by=['Score'])", "triplets = triplets.sort_values(by=['Score'], ascending=False)"),
    V('C08', 'final table not sorted', TRK, "    triplets = triplets.sort_values(by=['Score'])\n", ""),
    V('C08', 'rows buffer sorted before scoring', CR, "            importances_batch, bounds_storage, coverage_storage, memory_storage = compute_batch_ranking(\n                line_tmp_storage,", "            line_tmp_storage.sort()\n            importances_batch, bounds_storage, coverage_storage, memory_storage = compute_batch_ranking(\n                line_tmp_storage,"),
    V('C08', 'comment lines skipped', CR, "        if line_counter % args.subsampling != 0:\n            continue\n", "        if line_counter % args.subsampling != 0:\n            continue\n        if line.startswith('#'):\n            continue\n"),
    V('C08', 'twin: extend instead of +=', CR, "            importances_df += importances_batch.triplet_scores\n\n            if args.heuristic", "            importances_df.extend(importances_batch.triplet_scores)\n\n            if args.heuristic", expect='clean'),
    V('C08', 'twin: flipped trigger comparison', CR, "if len(line_tmp_storage) >= args.minibatch_size:", "if args.minibatch_size <= len(line_tmp_storage):", expect='clean'),
    V('C08', 'twin: tail literal 1024', CR, "if remaining_batch_size > 2**10:", "if remaining_batch_size > 1024:", expect='clean'),
    V('C08', 'twin: explicit ascending', TRK, "triplets = triplets.sort_values(by=['Score'])", "triplets = triplets.sort_values(by='Score', ascending=True)", expect='clean'),
]

# ---------------------------------------------------------------- C18
TSF = 'outrank/task_summary.py'
VARIANTS += [
    V('C18', 'label matched by startswith', TSF, "if label_column == feature_a.split('-')[0]:", "if feature_a.startswith(label_column):"),
    V('C18', 'label side contributes itself', TSF, "            final_ranking.append([feature_b, score])\n", "            final_ranking.append([feature_a, score])\n"),
    V('C18', 'second orientation dropped', TSF, "        elif label_column == feature_b.split('-')[0]:\n            final_ranking.append([feature_a, score])\n", ""),
    V('C18', 'mean instead of median', TSF, "        .median()\n", "        .mean()\n"),
    V('C18', 'ascending sort', TSF, "        .sort_values(by=f'Score {heuristic}', ascending=False)", "        .sort_values(by=f'Score {heuristic}', ascending=True)"),
    V('C18', 'normalise always', TSF, "    if 'MI' in heuristic:\n        min_score", "    if True:\n        min_score"),
    V('C18', 'normalise by max only', TSF, "(final_df[f'Score {heuristic}'] - min_score) / (max_score - min_score)", "(final_df[f'Score {heuristic}']) / (max_score)"),
    V('C18', 'normalise before the median', TSF, "    final_df = (\n        final_df.groupby('Feature')", "    final_df[f'Score {heuristic}'] = final_df[f'Score {heuristic}'] / final_df[f'Score {heuristic}'].max()\n    final_df = (\n        final_df.groupby('Feature')"),
    V('C18', 'interaction mean', TSF, "f'Combined score (order: {interaction_order}, {heuristic})': np.median(v),", "f'Combined score (order: {interaction_order}, {heuristic})': np.mean(v),"),
    V('C18', 'interaction split without cardinality strip', TSF, "for el in fname.split('-')[0].split(' AND '):", "for el in fname.split(' AND '):"),
    V('C18', 'interaction order >= 1', TSF, "    if interaction_order > 1:", "    if interaction_order >= 1:"),
    V('C18', 'twin: normalisation with locals inlined', TSF, "        final_df[f'Score {heuristic}'] = (final_df[f'Score {heuristic}'] - min_score) / (max_score - min_score)", "        scores = final_df[f'Score {heuristic}']\n        final_df[f'Score {heuristic}'] = (scores - min_score) / (max_score - min_score)", expect='clean'),
    V('C18', 'twin: flipped label comparison', TSF, "if label_column == feature_a.split('-')[0]:", "if feature_a.split('-')[0] == label_column:", expect='clean'),
]
VARIANTS += [
    V('C18', 'twin: score column name in a local', TSF, "    final_df = pd.DataFrame(final_ranking, columns=['Feature', f'Score {heuristic}'])\n    final_df = (\n        final_df.groupby('Feature')\n        .median()\n        .reset_index()\n        .sort_values(by=f'Score {heuristic}', ascending=False)\n    )", "    score_column = f'Score {heuristic}'\n    final_df = pd.DataFrame(final_ranking, columns=['Feature', score_column])\n    final_df = (\n        final_df.groupby('Feature')\n        .median()\n        .reset_index()\n        .sort_values(by=score_column, ascending=False)\n    )", expect='clean'),
]

# ---------------------------------------------------------------- C17
VARIANTS += [
    V('C17', 'missing pairs skipped', IE, "            if is_redundancy:\n                values.append(redundancy_dict.get(interaction_tuple, 0))", "            if is_redundancy:\n                if interaction_tuple in redundancy_dict:\n                    values.append(redundancy_dict[interaction_tuple])"),
    V('C17', 'None sentinel', IE, "        top_importance = -np.inf\n", "        top_importance = None\n"),
    V('C17', 'sentinel 0', IE, "        top_importance = -np.inf\n", "        top_importance = 0\n"),
    V('C17', 'minimise', IE, "            if importance > top_importance:", "            if importance < top_importance:"),
    V('C17', 'sign of redundancy flipped', IE, "importance = feature_relevance - alpha * feature_redundancy + beta * feature_relation", "importance = feature_relevance + alpha * feature_redundancy + beta * feature_relation"),
    V('C17', 'alpha/beta swapped', IE, "importance = feature_relevance - alpha * feature_redundancy + beta * feature_relation", "importance = feature_relevance - beta * feature_redundancy + alpha * feature_relation"),
    V('C17', 'relation uses redundancy dict', IE, "            feature_relation = calc_higher_order(feat, False)", "            feature_relation = calc_higher_order(feat, True)"),
    V('C17', 'pair key reversed', IE, "            interaction_tuple = (feat, feature)", "            interaction_tuple = (feature, feat)"),
    V('C17', 'mean for median', IE, "return np.median(values) if strategy == 'median' else", "return np.mean(values) if strategy == 'median' else"),
    V('C17', 'candidates include ranked', IE, "        for feat in all_features - set(ranked_features):", "        for feat in all_features:"),
    V('C17', 'start with min relevance', IE, "most_important_feature = max(relevance_dict.items(), key=operator.itemgetter(1))[0]", "most_important_feature = min(relevance_dict.items(), key=operator.itemgetter(1))[0]"),
    V('C17', 'ranks from 0', IE, "'3MR_Ranking': range(1, len(ranked_features) + 1)", "'3MR_Ranking': range(0, len(ranked_features))"),
    V('C17', 'best value not updated', IE, "                top_importance = importance\n                most_important_feature = feat", "                most_important_feature = feat"),
    V('C17', 'call site swaps dicts', TRK, "relevance_dict, redundancy_dict, relations_dict,\n        )", "relevance_dict, relations_dict, redundancy_dict,\n        )"),
    V('C17', 'twin: >= improvement', IE, "            if importance > top_importance:", "            if importance >= top_importance:", expect='clean'),
    V('C17', 'twin: float -inf', IE, "        top_importance = -np.inf\n", "        top_importance = float('-inf')\n", expect='clean'),
    V('C17', 'twin: objective inlined', IE, "            feature_relevance = relevance_dict[feat]\n            importance = feature_relevance - alpha * feature_redundancy + beta * feature_relation", "            importance = relevance_dict[feat] + beta * feature_relation - alpha * feature_redundancy", expect='clean'),
]
VARIANTS += [
    V('C17', 'twin: aggregation as comprehension', IE, "        values = []\n        for feat in ranked_features:\n            interaction_tuple = (feat, feature)\n            if is_redundancy:\n                values.append(redundancy_dict.get(interaction_tuple, 0))\n            else:\n                values.append(relational_dict.get(interaction_tuple, 0))\n", "        score_dict = redundancy_dict if is_redundancy else relational_dict\n        values = [score_dict.get((feat, feature), 0) for feat in ranked_features]\n", expect='clean'),
]

# ---------------------------------------------------------------- C04
VARIANTS += [
    V('C04', 'F2 reintroduced: whole buffer read', MI, "final_index_array = final_index_array[:index_offset].astype(np.int32)", "final_index_array = final_index_array.astype(np.int32)"),
    V('C04', 'F3 reintroduced: diagonal test before sampling', MI, "    if approximation_factor < 1.0:\n        Y, X = stratified_subsampling(Y, X, approximation_factor, f_values)\n\n    # Diagonal entries (decided on the rows that are actually used)\n    if np.array_equal(X, Y):\n        cardinality_correction = False\n", "    # Diagonal entries\n    if np.array_equal(X, Y):\n        cardinality_correction = False\n\n    if approximation_factor < 1.0:\n        Y, X = stratified_subsampling(Y, X, approximation_factor, f_values)\n"),
    V('C04', 'prefix by wrong cursor', MI, "final_index_array = final_index_array[:index_offset].astype(np.int32)", "final_index_array = final_index_array[:final_space_size].astype(np.int32)"),
    V('C04', 'cursor advanced by quota', MI, "        index_offset += x_indices_len\n", "        index_offset += unique_samples_per_val\n"),
    V('C04', 'suffix instead of prefix selection', MI, "x_indices = np.where(X == fval)[0][:unique_samples_per_val]", "x_indices = np.where(X == fval)[0][-unique_samples_per_val:]"),
    V('C04', 'quota rounds up', MI, "unique_samples_per_val = int(final_space_size / len(_f_values_X))", "unique_samples_per_val = int(final_space_size / len(_f_values_X)) + 1"),
    V('C04', 'random selection within stratum', MI, "x_indices = np.where(X == fval)[0][:unique_samples_per_val]", "x_indices = np.random.permutation(np.where(X == fval)[0])[:unique_samples_per_val]"),
    V('C04', 'Y gathered with a different index', MI, "    Y = Y[final_index_array]\n", "    Y = Y[final_index_array[::-1]]\n"),
    V('C04', 'return swapped', MI, "    X = X[final_index_array]\n    Y = Y[final_index_array]\n\n    return Y, X", "    X = X[final_index_array]\n    Y = Y[final_index_array]\n\n    return X, Y"),
    V('C04', 'weights from the sample', MI, "    all_events = len(X)\n    f_values, f_value_counts = numba_unique(X)\n\n    if approximation_factor < 1.0:\n        Y, X = stratified_subsampling(Y, X, approximation_factor, f_values)\n", "    f_values, f_value_counts = numba_unique(X)\n\n    if approximation_factor < 1.0:\n        Y, X = stratified_subsampling(Y, X, approximation_factor, f_values)\n    all_events = len(X)\n    f_values, f_value_counts = numba_unique(X)\n"),
    V('C04', 'result not scaled', MI, "    return approximation_factor * joint_entropy_core", "    return joint_entropy_core"),
    V('C04', 'sampling guard <=', MI, "    if approximation_factor < 1.0:", "    if approximation_factor <= 1.0:"),
    V('C04', 'ratio not forwarded', IE, "approximation_factor=np.float32(mi_stratified_sampling_ratio),", "approximation_factor=np.float32(1.0),"),
    V('C04', 'quota==0 returns swapped', MI, "    if unique_samples_per_val == 0:\n        return Y, X", "    if unique_samples_per_val == 0:\n        return X, Y"),
    V('C04', 'twin: zero-initialised int buffer', MI, "final_index_array = np.empty(final_space_size)", "final_index_array = np.empty(final_space_size, dtype=np.int64)", expect='clean'),
    V('C04', 'twin: upper bound inlined', MI, "        second_offset = (index_offset + x_indices_len)\n        final_index_array[index_offset:second_offset] = x_indices", "        final_index_array[index_offset:index_offset + x_indices_len] = x_indices", expect='clean'),
]

# ---------------------------------------------------------------- C01 / C02 / C03 (kernel)
VARIANTS += [
    V('C01', 'normaliser len(class_counts)', MI, "class_probability = class_counts[k] / all_events", "class_probability = class_counts[k] / len(class_counts)"),
    V('C01', 'conditional denominator all_events', MI, "conditional_prob = nonzero_counts[index] / class_var_shape", "conditional_prob = nonzero_counts[index] / class_var_shape\n        conditional_prob = conditional_prob * 1.0", expect='clean'),
    V('C01', 'class_var_shape fed all_events', MI, "            Y_classes, class_values, _f_value_counts, initial_prob, nonzero_class_counts,\n", "            Y_classes, class_values, all_events, initial_prob, nonzero_class_counts,\n"),
    V('C01', 'weight dropped', MI, "                initial_prob * conditional_prob * np.log(conditional_prob)", "                conditional_prob * np.log(conditional_prob)"),
    V('C01', 'sign flipped in return', MI, "        return full_entropy - conditional_entropy", "        return full_entropy + conditional_entropy"),
    V('C01', 'log2', MI, "full_entropy += -class_probability * np.log(class_probability)", "full_entropy += -class_probability * np.log2(class_probability)"),
    V('C01', 'class loop shortened', MI, "        for k in prange(len(class_counts)):", "        for k in prange(len(class_counts) - 1):"),
    V('C01', 'skip guard widened', MI, "        if _f_value_counts == 1:\n            continue", "        if _f_value_counts <= 2:\n            continue"),
    V('C01', 'X/Y swapped at call site', MI, "    joint_entropy_core = compute_entropies(\n        X, Y, all_events,", "    joint_entropy_core = compute_entropies(\n        Y, X, all_events,"),
    V('C01', 'count on the wrong vector', MI, "nonzero_class_counts[index] = np.count_nonzero(Y_classes == c)", "nonzero_class_counts[index] = np.count_nonzero(Y == c)"),
    V('C01', 'stratum weight from class count', MI, "        initial_prob = _f_value_counts / all_events", "        initial_prob = class_counts[f_index] / all_events"),
    V('C01', 'histogram shifted by minimum', MI, "    container = np.zeros(np.max(a) + 1, dtype=np.int32)\n    for val in a:\n        container[val] += 1", "    lowest = np.min(a)\n    container = np.zeros(np.max(a) - lowest + 1, dtype=np.int32)\n    for val in a:\n        container[val - lowest] += 1"),
    V('C01', 'histogram counts every second element', MI, "    for val in a:\n        container[val] += 1", "    for val in a[::2]:\n        container[val] += 1"),
    V('C01', 'manual class index skipped on zero', MI, "        if conditional_prob != 0:\n            conditional_entropy -= (\n                initial_prob * conditional_prob * np.log(conditional_prob)\n            )\n        index += 1", "        if conditional_prob == 0:\n            continue\n        conditional_entropy -= (\n            initial_prob * conditional_prob * np.log(conditional_prob)\n        )\n        index += 1"),
    V('C01', 'result scaled twice', MI, "    return approximation_factor * joint_entropy_core", "    return approximation_factor * approximation_factor * joint_entropy_core"),
    V('C01', 'p squared in entropy', MI, "full_entropy += -class_probability * np.log(class_probability)", "full_entropy += -class_probability * class_probability * np.log(class_probability)"),
    V('C01', 'twin: factors reordered', MI, "                initial_prob * conditional_prob * np.log(conditional_prob)", "                np.log(conditional_prob) * conditional_prob * initial_prob", expect='clean'),
    V('C01', 'twin: np.sum for count_nonzero', MI, "nonzero_class_counts[index] = np.count_nonzero(Y_classes == c)", "nonzero_class_counts[index] = np.sum(Y_classes == c)", expect='clean'),
    V('C01', 'twin: range for prange', MI, "        for k in prange(len(class_counts)):", "        for k in range(len(class_counts)):", expect='clean'),
    V('C01', 'twin: accumulate with -=', MI, "full_entropy += -class_probability * np.log(class_probability)", "full_entropy -= class_probability * np.log(class_probability)", expect='clean'),
    # C03
    V('C03', 'shift by 1', MI, "index = (el + _f_value_counts) % len(Y)", "index = (el + 1) % len(Y)"),
    V('C03', 'modulo dropped', MI, "index = (el + _f_value_counts) % len(Y)", "index = (el + _f_value_counts)"),
    V('C03', 'modulo stratum size', MI, "index = (el + _f_value_counts) % len(Y)", "index = (el + _f_value_counts) % subspace_size"),
    V('C03', 'background weights differ', MI, "                Y_classes_spoofed, class_values, _f_value_counts, initial_prob, nonzero_class_counts_spoofed,", "                Y_classes_spoofed, class_values, _f_value_counts, 1.0, nonzero_class_counts_spoofed,"),
    V('C03', 'background uses real counts', MI, "                Y_classes_spoofed, class_values, _f_value_counts, initial_prob, nonzero_class_counts_spoofed,", "                Y_classes_spoofed, class_values, _f_value_counts, initial_prob, nonzero_class_counts,"),
    V('C03', 'sign swap on corrected path', MI, "core_joint_entropy = -conditional_entropy + background_cond_entropy", "core_joint_entropy = conditional_entropy - background_cond_entropy"),
    V('C03', 'full entropy added on corrected path', MI, "core_joint_entropy = -conditional_entropy + background_cond_entropy", "core_joint_entropy = full_entropy - conditional_entropy + background_cond_entropy", expect='clean'),
    V('C03', 'flag mapping widened', IE, "cardinality_correction = heuristic == 'MI-numba-randomized'", "cardinality_correction = 'MI-numba' in heuristic"),
    V('C03', 'flag mapping inverted', IE, "cardinality_correction = heuristic == 'MI-numba-randomized'", "cardinality_correction = heuristic != 'MI-numba-randomized'"),
    V('C03', 'pure stratum skipped', MI, "        # Right-shift to simulate noise\n", "        if np.min(Y_classes) == np.max(Y_classes):\n            continue\n\n        # Right-shift to simulate noise\n"),
    V('C03', 'F1 reintroduced: sum of differences', MI, "    if np.array_equal(X, Y):", "    if np.sum(X - Y) == 0:"),
    V('C03', 'spoofed buffer too short', MI, "Y_classes_spoofed = np.zeros(subspace_size, dtype=np.uint32)", "Y_classes_spoofed = np.zeros(subspace_size - 1, dtype=np.uint32)"),
    V('C03', 'twin: shift operands reordered', MI, "index = (el + _f_value_counts) % len(Y)", "index = (_f_value_counts + el) % len(Y)", expect='clean'),
    # C02
    V('C02', 'F1 reintroduced: sum of differences', MI, "    if np.array_equal(X, Y):", "    if np.sum(X - Y) == 0:"),
    V('C02', 'self-pair by equal sums', MI, "    if np.array_equal(X, Y):", "    if np.sum(X) == np.sum(Y):"),
    V('C02', 'stratum by >=', MI, "x_value_subspace = np.where(X == f_values[f_index])", "x_value_subspace = np.where(X >= f_values[f_index])"),
    V('C02', 'codes hashed into buckets', MI, "    f_values, f_value_counts = numba_unique(X)\n", "    X = X % 1024\n    f_values, f_value_counts = numba_unique(X)\n"),
    V('C02', 'histogram shifted by minimum', MI, "    container = np.zeros(np.max(a) + 1, dtype=np.int32)\n    for val in a:\n        container[val] += 1", "    lowest = np.min(a)\n    container = np.zeros(np.max(a) - lowest + 1, dtype=np.int32)\n    for val in a:\n        container[val - lowest] += 1"),
    V('C02', 'non-injective coder', CR, "tmp_df = pd.DataFrame({k : tmp_df[k].cat.codes for k in all_columns})", "tmp_df = pd.DataFrame({k : tmp_df[k].cat.codes % 256 for k in all_columns})"),
    V('C02', 'twin: all(X == Y)', MI, "    if np.array_equal(X, Y):", "    if np.all(X == Y):", expect='clean'),
    V('C02', 'twin: count_nonzero of difference', MI, "    if np.array_equal(X, Y):", "    if np.count_nonzero(X - Y) == 0:", expect='clean'),
]

# ---------------------------------------------------------------- C05
COVF = 'outrank/algorithms/feature_ranking/ranking_cov_alignment.py'
VARIANTS += [
    V('C05', 'F4 reintroduced: MI-numba-3mr unhandled', IE, "    elif 'MI-numba' in heuristic:", "    elif heuristic == 'MI-numba-randomized':"),
    V('C05', 'F5 reintroduced: no widening', COVF, "    array1 = np.asarray(array1, dtype=np.int64)\n    array2 = np.asarray(array2, dtype=np.int64)\n", ""),
    V('C05', 'only one array widened', COVF, "    array2 = np.asarray(array2, dtype=np.int64)\n", ""),
    V('C05', 'label swap removed', IE, "    if feature_one == args.label_column:\n        feature_one = feature_two\n        feature_two = args.label_column\n", ""),
    V('C05', 'label forced to first side', IE, "    if feature_one == args.label_column:\n        feature_one = feature_two\n        feature_two = args.label_column\n", "    if feature_two == args.label_column:\n        feature_two = feature_one\n        feature_one = args.label_column\n"),
    V('C05', 'second vector from first column', IE, "    vector_second = tmp_df[feature_two].values", "    vector_second = tmp_df[feature_one].values"),
    V('C05', 'early exit for constant columns', IE, "    heuristic = args.heuristic\n    score = 0.0\n\n    if heuristic == 'MI':", "    heuristic = args.heuristic\n    score = 0.0\n    if len(np.unique(vector_second)) == 1:\n        return 0.0\n\n    if heuristic == 'MI':"),
    V('C05', 'max-value-coverage routed to MI', IE, "score = ranking_cov_alignment.max_pair_coverage(vector_first, vector_second)", "score = sklearn_MI(vector_first, vector_second)"),
    V('C05', 'vectors swapped for numba', IE, "score = numba_mi(vector_first, vector_second, heuristic, args.mi_stratified_sampling_ratio)", "score = numba_mi(vector_second, vector_first, heuristic, args.mi_stratified_sampling_ratio)"),
    V('C05', 'pearson p-value', IE, "score = pearsonr(vector_first, vector_second)[0]", "score = pearsonr(vector_first, vector_second)[1]"),
    V('C05', 'MI treats codes as continuous', IE, "vector_first.reshape(-1, 1), vector_second.reshape(-1), discrete_features=True,", "vector_first.reshape(-1, 1), vector_second.reshape(-1), discrete_features=False,"),
    V('C05', 'score clipped after dispatch', IE, "        score = 0.0\n\n    return score", "        score = 0.0\n\n    score = max(score, 0.0)\n    return score"),
    V('C05', 'coverage counts every other row', COVF, "    for i in range(tot_len):", "    for i in range(0, tot_len, 2):"),
    V('C05', 'coverage key ignores second column', COVF, "        identifier = hash_pair(array1[i], array2[i])", "        identifier = hash_pair(array1[i], array1[i])"),
    V('C05', 'coverage normalised by buckets', COVF, "    return np.max(counts) / tot_len", "    return np.max(counts) / max_size"),
    V('C05', 'worker scores on the raw frame', CR, "return get_importances_estimate_pairwise(combination, reference_model_features, args, tmp_df=tmp_df)", "return get_importances_estimate_pairwise(combination, reference_model_features, args, tmp_df=input_dataframe)"),
    V('C05', 'twin: equality dispatch for numba names', IE, "    elif 'MI-numba' in heuristic:", "    elif heuristic in {'MI-numba-randomized', 'MI-numba-3mr', 'MI-numba'}:", expect='clean'),
    V('C05', 'twin: swap via tuple assignment', IE, "        feature_one = feature_two\n        feature_two = args.label_column\n", "        feature_one, feature_two = feature_two, feature_one\n", expect='clean'),
    V('C05', 'twin: astype widening', COVF, "    array1 = np.asarray(array1, dtype=np.int64)\n", "    array1 = array1.astype(np.int64)\n", expect='clean'),
]

# ---------------------------------------------------------------- C09
RTF2 = 'outrank/feature_transformations/ranking_transformers.py'
VARIANTS += [
    V('C09', 'F14a reintroduced: list(focus_set)', CR, "input_dataframe = input_dataframe[[x for x in input_dataframe.columns if x in focus_set]]", "input_dataframe = input_dataframe[list(focus_set)]"),
    V('C09', 'F14b reintroduced: MULTIEX in set order', CR, "        for unique_value in sorted(unique_values):", "        for unique_value in unique_values:"),
    V('C09', 'F14c reintroduced: transformer columns in set order', RTF2, "        for numeric_column in sorted(self.numeric_column_names):", "        for numeric_column in self.numeric_column_names:"),
    V('C09', 'F19 reintroduced: reference features in set order', CR, "for item in sorted(extract_features_from_reference_JSON(args.reference_model_JSON, all_features=True))]", "for item in extract_features_from_reference_JSON(args.reference_model_JSON, all_features=True)]"),
    V('C09', 'F20 reintroduced: model combinations in set order', CR, "for combination in sorted(model_combinations)]", "for combination in model_combinations]"),
    V('C09', 'F15 reintroduced: SGD without random_state', IE, "        return SGDClassifier(max_iter=100000, loss='log_loss', random_state=RANDOM_STATE)\n\n    else:", "        return SGDClassifier(max_iter=100000, loss='log_loss')\n\n    else:"),
    V('C09', 'shared RandomState object', IE, "RANDOM_STATE = 123\n", "RANDOM_STATE = np.random.RandomState(123)\n"),
    V('C09', 'SVD without random_state', IE, "TruncatedSVD(n_components=min(SVD_DIMS, X.shape[1]), random_state=RANDOM_STATE)", "TruncatedSVD(n_components=min(SVD_DIMS, X.shape[1]))"),
    V('C09', 'uimap + zip', CR, "        results = p.amap(get_grounded_importances_estimate, combinations)\n        while not results.ready():\n            time.sleep(4)\n        triplets = results.get()", "        scores = list(p.uimap(lambda c: get_grounded_importances_estimate(c)[2], combinations))\n        triplets = [(c[0], c[1], s) for c, s in zip(combinations, scores)]"),
    V('C09', 'worker draws from global RNG', IE, "    ranking_score = conduct_feature_ranking(inputs_encoded, output_encoded, args)\n", "    ranking_score = conduct_feature_ranking(inputs_encoded, output_encoded, args)\n    ranking_score += 1e-12 * np.random.random()\n"),
    V('C09', 'worker caches in a module-level dict', IE, "NUM_FOLDS  = 2\n", "NUM_FOLDS  = 2\nSCORE_CACHE = {}\n", expect='clean'),
    V('C09', 'worker writes a module-level cache', IE, "    ranking_score = conduct_feature_ranking(inputs_encoded, output_encoded, args)\n", "    ranking_score = conduct_feature_ranking(inputs_encoded, output_encoded, args)\n    global NUM_FOLDS\n    NUM_FOLDS = 2 + len(combination) % 2\n"),
    V('C09', 'chunk size from num_threads', CR, "        results = p.amap(get_grounded_importances_estimate, combinations)", "        results = p.amap(get_grounded_importances_estimate, combinations[: len(combinations) // args.num_threads * args.num_threads])"),
    V('C09', 'shuffle seed removed', CR, "random.seed(a=123, version=2)\n", ""),
    V('C09', 'seed from clock', CR, "random.seed(a=123, version=2)\n", "random.seed(a=int(time.time()), version=2)\n"),
    V('C09', 'numpy seed only under try', 'outrank/algorithms/feature_ranking/ranking_cov_alignment.py', "np.random.seed(123)\nmax_size", "max_size"),
    V('C09', 'twin: imap ordered', CR, "        results = p.amap(get_grounded_importances_estimate, combinations)\n        while not results.ready():\n            time.sleep(4)\n        triplets = results.get()", "        triplets = list(p.imap(get_grounded_importances_estimate, combinations))", expect='clean'),
    V('C09', 'twin: uimap without positional matching', CR, "        results = p.amap(get_grounded_importances_estimate, combinations)\n        while not results.ready():\n            time.sleep(4)\n        triplets = results.get()", "        triplets = list(p.uimap(get_grounded_importances_estimate, combinations))", expect='clean'),
    V('C09', 'twin: literal random_state', IE, "        return SGDClassifier(max_iter=100000, loss='log_loss', random_state=RANDOM_STATE)\n\n    else:", "        return SGDClassifier(max_iter=100000, loss='log_loss', random_state=7)\n\n    else:", expect='clean'),
]

# ---------------------------------------------------------------- C10
_ENC = """    def length_prefixed(feature):
        # '<len>:<value>' keeps the concatenation below uniquely decodable
        values = input_dataframe[feature].astype(str)
        return values.str.len().astype(str) + ':' + values

    def combine_features(new_combination):
        combined_feature = length_prefixed(new_combination[0])
        for feature in new_combination[1:]:
            combined_feature += length_prefixed(feature)
"""
_ENC_ORIG = """    def combine_features(new_combination):
        combined_feature = input_dataframe[new_combination[0]].astype(str)
        for feature in new_combination[1:]:
            combined_feature += input_dataframe[feature].astype(str)
"""
VARIANTS += [
    V('C10', 'F6 reintroduced: raw concatenation', CR, _ENC, _ENC_ORIG),
    V('C10', 'first constituent raw', CR, "        combined_feature = length_prefixed(new_combination[0])\n", "        combined_feature = input_dataframe[new_combination[0]].astype(str)\n"),
    V('C10', 'plain separator without escaping', CR, "            combined_feature += length_prefixed(feature)\n", "            combined_feature += '|' + input_dataframe[feature].astype(str)\n"),
    V('C10', 'encoder without separator', CR, "return values.str.len().astype(str) + ':' + values", "return values.str.len().astype(str) + values"),
    V('C10', 'loop over interaction_order positions', CR, "        for feature in new_combination[1:]:\n            combined_feature += length_prefixed(feature)", "        for position in range(1, interaction_order):\n            combined_feature += length_prefixed(new_combination[position])"),
    V('C10', 'last constituent skipped', CR, "        for feature in new_combination[1:]:\n            combined_feature += length_prefixed(feature)", "        for feature in new_combination[1:-1]:\n            combined_feature += length_prefixed(feature)"),
    V('C10', 'F7 reintroduced: str to xxhash', CR, "xxhash.xxh64(x.encode('utf-8')).hexdigest()", "xxhash.xxh64(x).hexdigest()"),
    V('C10', '32-bit digest', CR, "xxhash.xxh64(x.encode('utf-8')).hexdigest()", "xxhash.xxh32(x.encode('utf-8')).hexdigest()"),
    V('C10', 'digest truncated', CR, "xxhash.xxh64(x.encode('utf-8')).hexdigest())", "xxhash.xxh64(x.encode('utf-8')).hexdigest()[:6])"),
    V('C10', 'name joined with +', CR, "        ftr_name = join_string.join(new_combination)", "        ftr_name = '+'.join(new_combination)"),
    V('C10', 'name sorted differently from values', CR, "        ftr_name = join_string.join(new_combination)", "        ftr_name = join_string.join(sorted(new_combination, reverse=True))"),
    V('C10', 'label included in candidates', CR, "        x for x in input_dataframe.columns if x != args.label_column\n    ]\n    join_string", "        x for x in input_dataframe.columns\n    ]\n    join_string"),
    V('C10', 'input columns overwritten', CR, "    tmp_df = pd.DataFrame(new_feature_hash)\n    pbar.set_description('Concatenating into final frame ..')\n    input_dataframe = pd.concat([input_dataframe, tmp_df], axis=1)", "    for name, values in new_feature_hash.items():\n        input_dataframe[name] = values\n    tmp_df = None"),
    V('C10', 'new columns first', CR, "    pbar.set_description('Concatenating into final frame ..')\n    input_dataframe = pd.concat([input_dataframe, tmp_df], axis=1)", "    pbar.set_description('Concatenating into final frame ..')\n    input_dataframe = pd.concat([tmp_df, input_dataframe], axis=1)"),
    V('C10', 'twin: other separator', CR, "return values.str.len().astype(str) + ':' + values", "return values.str.len().astype(str) + '|' + values", expect='clean'),
    V('C10', 'twin: xxh3_64', CR, "xxhash.xxh64(x.encode('utf-8')).hexdigest()", "xxhash.xxh3_64(x.encode('utf-8')).hexdigest()", expect='clean'),
]

# ---------------------------------------------------------------- C11
VARIANTS += [
    V('C11', 'substring membership', CR, "            for enx, multivalue in enumerate(multivalue_sets):\n                if unique_value in multivalue:", "            for enx, multivalue in enumerate(multivalue_feature_vector):\n                if unique_value in multivalue:"),
    V('C11', 'indicator 0 instead of empty', CR, "                    tmp_vec.append('')\n", "                    tmp_vec.append('0')\n"),
    V('C11', 'rows without token skipped', CR, "                else:\n                    tmp_vec.append('')\n", ""),
    V('C11', 'missing symbols kept', CR, "        for missing_symbol in missing_symbols:\n            if missing_symbol in unique_values:\n                unique_values.remove(missing_symbol)\n", ""),
    V('C11', 'one-sided compares first component', CR, ") if x[1] == unique_target_feature_value else ''", ") if x[0] == unique_target_feature_value else ''"),
    V('C11', 'one-sided filters rows', CR, ") if x[1] == unique_target_feature_value else ''\n                    for x in out_template_feature\n", ")\n                    for x in out_template_feature if x[1] == unique_target_feature_value\n"),
    V('C11', 'two-sided uses or', CR, "                        value_tuple[0] == mask_type[0]\n                        and value_tuple[1] == mask_type[1]", "                        value_tuple[0] == mask_type[0]\n                        or value_tuple[1] == mask_type[1]"),
    V('C11', 'control target shuffled', RTF2, "new_columns['CONTROL-target'] = dataframe[label_column]", "new_columns['CONTROL-target'] = dataframe[label_column].sample(frac=1.0).values"),
    V('C11', 'get_vals writes back into the frame', RTF2, "        cvals = [str(x).replace('\"', '') for x in cvals]\n", "        cvals = [str(x).replace('\"', '') for x in cvals]\n        tmp_df[col_name] = cvals\n"),
    V('C11', 'subfeatures sort the frame', CR, "    tmp_df = pd.DataFrame(new_feature_hash)\n    input_dataframe = pd.concat([input_dataframe, tmp_df], axis=1)\n\n    del tmp_df\n    return input_dataframe", "    tmp_df = pd.DataFrame(new_feature_hash)\n    input_dataframe = pd.concat([input_dataframe, tmp_df], axis=1).sort_values(by=feature_first)\n\n    del tmp_df\n    return input_dataframe"),
    V('C11', 'noise step drops constant columns', RTF2, "            dataframe = pd.concat([dataframe, tmp_df], axis=1)\n            del tmp_df\n\n        return dataframe", "            dataframe = pd.concat([dataframe, tmp_df], axis=1)\n            dataframe = dataframe.loc[:, dataframe.nunique() > 1]\n            del tmp_df\n\n        return dataframe"),
    V('C11', 'multiex writes indicator into input', CR, "            new_feature_hash[f'MULTIEX-{multivalue_feature}-{unique_value}'] = tmp_vec\n", "            input_dataframe[f'MULTIEX-{multivalue_feature}-{unique_value}'] = tmp_vec\n"),
    V('C11', 'step result not threaded', CR, "        input_dataframe = compute_subfeatures(input_dataframe, logger, args, pbar)", "        compute_subfeatures(input_dataframe, logger, args, pbar)"),
    V('C11', 'twin: discard instead of remove', CR, "            if missing_symbol in unique_values:\n                unique_values.remove(missing_symbol)", "            unique_values.discard(missing_symbol)", expect='clean'),
    V('C11', 'twin: literal indicators', CR, "                        new_feature.append(str(1))\n                    else:\n                        new_feature.append(str(0))", "                        new_feature.append('1')\n                    else:\n                        new_feature.append('0')", expect='clean'),
]

# ---------------------------------------------------------------- C19
CCF = 'outrank/algorithms/synthetic_data_generators/cc_generator.py'
GNF = 'outrank/algorithms/synthetic_data_generators/generator_naive.py'
VARIANTS += [
    V('C19', 'F12 reintroduced: strict ensure_rep guard', CCF, "if ensure_rep and len(vec) <= size:", "if ensure_rep and len(vec) < size:"),
    V('C19', 'closing fill dropped', CCF, "            # Fill out the rest of the dataset\n            if ix < n_features:\n                for i in range(ix, n_features):", "            # Fill out the rest of the dataset\n            if False:\n                for i in range(ix, n_features):"),
    V('C19', 'closing fill starts one late', CCF, "                for i in range(ix, n_features):", "                for i in range(ix + 1, n_features):"),
    V('C19', 'gap fill without cursor advance', CCF, "                            X[ix] = x\n                            ix += 1\n\n                    x = self._configure_generate_feature(\n                        feature_attributes,\n                        n_samples,", "                            X[ix] = x\n\n                    x = self._configure_generate_feature(\n                        feature_attributes,\n                        n_samples,"),
    V('C19', 'full loop skips last feature', CCF, "        if structure is None:\n            for i in range(n_features):", "        if structure is None:\n            for i in range(n_features - 1):"),
    V('C19', 'dtype int64', CCF, "X = np.empty([n_features, n_samples], dtype='int32')", "X = np.empty([n_features, n_samples], dtype='int64')"),
    V('C19', 'not transposed', CCF, "        return X.T\n", "        return X\n"),
    V('C19', 'seed not applied', CCF, "        np.random.seed(seed)\n        X = np.empty", "        X = np.empty"),
    V('C19', 'seed after first draws', CCF, "        np.random.seed(seed)\n        X = np.empty([n_features, n_samples], dtype='int32')\n", "        X = np.empty([n_features, n_samples], dtype='int32')\n"),
    V('C19', 'jitter added to drawn values', CCF, "        np.random.shuffle(sampled_values)\n", "        sampled_values = sampled_values + np.random.randint(0, 2, size=len(sampled_values))\n        np.random.shuffle(sampled_values)\n"),
    V('C19', 'random domain with replacement', CCF, "vec = np.random.choice(vec, size=cardinality, replace=False)", "vec = np.random.choice(vec, size=cardinality, replace=True)"),
    V('C19', 'default domain one short', CCF, "vec = np.arange(low, low + cardinality, 1)", "vec = np.arange(low, low + cardinality - 1, 1)"),
    V('C19', 'naive label with noise', GNF, "    target[target > 39] = 1\n", "    target[target > 39] = 1\n    flip = np.random.random(len(target)) < 0.01\n    target[flip] = 1 - target[flip]\n"),
    V('C19', 'naive needle column 31', GNF, "    target = sample[:, 30]", "    target = sample[:, 31]"),
    V('C19', 'csv with index column', 'outrank/task_generators.py', "dfx.to_csv(f'./{args.output_synthetic_df_name}/data.csv', index=False)", "dfx.to_csv(f'./{args.output_synthetic_df_name}/data.csv')"),
    V('C19', 'twin: zeros allocation', CCF, "X = np.empty([n_features, n_samples], dtype='int32')", "X = np.zeros([n_features, n_samples], dtype='int32')", expect='clean'),
    V('C19', 'twin: guard flipped', CCF, "if ensure_rep and len(vec) <= size:", "if ensure_rep and size >= len(vec):", expect='clean'),
]

# ---------------------------------------------------------------- C20
VARIANTS += [
    V('C20', 'F13 reintroduced: k-1 duplicate indices', CCF, "duplicated_ixs = np.arange(len(X[0]), (len(X[0]) + len(feature_indices)), 1)", "duplicated_ixs = np.arange(len(X[0]), (len(X[0]) + len(feature_indices) - 1), 1)"),
    V('C20', 'correlated indices start one late', CCF, "correlated_ixs = np.arange(len(X[0]), (len(X[0]) + len(feature_indices)), 1)", "correlated_ixs = np.arange(len(X[0]) + 1, (len(X[0]) + len(feature_indices) + 1), 1)"),
    V('C20', 'combination index off by one', CCF, "        combination_ix = len(X[0])\n", "        combination_ix = len(X[0]) - 1\n"),
    V('C20', 'cot loses sign of r', CCF, "            corr = Y[:, 1] + (1 / np.tan(theta)) * Y[:, 0]", "            corr = Y[:, 1] + np.sqrt(r ** 2 / (1 - r ** 2)) * Y[:, 0]"),
    V('C20', 'tan instead of cot', CCF, "            corr = Y[:, 1] + (1 / np.tan(theta)) * Y[:, 0]", "            corr = Y[:, 1] + np.tan(theta) * Y[:, 0]"),
    V('C20', 'theta from arcsin', CCF, "            theta = np.arccos(r)", "            theta = np.arcsin(r)"),
    V('C20', 'noise not orthogonalised', CCF, "            M_orthogonal = np.column_stack((M_centred[:, 0], orthogonal_projection))", "            M_orthogonal = np.column_stack((M_centred[:, 0], M_centred[:, 1]))"),
    V('C20', 'duplicates of shifted values', CCF, "        selected_features = X[:, feature_indices]\n\n        self.dataset_info['duplicates']", "        selected_features = X[:, feature_indices] + 0 * X[:, [0]] + 1\n\n        self.dataset_info['duplicates']"),
    V('C20', 'linear combination is the mean', CCF, "combination_function = lambda x: np.sum(x, axis=1)", "combination_function = lambda x: np.mean(x, axis=1)"),
    V('C20', 'labels by >=', CCF, "                        y += (decision_boundary > p_point)", "                        y += (decision_boundary >= p_point)"),
    V('C20', 'missing noise without copy', CCF, "            X_noise = np.copy(X)", "            X_noise = np.asarray(X, dtype=float)"),
    V('C20', 'missing noise in place', CCF, "            X_noise = np.copy(X)", "            X_noise = X"),
    V('C20', 'categorical noise sorts in place', CCF, "            X_sort = X[inds]\n", "            X_sort = X\n"),
    V('C20', 'cells chosen with replacement', CCF, "                ixs = np.random.choice(n, n_missing, replace=False)", "                ixs = np.random.choice(n, n_missing, replace=True)"),
    V('C20', 'noise amount rounds up', CCF, "            n_missing = int(n * p)", "            n_missing = int(n * p) + 1"),
    V('C20', 'downsample ignores the class', CCF, "X_label = [X[i] for i in range(len(y)) if y[i] == label]", "X_label = [X[i] for i in range(len(y))]"),
    V('C20', 'downsample n+1 rows', CCF, "                n_samples=n,\n", "                n_samples=n + 1,\n"),
    V('C20', 'twin: hstack duplicates', CCF, "        return np.column_stack((X, selected_features))", "        return np.hstack((X, selected_features))", expect='clean'),
]
