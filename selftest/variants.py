"""Catalogue of breaking variants and benign twins (DESIGN.md §7).

Each entry is a text edit located in a file of the current /repo tree (the `old`
fragment must occur exactly `count` times, default once; otherwise the variant is
reported as skipped).  `expect` is what the property check must say about the
edited tree."""

def V(prop, name, file, old, new, expect='violation', count=1):
    return dict(prop=prop, name=name, file=file, old=old, new=new, expect=expect, count=count)


CU = 'outrank/core_utils.py'
CR = 'outrank/core_ranking.py'
MI = 'outrank/algorithms/feature_ranking/ranking_mi_numba.py'
IE = 'outrank/algorithms/importance_estimator.py'

VARIANTS = []

# ---------------------------------------------------------------- C16
VARIANTS += [
    V('C16', 'F11 reintroduced: strip() before split', CU, "line_string = line_string.rstrip('\\r\\n')", "line_string = line_string.strip()"),
    V('C16', 'strip tab explicitly', CU, "line_string = line_string.rstrip('\\r\\n')", "line_string = line_string.rstrip('\\t\\r\\n')"),
    V('C16', 'whitespace split', CU, "parts = line_string.split(delimiter)", "parts = line_string.split()"),
    V('C16', 'drop empty tsv fields', CU, "parts = line_string.split(delimiter)\n    return parts", "parts = [p for p in line_string.split(delimiter) if p]\n    return parts"),
    V('C16', 'csv via split', CU, "clx = list(csv.reader([line_string])).pop()", "clx = line_string.strip().split(delimiter)"),
    V('C16', 'csv fields stripped', CU, "clx = list(csv.reader([line_string])).pop()", "clx = [x.strip() for x in list(csv.reader([line_string])).pop()]"),
    V('C16', 'vw join with space', CU, "other_parts = '-'.join(x for x in core_parts[1:] if x != '')", "other_parts = ' '.join(x for x in core_parts[1:] if x != '')"),
    V('C16', 'vw keeps empty tokens', CU, "other_parts = '-'.join(x for x in core_parts[1:] if x != '')", "other_parts = '-'.join(x for x in core_parts[1:])"),
    V('C16', 'vw prefix slice 1', CU, "x[2:] if x is not None else None", "x[1:] if x is not None else None"),
    V('C16', 'vw header from 0', CU, ") for el in table_header[1:]", ") for el in table_header"),
    V('C16', 'vw absent namespaces as empty string', CU, "remainder_hash.get(\n            el, None,\n        )", "remainder_hash.get(\n            el, '',\n        )"),
    V('C16', 'vw label second token', CU, "label_part = all_line_parts[0].split(' ')[0]", "label_part = all_line_parts[0].split(' ')[1]"),
    V('C16', 'dispatch: csv-raw to tsv parser', CU, "elif args.data_source == 'ob-csv' or args.data_source == 'csv-raw':\n        return parse_ob_csv_line(line_string, delimiter, args)", "elif args.data_source == 'ob-csv':\n        return parse_ob_csv_line(line_string, delimiter, args)\n    elif args.data_source == 'csv-raw':\n        return parse_ob_line(line_string, delimiter, args)"),
    V('C16', 'dispatch: default returns', CU, "        raise NotImplementedError(\n            'Please, specify a valid --data_source argument!',\n        )", "        return parse_ob_csv_line(line_string, delimiter, args)"),
    V('C16', 'field-count gate >=', CR, "if len(parsed_line) == len(column_descriptions):", "if len(parsed_line) >= len(column_descriptions):"),
    V('C16', 'namespace: f32 test changed', CU, "if type_name == 'f32':", "if type_name != 'generic':"),
    V('C16', 'namespace: map reversed', CU, "id_feature_map[fw_id] = feature", "id_feature_map[feature] = fw_id"),
    # twins
    V('C16', 'twin: rstrip newline only', CU, "line_string = line_string.rstrip('\\r\\n')", "line_string = line_string.rstrip('\\n')", expect='clean'),
    V('C16', 'twin: inline split', CU, "parts = line_string.split(delimiter)\n    return parts", "return line_string.split(delimiter)", expect='clean'),
    V('C16', 'twin: next(csv.reader)', CU, "clx = list(csv.reader([line_string])).pop()", "clx = next(csv.reader([line_string]))", expect='clean'),
    V('C16', 'twin: vw join list comprehension', CU, "other_parts = '-'.join(x for x in core_parts[1:] if x != '')", "tokens = [x for x in core_parts[1:] if x]\n        other_parts = '-'.join(tokens)", expect='clean'),
    V('C16', 'twin: dispatch with in-set', CU, "elif args.data_source == 'ob-csv' or args.data_source == 'csv-raw':", "elif args.data_source in {'ob-csv', 'csv-raw'}:", expect='clean'),
]
