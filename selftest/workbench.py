"""E8 - variant workbench.

Synthesises, from the *current* /repo sources, scratch copies with one construct
broken (breaking variant) or harmlessly rewritten (benign twin), runs the property
check on each copy and compares with the expected outcome.  Also replays the
seeded changes kept under /verif/seeded/<name>/patch.diff.  It never decides a
property: a mismatch means the checker is broken (exit 2).
"""
from __future__ import annotations

import concurrent.futures as cf
import json
import os
import shutil
import subprocess
import sys
import tempfile

HERE = os.path.dirname(os.path.abspath(__file__))
VERIF = os.path.dirname(HERE)
REPO = os.environ.get('VERIF_REPO', '/repo')
COPY = ['outrank', 'scripts', 'examples', 'benchmarks', 'tests', 'README.md', 'docs/DOCSMAIN.md', '.github', 'requirements.txt', 'setup.py']


def _copy_repo(dst):
    for rel in COPY:
        src = os.path.join(REPO, rel)
        d = os.path.join(dst, rel)
        if os.path.isdir(src):
            shutil.copytree(src, d, ignore=shutil.ignore_patterns('__pycache__', '*.pyc', '*.png', '*.nbi', '*.nbc'))
        elif os.path.isfile(src):
            os.makedirs(os.path.dirname(d), exist_ok=True)
            shutil.copy2(src, d)


def _run_check(pid, root, tmp):
    env = dict(os.environ, VERIF_EVIDENCE_OUT=os.path.join(tmp, 'evidence.json'), VERIF_VIOLATIONS_OUT=os.path.join(tmp, 'viol'), VERIF_NO_SELFTEST='1')
    p = subprocess.run([sys.executable, '-B', '-m', 'sa.run', pid, '--repo', root, '--tier', 'quick'], cwd=VERIF, env=env, capture_output=True, text=True, timeout=300)
    return p.returncode, p.stdout + p.stderr


def _one(v):
    """v: dict(prop, name, kind in {'edit','patch'}, expect in {'violation','clean'}, ...)"""
    tmp = tempfile.mkdtemp(prefix='verif-wb-')
    try:
        root = os.path.join(tmp, 'repo')
        os.makedirs(root)
        _copy_repo(root)
        if v['kind'] == 'edit':
            path = os.path.join(root, v['file'])
            with open(path, encoding='utf-8') as fh:
                src = fh.read()
            cnt = src.count(v['old'])
            if cnt != v.get('count', 1):
                return v, 'skipped', f'locator matches {cnt} time(s), expected {v.get("count", 1)}'
            new = src.replace(v['old'], v['new'])
            try:
                compile(new, path, 'exec')
            except SyntaxError as e:
                return v, 'skipped', f'variant does not compile: {e}'
            with open(path, 'w', encoding='utf-8') as fh:
                fh.write(new)
        else:
            p = subprocess.run(['git', 'apply', '--whitespace=nowarn', v['patch']], cwd=root, capture_output=True, text=True)
            if p.returncode != 0:
                return v, 'skipped', 'patch does not apply to the current tree: ' + p.stderr.strip()[:200]
        rc, out = _run_check(v['prop'], root, tmp)
        if v['expect'] == 'no-alarm':
            # a behaviour-preserving change: the check may pass or abstain (exit 2), but must not report a violation
            if rc in (0, 2) and 'VIOLATION property=' not in out:
                return v, 'ok', 'abstained' if rc == 2 else ''
            return v, 'MISMATCH', f'FALSE ALARM on a behaviour-preserving change, check exited {rc}: ' + ' | '.join(l for l in out.splitlines() if l.startswith(('VIOLATION', '  rule', '  reason')))[:600]
        want = 1 if v['expect'] == 'violation' else 0
        if rc == want and (want == 0 or 'VIOLATION property=' in out):
            return v, 'ok', _first_violation(out)
        return v, 'MISMATCH', f'expected {v["expect"]}, check exited {rc}: ' + ' | '.join(l for l in out.splitlines() if l.startswith(('VIOLATION', 'ANALYSIS-ERROR', '  rule', '  reason')))[:600]
    except Exception as e:
        return v, 'MISMATCH', f'workbench error {type(e).__name__}: {e}'
    finally:
        shutil.rmtree(tmp, ignore_errors=True)


def _first_violation(out):
    ls = out.splitlines()
    for i, l in enumerate(ls):
        if l.startswith('VIOLATION'):
            return ' '.join(x.strip() for x in ls[i + 1:i + 4])[:300]
    return ''


def catalogue(pid=None):
    from . import variants
    vs = []
    for v in variants.VARIANTS:
        d = dict(v)
        d.setdefault('kind', 'edit')
        vs.append(d)
    sdir = os.path.join(VERIF, 'seeded')
    if os.path.isdir(sdir):
        for name in sorted(os.listdir(sdir)):
            meta = os.path.join(sdir, name, 'meta.json')
            patch = os.path.join(sdir, name, 'patch.diff')
            if os.path.isfile(meta) and os.path.isfile(patch):
                with open(meta) as fh:
                    m = json.load(fh)
                for prop in m.get('detected_by', []):
                    vs.append({'prop': prop, 'name': f'seeded/{name}', 'kind': 'patch', 'patch': patch, 'expect': 'violation'})
                for prop in m.get('clean_for', []):
                    vs.append({'prop': prop, 'name': f'seeded/{name}', 'kind': 'patch', 'patch': patch, 'expect': 'clean'})
                # behaviour-preserving refactorings: no check may raise an alarm (it may abstain)
                for prop in m.get('abstains_for', []):
                    vs.append({'prop': prop, 'name': f'seeded/{name}', 'kind': 'patch', 'patch': patch, 'expect': 'no-alarm'})
    if pid:
        vs = [v for v in vs if v['prop'] == pid]
    return vs


def run(vs, jobs=16, quiet=False):
    results = []
    with cf.ThreadPoolExecutor(max_workers=jobs) as ex:
        for r in ex.map(_one, vs):
            results.append(r)
    bad = 0
    for v, status, info in results:
        if status == 'MISMATCH':
            bad += 1
        if not quiet or status != 'ok':
            print(f'selftest {v["prop"]} {v["expect"]:9s} {status:8s} {v["name"]}: {info}')
    n_ok = sum(1 for _, s, _ in results if s == 'ok')
    n_skip = sum(1 for _, s, _ in results if s == 'skipped')
    print(f'selftest: {len(results)} variants, {n_ok} as expected, {n_skip} skipped (locator no longer matches), {bad} mismatches')
    return 0 if bad == 0 else 2


def run_for(pid, jobs=16, quiet=False):
    return run(catalogue(pid), jobs, quiet)


def run_all(jobs=16):
    return run(catalogue(), jobs)
