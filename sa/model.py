"""E0/E1 - source model and name resolution for the outrank package.

Everything here is pure `ast`: the package under analysis is never imported.
"""
from __future__ import annotations

import ast
import os
from typing import Iterator


class AnalysisError(Exception):
    """The analysis cannot be carried out (vanished anchor, unparsable module,
    unrecognised construct).  Ends in exit status 2, never in a VIOLATION."""


class Inconclusive(AnalysisError):
    pass


PKG = 'outrank'


class Func:
    """A function or method definition with its location."""

    def __init__(self, module: 'Module', qualname: str, node: ast.FunctionDef, cls: ast.ClassDef | None, outer: 'Func | None'):
        self.module, self.qualname, self.node, self.cls, self.outer = module, qualname, node, cls, outer

    @property
    def name(self) -> str:
        return self.node.name

    @property
    def params(self) -> list[str]:
        a = self.node.args
        return [x.arg for x in a.posonlyargs + a.args] + ([a.vararg.arg] if a.vararg else []) + [x.arg for x in a.kwonlyargs] + ([a.kwarg.arg] if a.kwarg else [])

    def site(self, node: ast.AST | None = None) -> str:
        n = node if node is not None and hasattr(node, 'lineno') else self.node
        line = getattr(n, 'orig_lineno', n.lineno)
        return f'{self.module.relpath}:{line} {self.qualname}'

    def decorator_info(self) -> list[tuple[str, dict]]:
        out = []
        for d in self.node.decorator_list:
            if isinstance(d, ast.Call):
                kw = {k.arg: k.value for k in d.keywords if k.arg}
                out.append((self.module.dotted(d.func) or ast.unparse(d.func), kw))
            else:
                out.append((self.module.dotted(d) or ast.unparse(d), {}))
        return out

    def __repr__(self):
        return f'<Func {self.module.name}.{self.qualname}>'


class Module:
    def __init__(self, repo: 'Repo', name: str, path: str):
        self.repo, self.name, self.path = repo, name, path
        self.relpath = os.path.relpath(path, repo.root)
        with open(path, encoding='utf-8') as fh:
            self.src = fh.read()
        try:
            self.tree = ast.parse(self.src, filename=path)
        except SyntaxError as e:
            raise AnalysisError(f'cannot parse {self.relpath}: {e}')
        self.defaulted: list[str] = []
        if repo.baseline is not None and os.environ.get('VERIF_NO_FOLD') != '1':
            try:
                from .baseline import PARAMS
                self.defaulted = _fold_new_parameters(self.tree, PARAMS.get(name, {}), repo.passed)
            except ImportError:
                pass
        normalise(self.tree)
        self.inlined: list[str] = []
        if repo.baseline is not None:
            from .inline import inline_module
            self.inlined = inline_module(self.tree, name, repo.baseline.get(name, set()), repo.ext_refs)
            if self.inlined:
                normalise(self.tree)
                _renumber(self.tree)
        self.folded: list[str] = []
        if repo.baseline is not None and os.environ.get('VERIF_NO_FOLD') != '1':
            try:
                from .baseline import NAMES
                self.folded = _fold_new_constants(self.tree, set(NAMES.get(name, ())))
            except ImportError:
                pass
        self.imports: dict[str, str] = {}
        self.funcs: dict[str, Func] = {}
        self.classes: dict[str, ast.ClassDef] = {}
        self.assigns: dict[str, list[ast.AST]] = {}
        self.main_block: ast.If | None = None
        self._index()

    # -- indexing -----------------------------------------------------------
    def _index(self) -> None:
        for node in ast.walk(self.tree):
            if isinstance(node, ast.Import):
                for a in node.names:
                    self.imports[a.asname or a.name.split('.')[0]] = a.name if a.asname else a.name.split('.')[0]
            elif isinstance(node, ast.ImportFrom):
                base = node.module or ''
                if node.level:
                    parts = self.name.split('.')
                    base = '.'.join(parts[: len(parts) - node.level] + ([node.module] if node.module else []))
                for a in node.names:
                    self.imports[a.asname or a.name] = f'{base}.{a.name}'
        for node in self.tree.body:
            if isinstance(node, ast.If) and _is_main_guard(node.test):
                self.main_block = node
            for t, v in _assign_targets(node):
                self.assigns.setdefault(t, []).append(v)
        self._index_funcs(self.tree.body, '', None, None)
        # a class attribute bound to a module-level function (`_add = staticmethod(_update)`, `_add = _update`) is that function under the
        # method's name (a method moved out of its class and kept as an alias)
        for cname, cnode in list(self.classes.items()):
            for st in cnode.body:
                if isinstance(st, ast.Assign) and len(st.targets) == 1 and isinstance(st.targets[0], ast.Name):
                    v = st.value
                    if isinstance(v, ast.Call) and isinstance(v.func, ast.Name) and v.func.id in ('staticmethod', 'classmethod') and len(v.args) == 1 and not v.keywords:
                        v = v.args[0]
                    qn = f'{cname}.{st.targets[0].id}'
                    if isinstance(v, ast.Name) and v.id in self.funcs and qn not in self.funcs:
                        self.funcs[qn] = Func(self, qn, self.funcs[v.id].node, cnode, None)

    def _index_funcs(self, body, prefix, cls, outer) -> None:
        for node in body:
            if isinstance(node, (ast.FunctionDef, ast.AsyncFunctionDef)):
                qn = prefix + node.name
                f = Func(self, qn, node, cls, outer)
                self.funcs[qn] = f
                self._index_funcs_nested(node, qn + '.', f)
            elif isinstance(node, ast.ClassDef):
                self.classes[prefix + node.name] = node
                self._index_funcs(node.body, prefix + node.name + '.', node, outer)

    def _index_funcs_nested(self, fn, prefix, outer) -> None:
        for node in ast.walk(fn):
            if node is fn:
                continue
            if isinstance(node, (ast.FunctionDef, ast.AsyncFunctionDef)) and _direct_owner(fn, node):
                qn = prefix + node.name
                f = Func(self, qn, node, None, outer)
                self.funcs[qn] = f
                self._index_funcs_nested(node, qn + '.', f)

    # -- resolution ---------------------------------------------------------
    def dotted(self, expr: ast.AST, _depth: int = 0) -> str | None:
        """Resolve a Name / Attribute chain to a dotted name through the import
        aliases of this module ('np.log' -> 'numpy.log')."""
        parts = []
        cur = expr
        while isinstance(cur, ast.Attribute):
            parts.append(cur.attr)
            cur = cur.value
        if not isinstance(cur, ast.Name):
            return None
        head = cur.id
        # a module-level alias of an imported / dotted name:  HyperLogLog = counting_ultiloglog.HyperLogLogWCache
        if head not in self.imports and head not in self.funcs and head not in self.classes and _depth < 4:
            vs = self.assigns.get(head, [])
            if len(vs) == 1 and isinstance(vs[0], (ast.Name, ast.Attribute)) and not self.rebinds_global(head):
                base = self.dotted(vs[0], _depth + 1)
                if base is not None and base.split('.')[0] in {v.split('.')[0] for v in self.imports.values()} | {self.name.split('.')[0]}:
                    return self._canonical('.'.join([base] + list(reversed(parts))))
        parts.append(self.imports.get(head, head if head not in self.funcs and head not in self.classes else f'{self.name}.{head}'))
        return self._canonical('.'.join(reversed(parts)))

    def _canonical(self, dotted: str) -> str:
        """follow re-exports inside the package: a name imported into a package module from another one is that other module's name"""
        mods = getattr(self.repo, 'modules', None)
        if not mods or not dotted.startswith(PKG + '.'):
            return dotted
        seen = set()
        while dotted not in seen:
            seen.add(dotted)
            parts = dotted.split('.')
            for i in range(len(parts) - 1, 0, -1):
                mn = '.'.join(parts[:i])
                m2 = mods.get(mn)
                if m2 is None:
                    continue
                head = parts[i]
                if head in m2.funcs or head in m2.classes:
                    return dotted
                if head in m2.imports and m2.imports[head] != '.'.join(parts[:i + 1]):
                    dotted = '.'.join([m2.imports[head]] + parts[i + 1:])
                    break
                return dotted
            else:
                return dotted
        return dotted

    def rebinds_global(self, name: str) -> bool:
        """some function declares `global name` (the module-level binding is not a constant)"""
        if not hasattr(self, '_globals_declared'):
            self._globals_declared = {n for g in ast.walk(self.tree) if isinstance(g, ast.Global) for n in g.names}
        return name in self._globals_declared

    def is_library(self, dotted: str | None) -> bool:
        return bool(dotted) and not dotted.startswith(PKG + '.')

    def __repr__(self):
        return f'<Module {self.name}>'


def _literal(e: ast.AST, imported: set, depth: int = 0) -> bool:
    """an expression whose value is fixed when the module is loaded and that has no identity worth sharing: numbers, strings, tuples / frozensets
    of those, arithmetic over them, and attribute chains rooted at an imported module (np.int32)"""
    if depth > 6:
        return False
    if isinstance(e, ast.Constant):
        return True
    if isinstance(e, (ast.Tuple, ast.List, ast.Set)):
        # (lists / sets / dicts only for names that the module never mutates: see _fold_new_constants)
        return all(_literal(x, imported, depth + 1) for x in e.elts)
    if isinstance(e, ast.Dict):
        return all(k is not None and _literal(k, imported, depth + 1) for k in e.keys) and all(_literal(v, imported, depth + 1) for v in e.values)
    if isinstance(e, ast.UnaryOp) and isinstance(e.op, (ast.USub, ast.UAdd, ast.Not, ast.Invert)):
        return _literal(e.operand, imported, depth + 1)
    if isinstance(e, ast.BinOp):
        return _literal(e.left, imported, depth + 1) and _literal(e.right, imported, depth + 1)
    if isinstance(e, ast.Call) and isinstance(e.func, ast.Name) and e.func.id == 'frozenset' and len(e.args) <= 1 and not e.keywords:
        return all(isinstance(a, (ast.Set, ast.Tuple, ast.List)) and all(_literal(x, imported, depth + 1) for x in a.elts) for a in e.args)
    if isinstance(e, ast.Attribute):
        cur = e
        while isinstance(cur, ast.Attribute):
            cur = cur.value
        return isinstance(cur, ast.Name) and cur.id in imported
    return False


def _fold_new_parameters(tree: ast.Module, known: dict, passed: dict) -> list:
    """A parameter that a function of the confirmed tree did not have, that has a default, and that no call in the package passes (by keyword, by
    position or through a spread) always holds its default inside the package: its reads are replaced by the default (a constant, a name or an
    attribute chain).  This is how an option added with a neutral default disappears before the rules look at the function."""
    import copy as _copy
    done = []

    def simple(e, depth=0):
        if isinstance(e, ast.Constant):
            return True
        if isinstance(e, ast.Name):
            return True
        if isinstance(e, ast.Attribute) and depth < 3:
            return simple(e.value, depth + 1)
        if isinstance(e, ast.UnaryOp) and isinstance(e.operand, ast.Constant):
            return True
        if isinstance(e, ast.Tuple) and depth < 2:
            return all(simple(x, depth + 1) for x in e.elts)
        return False

    def visit(body, prefix):
        for n in body:
            if isinstance(n, ast.ClassDef):
                visit(n.body, prefix + n.name + '.')
            elif isinstance(n, (ast.FunctionDef, ast.AsyncFunctionDef)):
                q = prefix + n.name
                if q in known:
                    fold(n, q)
                visit([x for x in ast.walk(n) if isinstance(x, (ast.FunctionDef, ast.AsyncFunctionDef, ast.ClassDef)) and x is not n and False], q + '.')

    def fold(fn, q):
        old = set(known[q])
        pos = fn.args.posonlyargs + fn.args.args
        defaults = dict(zip([a.arg for a in pos][len(pos) - len(fn.args.defaults):], fn.args.defaults))
        defaults.update({a.arg: d for a, d in zip(fn.args.kwonlyargs, fn.args.kw_defaults) if d is not None})
        rec = passed.get(fn.name, [set(), 0, False, False])
        is_method = bool(pos) and pos[0].arg in ('self', 'cls')
        for a in pos + fn.args.kwonlyargs:
            p = a.arg
            if p in old or p not in defaults or not simple(defaults[p]):
                continue
            if p in rec[0] or rec[2]:
                continue
            if a in pos:
                idx = pos.index(a) - (1 if is_method else 0)
                if rec[1] > idx:
                    continue
            # never re-bound in the body, default names not shadowed by other parameters / locals
            stores = [x for x in ast.walk(fn) if isinstance(x, ast.Name) and x.id == p and isinstance(x.ctx, (ast.Store, ast.Del))]
            if stores:
                continue
            dn = {x.id for x in ast.walk(defaults[p]) if isinstance(x, ast.Name)}
            local = {x.arg for x in pos + fn.args.kwonlyargs} | {x.id for x in ast.walk(fn) if isinstance(x, ast.Name) and isinstance(x.ctx, ast.Store)}
            if dn & local:
                continue
            n_sub = 0
            for holder in ast.walk(fn):
                for field, val in ast.iter_fields(holder):
                    if holder is fn and field in ('args', 'decorator_list', 'returns'):
                        continue
                    if isinstance(val, ast.Name) and val.id == p and isinstance(val.ctx, ast.Load):
                        setattr(holder, field, ast.copy_location(_copy.deepcopy(defaults[p]), val))
                        n_sub += 1
                    elif isinstance(val, list):
                        for i, x in enumerate(val):
                            if isinstance(x, ast.Name) and x.id == p and isinstance(x.ctx, ast.Load):
                                val[i] = ast.copy_location(_copy.deepcopy(defaults[p]), x)
                                n_sub += 1
            ast.fix_missing_locations(fn)
            done.append(f'{q}: new parameter {p} is never passed inside the package: {n_sub} read(s) replaced by its default {ast.unparse(defaults[p])[:40]}')

    visit(tree.body, '')
    return done


def _fold_new_constants(tree: ast.Module, known: set) -> list:
    """A module-level constant that the confirmed tree did not have (`FULL_SAMPLE = 1.0`, `LABEL_SEPARATOR = '-'`, `CODE_DTYPE = np.int32`) is
    replaced by its value wherever a function of the module reads it: naming a literal changes nothing, and the rules compare values.  Only names
    bound exactly once at module level, to a literal, never declared global, and not re-bound in the reading function are folded."""
    import copy
    imported = set()
    for n in tree.body:
        if isinstance(n, ast.Import):
            imported |= {(a.asname or a.name).split('.')[0] for a in n.names}
        elif isinstance(n, ast.ImportFrom):
            imported |= {a.asname or a.name for a in n.names}
    bound: dict[str, list] = {}
    for n in tree.body:
        for t, v in _assign_targets(n):
            bound.setdefault(t, []).append(v)
        if isinstance(n, (ast.For, ast.With, ast.If, ast.Try, ast.While)):
            for x in ast.walk(n):
                if isinstance(x, ast.Name) and isinstance(x.ctx, ast.Store):
                    bound.setdefault(x.id, []).append(None)
    globs = {g for n in ast.walk(tree) if isinstance(n, ast.Global) for g in n.names}
    # names whose object is changed in place somewhere in the module: a mutable literal bound to such a name is state, not a constant
    mutated = set()
    for n in ast.walk(tree):
        if isinstance(n, ast.Call) and isinstance(n.func, ast.Attribute) and isinstance(n.func.value, ast.Name) and n.func.attr in ('append', 'extend', 'insert', 'update', 'add', 'pop', 'remove', 'clear', 'sort', 'reverse', 'setdefault', 'discard', 'popitem'):
            mutated.add(n.func.value.id)
        elif isinstance(n, (ast.Assign, ast.AugAssign, ast.Delete)):
            for t in (n.targets if isinstance(n, (ast.Assign, ast.Delete)) else [n.target]):
                b = t
                while isinstance(b, (ast.Subscript, ast.Attribute)):
                    b = b.value
                if b is not t and isinstance(b, ast.Name):
                    mutated.add(b.id)
                if isinstance(n, ast.AugAssign) and isinstance(t, ast.Name):
                    mutated.add(t.id)

    def _has_mutable(e):
        return any(isinstance(x, (ast.List, ast.Set, ast.Dict)) for x in ast.walk(e))
    consts = {k: vs[0] for k, vs in bound.items() if len(vs) == 1 and vs[0] is not None and k not in known and k not in globs and k not in imported and _literal(vs[0], imported)
              and not (_has_mutable(vs[0]) and k in mutated)}
    # a constant defined through another new constant
    for _ in range(3):
        for k, v in list(consts.items()):
            pass
    if not consts:
        return []

    class _R(ast.NodeTransformer):
        def __init__(self, shadow):
            self.shadow = shadow

        def visit_Name(self, node):
            if isinstance(node.ctx, ast.Load) and node.id in consts and node.id not in self.shadow:
                return ast.copy_location(copy.deepcopy(consts[node.id]), node)
            return node
    folded = set()
    # constants may be written in terms of earlier new constants:  B = A + 1
    for k in list(consts):
        consts[k] = _R(set()).visit(copy.deepcopy(consts[k]))
    for fn in ast.walk(tree):
        if isinstance(fn, (ast.FunctionDef, ast.AsyncFunctionDef, ast.Lambda)):
            a = fn.args
            shadow = {x.arg for x in a.posonlyargs + a.args + a.kwonlyargs} | ({a.vararg.arg} if a.vararg else set()) | ({a.kwarg.arg} if a.kwarg else set())
            body = fn.body if isinstance(fn.body, list) else [fn.body]
            for b in body:
                for x in ast.walk(b):
                    if isinstance(x, ast.Name) and isinstance(x.ctx, (ast.Store, ast.Del)):
                        shadow.add(x.id)
            used = {x.id for b in body for x in ast.walk(b) if isinstance(x, ast.Name) and isinstance(x.ctx, ast.Load) and x.id in consts and x.id not in shadow}
            if not used:
                continue
            folded |= used
            r = _R(shadow)
            if isinstance(fn.body, list):
                fn.body = [r.visit(b) for b in fn.body]
                fn.decorator_list = [r.visit(d) for d in fn.decorator_list]
                for i, d in enumerate(a.defaults):
                    a.defaults[i] = r.visit(d)
                for i, d in enumerate(a.kw_defaults):
                    if d is not None:
                        a.kw_defaults[i] = r.visit(d)
            else:
                fn.body = r.visit(fn.body)
    # module-level statements read them too (np.random.seed(SEED), OTHER = f(CONST)); the defining assignments stay as they are
    defining = {id(v) for v in consts.values()}
    for i, st in enumerate(tree.body):
        if isinstance(st, (ast.FunctionDef, ast.AsyncFunctionDef, ast.ClassDef, ast.Import, ast.ImportFrom)):
            continue
        if any(t in consts for t, _v in _assign_targets(st)):
            continue
        used = {x.id for x in ast.walk(st) if isinstance(x, ast.Name) and isinstance(x.ctx, ast.Load) and x.id in consts}
        if used and not any(isinstance(x, (ast.FunctionDef, ast.AsyncFunctionDef, ast.Lambda, ast.ClassDef)) for x in ast.walk(st)):
            folded |= used
            tree.body[i] = _R(set()).visit(st)
    # class bodies (dataclass defaults, class attributes) read them too
    for c in ast.walk(tree):
        if isinstance(c, ast.ClassDef):
            for st in c.body:
                if isinstance(st, (ast.Assign, ast.AnnAssign)) and st.value is not None:
                    st.value = _R(set()).visit(st.value)
    ast.fix_missing_locations(tree)
    return sorted(folded)


def _renumber(tree: ast.AST) -> None:
    """After helper expansion the statements of a function no longer appear in line order (expanded statements keep the lines of the
    helper).  Rules compare positions by line number, so every node gets a line number that follows the program order of the
    expanded tree; the original line is kept in `orig_lineno` and is what reports show."""
    counter = [0]

    def visit(n):
        if hasattr(n, 'lineno'):
            if not hasattr(n, 'orig_lineno'):
                n.orig_lineno = n.lineno
            if isinstance(n, (ast.stmt, ast.ExceptHandler)):
                counter[0] += 1
            n.lineno = max(counter[0], 1)
        last = getattr(n, 'lineno', counter[0])
        for c in ast.iter_child_nodes(n):
            last = max(last, visit(c))
        if hasattr(n, 'end_lineno'):
            n.end_lineno = last
        return last
    visit(tree)


def normalise(tree: ast.AST) -> None:
    """Statement-level canonicalisation applied to every module before any rule looks at it, so that three common
    behaviour-preserving spellings never matter:
      * `if not c: A else: B`            ->  `if c: B else: A`
      * `x = x + y` / `x = x - y`        ->  `x += y` / `x -= y`        (plain names)
      * `t = <expr>; return t`           ->  `return <expr>`            (t used nowhere else)
    Line numbers of the surviving nodes are kept."""
    # tests over constants only (`None is not None`, `not False`, `0 == 0`: left behind when a never-passed parameter was replaced by its default)
    def _const_test(e):
        if isinstance(e, ast.Constant):
            return (True, e.value)
        if isinstance(e, ast.UnaryOp) and isinstance(e.op, ast.Not):
            k, v = _const_test(e.operand)
            return (k, (not v) if k else None)
        if isinstance(e, ast.Compare) and len(e.ops) == 1:
            (ka, a), (kb, b) = _const_test(e.left), _const_test(e.comparators[0])
            if ka and kb:
                op = e.ops[0]
                try:
                    if isinstance(op, ast.Is):
                        return (True, a is b) if (a is None or b is None or isinstance(a, bool) or isinstance(b, bool)) else (False, None)
                    if isinstance(op, ast.IsNot):
                        return (True, a is not b) if (a is None or b is None or isinstance(a, bool) or isinstance(b, bool)) else (False, None)
                    if isinstance(op, ast.Eq):
                        return (True, a == b)
                    if isinstance(op, ast.NotEq):
                        return (True, a != b)
                except Exception:
                    return (False, None)
        if isinstance(e, ast.BoolOp):
            vals = [_const_test(v) for v in e.values]
            if all(k for k, _ in vals):
                return (True, all(v for _, v in vals) if isinstance(e.op, ast.And) else any(v for _, v in vals))
        return (False, None)
    for n in ast.walk(tree):
        if isinstance(n, (ast.If, ast.IfExp)) and not isinstance(n.test, ast.Constant):
            k, v = _const_test(n.test)
            if k:
                n.test = ast.copy_location(ast.Constant(bool(v)), n.test)
    # `if True: A else: B` -> A ; `if False: A else: B` -> B    (left behind when a helper with a flag parameter is expanded at a call site)
    for holder in ast.walk(tree):
        for field in ('body', 'orelse', 'finalbody'):
            body = getattr(holder, field, None)
            if not isinstance(body, list) or not any(isinstance(st, ast.If) and isinstance(st.test, ast.Constant) and isinstance(st.test.value, bool) for st in body):
                continue
            out = []
            for st in body:
                if isinstance(st, ast.If) and isinstance(st.test, ast.Constant) and isinstance(st.test.value, bool):
                    out += (st.body if st.test.value else st.orelse)
                else:
                    out.append(st)
            if not out and field == 'body':
                out = [ast.copy_location(ast.Pass(), body[0])]
            setattr(holder, field, out)
    # head, *rest = <expr>   ->   head = <expr>[0]; rest = <expr>[1:]      (the expression is a pure split / list in this code base)
    for holder in ast.walk(tree):
        for field in ('body', 'orelse', 'finalbody'):
            body = getattr(holder, field, None)
            if not isinstance(body, list):
                continue
            out = []
            for st in body:
                # *rest, last = <expr>   ->   rest = list(<expr>)[:-1]; last = list(<expr>)[-1]
                if (isinstance(st, ast.Assign) and len(st.targets) == 1 and isinstance(st.targets[0], ast.Tuple) and len(st.targets[0].elts) == 2 and isinstance(st.targets[0].elts[1], ast.Name)
                        and isinstance(st.targets[0].elts[0], ast.Starred) and isinstance(st.targets[0].elts[0].value, ast.Name) and not isinstance(st.value, (ast.Tuple, ast.List))):
                    import copy as _copy
                    lst = lambda: ast.Call(func=ast.Name('list', ast.Load()), args=[_copy.deepcopy(st.value)], keywords=[])
                    a = ast.Assign(targets=[ast.Name(st.targets[0].elts[0].value.id, ast.Store())], value=ast.Subscript(value=lst(), slice=ast.Slice(lower=None, upper=ast.UnaryOp(ast.USub(), ast.Constant(1)), step=None), ctx=ast.Load()))
                    b = ast.Assign(targets=[ast.Name(st.targets[0].elts[1].id, ast.Store())], value=ast.Subscript(value=lst(), slice=ast.UnaryOp(ast.USub(), ast.Constant(1)), ctx=ast.Load()))
                    for x in (a, b):
                        ast.copy_location(x, st)
                        ast.fix_missing_locations(x)
                    # a throw-away rest (`*_`) is not bound at all
                    out += ([b] if st.targets[0].elts[0].value.id == '_' else [a, b])
                    continue
                if (isinstance(st, ast.Assign) and len(st.targets) == 1 and isinstance(st.targets[0], ast.Tuple) and len(st.targets[0].elts) == 2 and isinstance(st.targets[0].elts[0], ast.Name)
                        and isinstance(st.targets[0].elts[1], ast.Starred) and isinstance(st.targets[0].elts[1].value, ast.Name) and not isinstance(st.value, (ast.Tuple, ast.List))):
                    import copy as _copy
                    a = ast.Assign(targets=[ast.Name(st.targets[0].elts[0].id, ast.Store())], value=ast.Subscript(value=_copy.deepcopy(st.value), slice=ast.Constant(0), ctx=ast.Load()))
                    b = ast.Assign(targets=[ast.Name(st.targets[0].elts[1].value.id, ast.Store())], value=ast.Subscript(value=_copy.deepcopy(st.value), slice=ast.Slice(lower=ast.Constant(1), upper=None, step=None), ctx=ast.Load()))
                    for x in (a, b):
                        ast.copy_location(x, st)
                        ast.fix_missing_locations(x)
                        for y in ast.walk(x):
                            if not hasattr(y, 'lineno'):
                                y.lineno = st.lineno
                    out += [a, b]
                else:
                    out.append(st)
            body[:] = out
    for n in ast.walk(tree):
        if isinstance(n, ast.If) and isinstance(n.test, ast.UnaryOp) and isinstance(n.test.op, ast.Not) and n.orelse and not (len(n.orelse) == 1 and isinstance(n.orelse[0], ast.If)):
            n.test = n.test.operand
            n.body, n.orelse = n.orelse, n.body
    partial_names = {a.asname or a.name for n in ast.walk(tree) if isinstance(n, ast.ImportFrom) and n.module == 'functools' for a in n.names if a.name == 'partial'}
    functools_names = {a.asname or a.name for n in ast.walk(tree) if isinstance(n, ast.Import) for a in n.names if a.name == 'functools'}
    for fn in [x for x in ast.walk(tree) if isinstance(x, (ast.FunctionDef, ast.AsyncFunctionDef))]:
        _inline_attr_aliases(fn)
        _fuse_batch_counter(fn)
        if partial_names or functools_names:
            _expand_partials(fn, partial_names, functools_names)
        _expand_kwargs_tables(fn)
    for fn in [x for x in ast.walk(tree) if isinstance(x, (ast.FunctionDef, ast.AsyncFunctionDef, ast.Module))]:
        counts = {}
        pairs = {}
        if not isinstance(fn, ast.Module):
            for x in ast.walk(fn):
                if isinstance(x, ast.Name):
                    counts[x.id] = counts.get(x.id, 0) + 1
                for field in ('body', 'orelse', 'finalbody'):
                    b = getattr(x, field, None)
                    if isinstance(b, list):
                        for a, r in zip(b, b[1:]):
                            if isinstance(a, ast.Assign) and len(a.targets) == 1 and isinstance(a.targets[0], ast.Name) and isinstance(r, ast.Return) and isinstance(r.value, ast.Name) and r.value.id == a.targets[0].id \
                                    and not any(isinstance(y, ast.Name) and y.id == a.targets[0].id for y in ast.walk(a.value)):
                                pairs[a.targets[0].id] = pairs.get(a.targets[0].id, 0) + 1
        for holder in ast.walk(fn):
            for field in ('body', 'orelse', 'finalbody'):
                body = getattr(holder, field, None)
                if not isinstance(body, list) or (isinstance(holder, (ast.FunctionDef, ast.AsyncFunctionDef, ast.ClassDef)) and holder is not fn):
                    continue
                out = []
                i = 0
                while i < len(body):
                    st = body[i]
                    if isinstance(st, ast.AnnAssign) and st.value is not None and st.simple and isinstance(st.target, ast.Name) and not isinstance(fn, ast.Module) and not isinstance(holder, ast.ClassDef):
                        # x: T = v inside a function is x = v
                        st = ast.copy_location(ast.Assign(targets=[st.target], value=st.value), st)
                        ast.fix_missing_locations(st)
                    if (isinstance(st, ast.Assign) and len(st.targets) == 1 and isinstance(st.targets[0], ast.Name) and isinstance(st.value, ast.BinOp) and isinstance(st.value.op, (ast.Add, ast.Sub))
                            and isinstance(st.value.left, ast.Name) and st.value.left.id == st.targets[0].id):
                        st = ast.copy_location(ast.AugAssign(target=ast.Name(st.targets[0].id, ast.Store()), op=st.value.op, value=st.value.right), st)
                        st.from_plain = True      # written as x = x + y: builds a new object (matters only where aliasing matters)
                        ast.fix_missing_locations(st)
                    elif (isinstance(st, ast.Assign) and len(st.targets) == 1 and isinstance(st.targets[0], ast.Subscript) and isinstance(st.value, ast.BinOp) and isinstance(st.value.op, (ast.Add, ast.Sub))
                            and isinstance(st.value.left, ast.Subscript) and ast.unparse(st.value.left) == ast.unparse(st.targets[0]) and not any(isinstance(x, ast.Call) for x in ast.walk(st.targets[0]))):
                        # d[k] = d[k] + y  ->  d[k] += y
                        st = ast.copy_location(ast.AugAssign(target=st.targets[0], op=st.value.op, value=st.value.right), st)
                        ast.fix_missing_locations(st)
                    nxt = body[i + 1] if i + 1 < len(body) else None
                    if (not isinstance(fn, ast.Module) and isinstance(st, ast.Assign) and len(st.targets) == 1 and isinstance(st.targets[0], ast.Name) and isinstance(nxt, ast.Return)
                            and isinstance(nxt.value, ast.Name) and nxt.value.id == st.targets[0].id and counts.get(nxt.value.id, 0) == 2 * pairs.get(nxt.value.id, 0)):
                        out.append(ast.copy_location(ast.Return(st.value), st))
                        i += 2
                        continue
                    out.append(st)
                    i += 1
                body[:] = out


def _expand_partials(fn, partial_names: set, functools_names: set) -> None:
    """`p = partial(f, a, k=v)` ... `p(x, j=w)`  ->  `f(a, x, k=v, j=w)` when p is bound once in the function, only ever called, and what the partial
    captured (plain names) is not re-bound between the binding and the calls (bound at most once in the function, before the partial)."""
    import copy as _copy

    def is_partial(c):
        return isinstance(c, ast.Call) and c.args and ((isinstance(c.func, ast.Name) and c.func.id in partial_names) or
                                                       (isinstance(c.func, ast.Attribute) and c.func.attr == 'partial' and isinstance(c.func.value, ast.Name) and c.func.value.id in functools_names))
    own = [n for n in ast.walk(fn)]
    inner = {id(y) for x in own if isinstance(x, (ast.FunctionDef, ast.AsyncFunctionDef, ast.Lambda)) and x is not fn for y in ast.walk(x) if y is not x}
    binds = {}
    for n in own:
        if id(n) in inner:
            continue
        if isinstance(n, ast.Name) and isinstance(n.ctx, (ast.Store, ast.Del)):
            binds[n.id] = binds.get(n.id, 0) + 1
    params = {a.arg for a in fn.args.posonlyargs + fn.args.args + fn.args.kwonlyargs} | ({fn.args.vararg.arg} if fn.args.vararg else set()) | ({fn.args.kwarg.arg} if fn.args.kwarg else set())
    for holder in own:
        for field in ('body', 'orelse', 'finalbody'):
            body = getattr(holder, field, None)
            if not isinstance(body, list) or id(holder) in inner:
                continue
            for st in list(body):
                if not (isinstance(st, ast.Assign) and len(st.targets) == 1 and isinstance(st.targets[0], ast.Name) and is_partial(st.value)):
                    continue
                p = st.targets[0].id
                if binds.get(p, 0) != 1 or p in params:
                    continue
                uses = [n for n in own if isinstance(n, ast.Name) and n.id == p and isinstance(n.ctx, ast.Load)]
                calls = [n for n in own if isinstance(n, ast.Call) and isinstance(n.func, ast.Name) and n.func.id == p]
                if not calls or len(uses) != len(calls) or any(c.lineno < st.lineno for c in calls):
                    continue
                captured = {x.id for a in list(st.value.args) + [k.value for k in st.value.keywords] for x in ast.walk(a) if isinstance(x, ast.Name)}
                stable = all((binds.get(c, 0) == 0) or (binds.get(c, 0) == 1 and c not in params and
                             any(isinstance(n, ast.Name) and n.id == c and isinstance(n.ctx, ast.Store) and n.lineno < st.lineno for n in own)) for c in captured)
                if not stable or any(k.arg is not None and any(k2.arg == k.arg for k2 in c.keywords) for k in st.value.keywords for c in calls):
                    continue
                for c in calls:
                    c.func = _copy.deepcopy(st.value.args[0])
                    c.args = [_copy.deepcopy(a) for a in st.value.args[1:]] + c.args
                    c.keywords = [_copy.deepcopy(k) for k in st.value.keywords if k.arg is not None] + c.keywords + [_copy.deepcopy(k) for k in st.value.keywords if k.arg is None]
                    for y in ast.walk(c):
                        if not hasattr(y, 'lineno'):
                            ast.copy_location(y, c)
                    ast.fix_missing_locations(c)
                body.remove(st)
                if not body:
                    body.append(ast.copy_location(ast.Pass(), st))


def _expand_kwargs_tables(fn) -> None:
    """`d = {'a': x, 'b': y}` ... `f(.., **d)`  ->  `f(.., a=x, b=y)` when d is bound once to a dict display with constant string keys, is used for
    nothing but `**d` expansions after the binding, and the plain names in its values are not re-bound in the function after the binding."""
    import copy as _copy
    own = [n for n in ast.walk(fn)]
    inner = {id(y) for x in own if isinstance(x, (ast.FunctionDef, ast.AsyncFunctionDef, ast.Lambda)) and x is not fn for y in ast.walk(x) if y is not x}
    stores = {}
    for n in own:
        if isinstance(n, ast.Name) and isinstance(n.ctx, (ast.Store, ast.Del)):
            stores.setdefault(n.id, []).append(n)
    params = {a.arg for a in fn.args.posonlyargs + fn.args.args + fn.args.kwonlyargs}
    for holder in own:
        for field in ('body', 'orelse', 'finalbody'):
            body = getattr(holder, field, None)
            if not isinstance(body, list) or id(holder) in inner:
                continue
            for st in list(body):
                if not (isinstance(st, ast.Assign) and len(st.targets) == 1 and isinstance(st.targets[0], ast.Name) and isinstance(st.value, ast.Dict) and st.value.keys
                        and all(isinstance(k, ast.Constant) and isinstance(k.value, str) and k.value.isidentifier() for k in st.value.keys)):
                    continue
                d = st.targets[0].id
                if len(stores.get(d, [])) != 1 or d in params or any(id(n) in inner for n in own if isinstance(n, ast.Name) and n.id == d):
                    continue
                uses = [n for n in own if isinstance(n, ast.Name) and n.id == d and isinstance(n.ctx, ast.Load)]
                spreads = [(c, k) for c in own if isinstance(c, ast.Call) for k in c.keywords if k.arg is None and isinstance(k.value, ast.Name) and k.value.id == d]
                if not spreads or len(uses) != len(spreads) or any(c.lineno < st.lineno for c, _ in spreads):
                    continue
                captured = {x.id for v in st.value.values for x in ast.walk(v) if isinstance(x, ast.Name)}
                if any(any(n.lineno >= st.lineno for n in stores.get(c, [])) for c in captured):
                    continue
                if any(k2.arg in {k.value for k in st.value.keys} for c, _ in spreads for k2 in c.keywords):
                    continue
                for c, k in spreads:
                    new = [ast.keyword(arg=q.value, value=_copy.deepcopy(v)) for q, v in zip(st.value.keys, st.value.values)]
                    i = c.keywords.index(k)
                    c.keywords[i:i + 1] = new
                    ast.fix_missing_locations(c)
                body.remove(st)
                if not body:
                    body.append(ast.copy_location(ast.Pass(), st))


def _fuse_batch_counter(fn) -> None:
    """A local counter that only collects increments and is then merged, item by item, into another counter

          L = Counter();  ... L[k] += 1 ...;  for k, n in L.items(): S[k] += n          ->          ... S[k] += 1 ...

    is the direct counting into S (the same final contents of S; L is used for nothing else).  A local alias `A = L` that is only iterated by
    the merge loop counts as L."""
    import copy
    for _ in range(3):
        inits = {}
        for n in ast.walk(fn):
            if isinstance(n, ast.Assign) and len(n.targets) == 1 and isinstance(n.targets[0], ast.Name) and isinstance(n.value, ast.Call) and not n.value.args and not n.value.keywords \
                    and ast.unparse(n.value.func) in ('Counter', 'collections.Counter'):
                inits.setdefault(n.targets[0].id, []).append(n)
            elif isinstance(n, ast.Assign) and len(n.targets) == 1 and isinstance(n.targets[0], ast.Name) and isinstance(n.value, ast.Call) and ast.unparse(n.value.func) in ('defaultdict', 'collections.defaultdict') \
                    and len(n.value.args) == 1 and isinstance(n.value.args[0], ast.Name) and n.value.args[0].id == 'int' and not n.value.keywords:
                inits.setdefault(n.targets[0].id, []).append(n)
        done = False
        for L, ini in inits.items():
            if len(ini) != 1:
                continue
            names = {L}
            alias_stmts = []
            for n in ast.walk(fn):
                if isinstance(n, ast.Assign) and len(n.targets) == 1 and isinstance(n.targets[0], ast.Name) and isinstance(n.value, ast.Name) and n.value.id == L and n.targets[0].id != L:
                    names.add(n.targets[0].id)
                    alias_stmts.append(n)
            # every use of L (and its alias)
            incs, merges, other = [], [], 0
            for n in ast.walk(fn):
                if isinstance(n, ast.AugAssign) and isinstance(n.op, ast.Add) and isinstance(n.target, ast.Subscript) and isinstance(n.target.value, ast.Name) and n.target.value.id == L \
                        and isinstance(n.value, ast.Constant) and n.value.value == 1:
                    incs.append(n)
                elif isinstance(n, ast.For) and isinstance(n.iter, ast.Call) and isinstance(n.iter.func, ast.Attribute) and n.iter.func.attr == 'items' and not n.iter.args \
                        and isinstance(n.iter.func.value, ast.Name) and n.iter.func.value.id in names and isinstance(n.target, ast.Tuple) and len(n.target.elts) == 2 \
                        and all(isinstance(x, ast.Name) for x in n.target.elts) and not n.orelse and len(n.body) == 1 and isinstance(n.body[0], ast.AugAssign) and isinstance(n.body[0].op, ast.Add) \
                        and isinstance(n.body[0].target, ast.Subscript) and isinstance(n.body[0].target.value, ast.Name) and n.body[0].target.value.id not in names \
                        and isinstance(n.body[0].target.slice, ast.Name) and n.body[0].target.slice.id == n.target.elts[0].id and isinstance(n.body[0].value, ast.Name) and n.body[0].value.id == n.target.elts[1].id:
                    merges.append(n)
            uses = [x for x in ast.walk(fn) if isinstance(x, ast.Name) and x.id in names]
            accounted = len(ini) + len(alias_stmts) * 2 + len(incs) + len(merges)
            if len(merges) != 1 or not incs or len(uses) != accounted:
                continue
            S = merges[0].body[0].target.value.id
            # S must not be read or written between the first increment and the merge (the guards of the increments may test other things)
            order = {}

            def _number(node):
                order[id(node)] = len(order)
                for c in ast.iter_child_nodes(node):
                    _number(c)
            _number(fn)
            lo, hi = min(order[id(i)] for i in incs), order[id(merges[0])]
            if any(isinstance(x, ast.Name) and x.id == S and lo <= order[id(x)] < hi for x in ast.walk(fn)):
                continue
            for i in incs:
                i.target.value = ast.copy_location(ast.Name(S, ast.Load()), i.target.value)
            drop = {id(ini[0]), id(merges[0])} | {id(a) for a in alias_stmts}
            for holder in ast.walk(fn):
                for field in ('body', 'orelse', 'finalbody'):
                    body = getattr(holder, field, None)
                    if isinstance(body, list) and any(id(st) in drop for st in body):
                        kept = [st for st in body if id(st) not in drop]
                        if not kept and field == 'body':
                            kept = [ast.copy_location(ast.Pass(), body[0])]
                        setattr(holder, field, kept)
            done = True
            break
        if not done:
            return


def _inline_attr_aliases(fn) -> None:
    """`t = self.attr` ... uses of t     ->     uses of self.attr, when t is bound exactly once (at the top level of the method body, so it dominates
    its uses), is not captured by a nested function, and self.attr is not re-bound in the method before the last use of t (a re-bound attribute
    names another object than the alias).  The alias statement is dropped."""
    if not fn.args.args:
        return
    me = fn.args.args[0].arg
    import copy as _copy
    stores = {}
    nested_names = set()
    for n in ast.walk(fn):
        if isinstance(n, ast.Name) and isinstance(n.ctx, (ast.Store, ast.Del)):
            stores[n.id] = stores.get(n.id, 0) + 1
        elif isinstance(n, (ast.Global, ast.Nonlocal)):
            for nm in n.names:
                stores[nm] = stores.get(nm, 0) + 2
        elif isinstance(n, (ast.FunctionDef, ast.AsyncFunctionDef, ast.Lambda)) and n is not fn:
            nested_names |= {x.id for x in ast.walk(n) if isinstance(x, ast.Name)}
    if stores.get(me, 0):
        return
    params = {a.arg for a in fn.args.posonlyargs + fn.args.args + fn.args.kwonlyargs} | ({fn.args.vararg.arg} if fn.args.vararg else set()) | ({fn.args.kwarg.arg} if fn.args.kwarg else set())
    for i, st in enumerate(list(fn.body)):
        if not (isinstance(st, ast.Assign) and len(st.targets) == 1 and isinstance(st.targets[0], ast.Name) and isinstance(st.value, ast.Attribute)
                and isinstance(st.value.value, ast.Name) and st.value.value.id == me):
            continue
        t, attr = st.targets[0].id, st.value.attr
        if stores.get(t, 0) != 1 or t in params or t in nested_names:
            continue
        rest = fn.body[fn.body.index(st) + 1:]
        uses = [x for b in rest for x in ast.walk(b) if isinstance(x, ast.Name) and x.id == t]
        if any(x.id == t for b in fn.body[:fn.body.index(st)] for x in ast.walk(b) if isinstance(x, ast.Name)):
            continue
        # re-binding of the attribute: allowed only in a statement after which t is not used any more, and outside loops
        rebinds = []
        ok = True
        for b in rest:
            for x in ast.walk(b):
                tg = []
                if isinstance(x, ast.Assign):
                    tg = x.targets
                elif isinstance(x, (ast.AugAssign, ast.AnnAssign)):
                    tg = [x.target]
                elif isinstance(x, ast.Delete):
                    tg = x.targets
                for y in tg:
                    for z in (y.elts if isinstance(y, (ast.Tuple, ast.List)) else [y]):
                        if isinstance(z, ast.Attribute) and isinstance(z.value, ast.Name) and z.value.id == me and z.attr == attr:
                            rebinds.append((b, x))
                if isinstance(x, ast.Call) and isinstance(x.func, ast.Name) and x.func.id in ('setattr', 'delattr'):
                    ok = False
        for b, x in rebinds:
            if isinstance(x, ast.AugAssign):
                ok = False        # self.attr += ... may or may not keep the object
                continue
            later = rest[rest.index(b) + 1:]
            in_loop = any(isinstance(l, (ast.For, ast.While)) and any(y is x for y in ast.walk(l)) for l in ast.walk(b))
            used_later = any(isinstance(y, ast.Name) and y.id == t for l in later for y in ast.walk(l))
            # within the re-binding statement itself t may only be read by the value (evaluated before the store); other statements of the same
            # compound statement that follow the store must not read it
            same_stmt_after = False
            if b is not x:
                seen_store = False
                for y in ast.walk(b):
                    if y is x:
                        seen_store = True
                for blk in ast.walk(b):
                    for field in ('body', 'orelse', 'finalbody'):
                        lst = getattr(blk, field, None)
                        if isinstance(lst, list) and x in lst:
                            after = lst[lst.index(x) + 1:]
                            if any(isinstance(y, ast.Name) and y.id == t for l in after for y in ast.walk(l)):
                                same_stmt_after = True
            if in_loop or used_later or same_stmt_after:
                ok = False
        if not ok:
            continue

        class R(ast.NodeTransformer):
            def visit_Name(self, node):
                if node.id == t and isinstance(node.ctx, ast.Load):
                    return ast.copy_location(ast.Attribute(value=ast.Name(me, ast.Load()), attr=attr, ctx=ast.Load()), node)
                return node
        for b in rest:
            R().visit(b)
            ast.fix_missing_locations(b)
        fn.body[fn.body.index(st)] = ast.copy_location(ast.Pass(), st)


def _is_main_guard(test: ast.AST) -> bool:
    return (isinstance(test, ast.Compare) and isinstance(test.left, ast.Name) and test.left.id == '__name__'
            and len(test.comparators) == 1 and isinstance(test.comparators[0], ast.Constant) and test.comparators[0].value == '__main__')


def _assign_targets(node) -> Iterator[tuple[str, ast.AST]]:
    if isinstance(node, ast.Assign):
        for t in node.targets:
            if isinstance(t, ast.Name):
                yield t.id, node.value
    elif isinstance(node, ast.AnnAssign) and isinstance(node.target, ast.Name) and node.value is not None:
        yield node.target.id, node.value


def _direct_owner(fn, inner) -> bool:
    """inner is nested in fn with no other def in between"""
    for node in ast.walk(fn):
        if node is fn or node is inner:
            continue
        if isinstance(node, (ast.FunctionDef, ast.AsyncFunctionDef, ast.Lambda)):
            for sub in ast.walk(node):
                if sub is inner:
                    return False
    return True


def func_vocabulary(node: ast.AST) -> set:
    """the operations a function body applies: called names / methods, attributes read, and a few structural kinds"""
    out = set()
    todo = list(ast.iter_child_nodes(node))
    while todo:
        n = todo.pop()
        if isinstance(n, ast.Call):
            f = n.func
            if isinstance(f, ast.Name):
                out.add(f.id)
            elif isinstance(f, ast.Attribute):
                out.add('.' + f.attr)
        elif isinstance(n, ast.Attribute) and isinstance(n.ctx, ast.Load):
            out.add('.' + n.attr)
        elif isinstance(n, (ast.ListComp, ast.SetComp, ast.DictComp, ast.GeneratorExp, ast.IfExp, ast.Lambda, ast.Starred, ast.While, ast.Try, ast.With, ast.Yield, ast.NamedExpr)):
            out.add('<' + type(n).__name__ + '>')
        todo.extend(ast.iter_child_nodes(n))
    return out


def class_attr_writes(cls_node: ast.ClassDef) -> dict:
    """self.<attr> -> list of (method name, statement, value or None, at top level of the method body) for every write in the class"""
    out = {}
    for f in cls_node.body:
        if not isinstance(f, (ast.FunctionDef, ast.AsyncFunctionDef)) or not f.args.args:
            continue
        me = f.args.args[0].arg
        for n in ast.walk(f):
            tgs = []
            if isinstance(n, ast.Assign):
                tgs = [(t, n.value) for t in n.targets]
            elif isinstance(n, ast.AnnAssign):
                tgs = [(n.target, n.value)]
            elif isinstance(n, ast.AugAssign):
                tgs = [(n.target, None)]
            elif isinstance(n, ast.Delete):
                tgs = [(t, None) for t in n.targets]
            elif isinstance(n, (ast.For, ast.comprehension)):
                tgs = [(n.target, None)]
            for t, v in tgs:
                for x in (t.elts if isinstance(t, (ast.Tuple, ast.List)) else [t]):
                    if isinstance(x, ast.Attribute) and isinstance(x.value, ast.Name) and x.value.id == me:
                        out.setdefault(x.attr, []).append((f.name, n, v if x is t else None, n in f.body, me))
            if isinstance(n, ast.Call) and isinstance(n.func, ast.Name) and n.func.id == 'setattr':
                out.setdefault('*', []).append((f.name, n, None, False, me))
    return out


def derived_attr(cls_node: ast.ClassDef, attr: str, known: set, depth: int = 0):
    """the defining expression (over `self`) of an attribute that the class did not have in the confirmed tree, when it is bound exactly once, at
    the top level of __init__, to an expression over constants and attributes that are themselves bound once at the top level of __init__
    (a cached sub-expression such as `self._mask = self.m - 1`); None otherwise"""
    if depth > 3 or attr in known:
        return None
    writes = class_attr_writes(cls_node)
    if '*' in writes:
        return None
    w = writes.get(attr) or []
    if len(w) != 1 or w[0][0] != '__init__' or not w[0][3] or w[0][2] is None:
        return None
    me = w[0][4]
    value = w[0][2]
    init = next(f for f in cls_node.body if isinstance(f, ast.FunctionDef) and f.name == '__init__')
    pos = init.body.index(w[0][1])
    # names bound by comprehensions inside the value are its own; numpy / builtins are fine; anything else is a constructor argument or a global
    own_bound = {t.id for c in ast.walk(value) if isinstance(c, ast.comprehension) for t in ast.walk(c.target) if isinstance(t, ast.Name)}
    for x in ast.walk(value):
        if isinstance(x, ast.Name) and x.id != me and isinstance(x.ctx, ast.Load) and x.id not in own_bound and x.id not in ('np', 'numpy', 'range', 'int', 'len', 'list', 'tuple', 'float', 'abs', 'min', 'max'):
            return None        # depends on a constructor argument or a global: not an expression over the object
        if isinstance(x, ast.Call):
            # pure constructors of a table / number: np.array([...]), range(..), int(..), x.bit_length() ...
            f_ = x.func
            okc = (isinstance(f_, ast.Name) and f_.id in ('range', 'int', 'len', 'list', 'tuple', 'float', 'abs', 'min', 'max')) \
                or (isinstance(f_, ast.Attribute) and f_.attr in ('array', 'asarray', 'arange', 'bit_length', 'zeros', 'ones', 'full') and not (isinstance(f_.value, ast.Name) and f_.value.id == me))
            if not okc:
                return None
            continue
        if isinstance(x, ast.Name) and x.id != me and isinstance(x.ctx, ast.Load):
            continue
        if isinstance(x, ast.Attribute) and isinstance(x.value, ast.Name) and x.value.id == me:
            ww = writes.get(x.attr) or []
            if len(ww) != 1 or ww[0][0] != '__init__' or not ww[0][3] or init.body.index(ww[0][1]) > pos:
                return None
    return value, me


def func_skeleton(node: ast.AST) -> tuple:
    """the control structure of a function body: kind and nesting depth of its compound statements and comprehensions, in program order
    (edits that change constants, operators, arguments or simple statements leave it unchanged; restructured loops / branches do not)"""
    out = []

    def walk(n, depth):
        for c in ast.iter_child_nodes(n):
            if isinstance(c, (ast.FunctionDef, ast.AsyncFunctionDef, ast.ClassDef, ast.Lambda)):
                out.append((depth, type(c).__name__))
                continue
            if isinstance(c, (ast.For, ast.While, ast.If, ast.Try, ast.With, ast.ListComp, ast.SetComp, ast.DictComp, ast.GeneratorExp, ast.IfExp, ast.Match)):
                out.append((depth, type(c).__name__))
                walk(c, depth + 1)
            else:
                walk(c, depth)
    walk(node, 0)
    return tuple(out)


class Repo:
    """All python modules of the package, parsed."""

    def __init__(self, root: str):
        self.root = os.path.abspath(root)
        self.modules: dict[str, Module] = {}
        pkg_dir = os.path.join(self.root, PKG)
        if not os.path.isdir(pkg_dir):
            raise AnalysisError(f'{pkg_dir} is not a directory')
        # functions of the tree the rules were confirmed on: anything else is a new helper and is expanded at its call sites (sa/inline.py)
        try:
            from .baseline import BASELINE
            self.baseline = {k: set(v) for k, v in BASELINE.items()}
        except ImportError:
            self.baseline = None
        if os.environ.get('VERIF_NO_INLINE') == '1':
            self.baseline = None
        self.ext_refs = self._external_refs(pkg_dir) if self.baseline is not None else set()
        self.passed = self._passed_arguments(pkg_dir) if self.baseline is not None else {}
        for dirpath, dirnames, filenames in os.walk(pkg_dir):
            dirnames[:] = sorted(d for d in dirnames if d != '__pycache__')
            for fn in sorted(filenames):
                if fn.endswith('.py'):
                    path = os.path.join(dirpath, fn)
                    rel = os.path.relpath(path, self.root)[:-3].replace(os.sep, '.')
                    if rel.endswith('.__init__'):
                        rel = rel[: -len('.__init__')]
                    self.modules[rel] = Module(self, rel, path)

    @staticmethod
    def _passed_arguments(pkg_dir) -> dict:
        """function name (last component of the callee) -> (keyword names passed at some call in the package, largest number of positional
        arguments, some call spreads * / **, the name is used other than as a callee)"""
        out: dict = {}
        for dirpath, dirnames, filenames in os.walk(pkg_dir):
            for fn in filenames:
                if not fn.endswith('.py'):
                    continue
                try:
                    with open(os.path.join(dirpath, fn), encoding='utf-8') as fh:
                        t = ast.parse(fh.read())
                except (SyntaxError, OSError):
                    continue
                callee_ids = set()
                for n in ast.walk(t):
                    if isinstance(n, ast.Call):
                        nm = n.func.id if isinstance(n.func, ast.Name) else n.func.attr if isinstance(n.func, ast.Attribute) else None
                        callee_ids.add(id(n.func))
                        if nm is None:
                            continue
                        rec = out.setdefault(nm, [set(), 0, False, False])
                        rec[0] |= {k.arg for k in n.keywords if k.arg}
                        rec[1] = max(rec[1], len(n.args))
                        rec[2] = rec[2] or any(k.arg is None for k in n.keywords) or any(isinstance(a, ast.Starred) for a in n.args)
                for n in ast.walk(t):
                    if isinstance(n, (ast.Name, ast.Attribute)) and isinstance(n.ctx, ast.Load) and id(n) not in callee_ids:
                        nm = n.id if isinstance(n, ast.Name) else n.attr
                        if nm in out:
                            out[nm][3] = True
        return out

    @staticmethod
    def _external_refs(pkg_dir) -> set[str]:
        """names imported from package modules or used as attributes anywhere: a helper with such a name is never dropped"""
        out = set()
        for dirpath, dirnames, filenames in os.walk(pkg_dir):
            for fn in filenames:
                if fn.endswith('.py'):
                    try:
                        with open(os.path.join(dirpath, fn), encoding='utf-8') as fh:
                            t = ast.parse(fh.read())
                    except (SyntaxError, OSError):
                        continue
                    for n in ast.walk(t):
                        if isinstance(n, ast.ImportFrom):
                            out |= {a.name for a in n.names}
                        elif isinstance(n, ast.Attribute):
                            out.add(n.attr)
        return out

    def new_vocabulary(self, relpath: str, qualname: str) -> set:
        """operations the function applies that it did not apply in the confirmed tree (empty when unknown / unchanged)"""
        try:
            from .baseline import VOCAB
        except ImportError:
            return set()
        for mn, m in self.modules.items():
            if m.relpath == relpath:
                f = m.funcs.get(qualname)
                # nested helpers and methods are looked up under their own qualified name; expanded helpers count for their caller
                base = VOCAB.get(mn, {}).get(qualname)
                if f is not None and base is None and mn in VOCAB:
                    # a function the confirmed tree did not have (and that could not be expanded at its call sites): shape recognisers abstain
                    return {'<function not in the confirmed tree>'}
                if f is None or base is None:
                    return set()
                # value-preserving conversions are no new operation for a rule about values (the term layer writes np.asarray(x) as x)
                new = func_vocabulary(f.node) - set(base) - {'.asarray', '.asanyarray'}
                try:
                    from .baseline import SKELETON
                    sk = SKELETON.get(mn, {}).get(qualname)
                    if sk is not None and tuple(map(tuple, sk)) != func_skeleton(f.node):
                        new.add('<restructured control flow>')
                except ImportError:
                    pass
                return new
        return set()

    # -- anchors ------------------------------------------------------------
    def mod(self, name: str) -> Module:
        m = self.modules.get(name)
        if m is None:
            raise AnalysisError(f'anchor module {name} not found')
        return m

    def func(self, modname: str, qualname: str) -> Func:
        m = self.mod(modname)
        f = m.funcs.get(qualname)
        if f is None and '.' not in qualname and qualname in m.imports:
            # the function was moved to another module of the package and is imported back under its name: it is that function
            f = self.find_func(m.imports[qualname])
        if f is None:
            raise AnalysisError(f'anchor function {modname}.{qualname} not found')
        return f

    def find_func(self, dotted: str | None) -> Func | None:
        """Package function for a resolved dotted name, following re-exports."""
        seen = set()
        while dotted and dotted not in seen:
            seen.add(dotted)
            parts = dotted.split('.')
            for i in range(len(parts) - 1, 0, -1):
                mn = '.'.join(parts[:i])
                if mn in self.modules:
                    m = self.modules[mn]
                    qn = '.'.join(parts[i:])
                    if qn in m.funcs:
                        return m.funcs[qn]
                    if parts[i] in m.imports and m.imports[parts[i]] != dotted:
                        dotted = '.'.join([m.imports[parts[i]]] + parts[i + 1:])
                        break
                    return None
            else:
                return None
        return None

    def find_class(self, dotted: str | None):
        """ClassDef of the package for a resolved dotted name (following one re-export), or None."""
        if not dotted:
            return None
        parts = dotted.split('.')
        for i in range(len(parts) - 1, 0, -1):
            mn = '.'.join(parts[:i])
            if mn in self.modules and i == len(parts) - 1:
                m = self.modules[mn]
                for n in m.tree.body:
                    if isinstance(n, ast.ClassDef) and n.name == parts[-1]:
                        return n
                if parts[-1] in m.imports and m.imports[parts[-1]] != dotted:
                    return self.find_class(m.imports[parts[-1]])
                return None
        return None

    def stats(self) -> dict:
        return {
            'modules': len(self.modules),
            'functions': sum(len(m.funcs) for m in self.modules.values()),
            'call_sites': sum(1 for m in self.modules.values() for n in ast.walk(m.tree) if isinstance(n, ast.Call)),
        }

    def text(self, rel: str) -> str | None:
        p = os.path.join(self.root, rel)
        if os.path.isfile(p):
            with open(p, encoding='utf-8', errors='replace') as fh:
                return fh.read()
        return None


# ---------------------------------------------------------------------------
# generic AST helpers
# ---------------------------------------------------------------------------

def norm(node: ast.AST | str) -> str:
    """Normalised source text of a node (formatting independent)."""
    if isinstance(node, str):
        return ' '.join(node.split())
    return ast.unparse(node)


def parents(root: ast.AST) -> dict[ast.AST, ast.AST]:
    out = {}
    for p in ast.walk(root):
        for c in ast.iter_child_nodes(p):
            out[c] = p
    return out


def own_nodes(fn: ast.AST) -> Iterator[ast.AST]:
    """Nodes of a function body without descending into nested defs / lambdas' bodies being
    treated as separate scopes (nested defs are skipped, lambdas are included)."""
    stack = list(ast.iter_child_nodes(fn))
    while stack:
        n = stack.pop()
        yield n
        if isinstance(n, (ast.FunctionDef, ast.AsyncFunctionDef, ast.ClassDef)):
            continue
        stack.extend(ast.iter_child_nodes(n))


def calls_in(root: ast.AST) -> Iterator[ast.Call]:
    for n in ast.walk(root):
        if isinstance(n, ast.Call):
            yield n


def const_value(node: ast.AST):
    """Restricted constant folding (E4).  Returns a Python value or raises ValueError."""
    if isinstance(node, ast.Constant):
        return node.value
    if isinstance(node, ast.UnaryOp):
        v = const_value(node.operand)
        if isinstance(node.op, ast.USub):
            return -v
        if isinstance(node.op, ast.UAdd):
            return +v
        if isinstance(node.op, ast.Not):
            return not v
    if isinstance(node, ast.BinOp):
        l, r = const_value(node.left), const_value(node.right)
        op = type(node.op)
        try:
            if op is ast.Add: return l + r
            if op is ast.Sub: return l - r
            if op is ast.Mult: return l * r
            if op is ast.Div: return l / r
            if op is ast.FloorDiv: return l // r
            if op is ast.Mod: return l % r
            if op is ast.Pow:
                if abs(r) > 64: raise ValueError('exponent too large')
                return l ** r
            if op is ast.LShift: return l << r
            if op is ast.RShift: return l >> r
            if op is ast.BitAnd: return l & r
            if op is ast.BitOr: return l | r
        except (TypeError, ZeroDivisionError, OverflowError) as e:
            raise ValueError(str(e))
    if isinstance(node, ast.Call) and isinstance(node.func, ast.Name) and node.func.id in ('int', 'float') and len(node.args) == 1 and not node.keywords:
        v = const_value(node.args[0])
        return int(v) if node.func.id == 'int' else float(v)
    if isinstance(node, (ast.Tuple, ast.List)):
        return tuple(const_value(e) for e in node.elts)
    raise ValueError(f'not a constant: {ast.unparse(node)[:60]}')


def is_const(node: ast.AST, value=...) -> bool:
    try:
        v = const_value(node)
    except ValueError:
        return False
    return True if value is ... else (v == value and type(v) in (type(value), int, float, bool) or v == value)
