"""Entry point: ./check <id> [--tier quick|thorough] [--repo DIR] [--explain FILE]"""
from __future__ import annotations

import argparse
import importlib
import json
import os
import sys
import traceback

from .model import AnalysisError, Repo
from .report import Check

PROPS = [f'C{i:02d}' for i in range(1, 21)]


def run_property(pid: str, tier: str, repo_root: str, only: str | None = None) -> int:
    try:
        mod = importlib.import_module(f'sa.props.{pid.lower()}')
    except ImportError as e:
        print(f'ANALYSIS-ERROR property={pid} no checker module: {e}')
        return 2
    chk = Check(pid, tier, repo_root, mod.EXPLANATION, getattr(mod, 'TRUSTED_BASE', ()), getattr(mod, 'ASSUMPTIONS', ()))
    try:
        repo = Repo(repo_root)
        chk.analysed.update(repo.stats())
        mod.run(repo, chk, tier)
        if tier == 'thorough' and hasattr(mod, 'run_thorough'):
            mod.run_thorough(repo, chk)
    except AnalysisError as e:
        chk.error(f'{type(e).__name__}: {e}')
    except Exception as e:  # a traceback must never masquerade as a violation
        tb = traceback.format_exc().strip().splitlines()
        chk.error(f'checker raised {type(e).__name__}: {e} [{tb[-3].strip() if len(tb) >= 3 else ""}]')
        if os.environ.get('VERIF_DEBUG'):
            traceback.print_exc()
    if only:
        chk.obs = [o for o in chk.obs if o.oid == only]
    rc = chk.finish()
    if tier == 'thorough' and rc == 0 and not os.environ.get('VERIF_NO_SELFTEST'):
        from selftest import workbench
        rc2 = workbench.run_for(pid, jobs=int(os.environ.get('VERIF_JOBS', '16')), quiet=True)
        if rc2 != 0:
            print(f'ANALYSIS-ERROR property={pid} the checker failed its own sensitivity test (see output above)')
            return 2
    return rc


def main(argv=None) -> int:
    ap = argparse.ArgumentParser()
    ap.add_argument('what')
    ap.add_argument('--tier', default=os.environ.get('VERIF_TIER', 'quick'), choices=['quick', 'thorough'])
    ap.add_argument('--repo', default=os.environ.get('VERIF_REPO', '/repo'))
    ap.add_argument('--explain', default=None)
    ap.add_argument('--jobs', type=int, default=16)
    a = ap.parse_args(argv)
    what = a.what.upper() if a.what.lower() not in ('all', 'selftest') else a.what.lower()
    if what == 'selftest':
        from selftest import workbench
        return workbench.run_all(jobs=a.jobs)
    if what == 'all':
        worst = 0
        for pid in PROPS:
            worst = max(worst, run_property(pid, a.tier, a.repo))
        return worst
    only = None
    if a.explain:
        with open(a.explain) as fh:
            only = json.load(fh).get('obligation')
    return run_property(what, a.tier, a.repo, only)


if __name__ == '__main__':
    sys.path.insert(0, os.path.dirname(os.path.dirname(os.path.abspath(__file__))))
    try:
        rc = main()
    except SystemExit:
        raise
    except Exception as e:
        print(f'ANALYSIS-ERROR checker crashed: {type(e).__name__}: {e}')
        rc = 2
    sys.exit(rc)
