"""Entry point: ./check <id> [--tier quick|thorough] [--repo DIR] [--explain FILE]"""
from __future__ import annotations

import argparse
import importlib
import json
import os
import sys
import traceback

from .model import AnalysisError, Repo
from .report import Check

PROPS = [f'C{i:02d}' for i in range(1, 21)]


def run_property(pid: str, tier: str, repo_root: str, only: str | None = None) -> int:
    try:
        mod = importlib.import_module(f'sa.props.{pid.lower()}')
    except ImportError as e:
        print(f'ANALYSIS-ERROR property={pid} no checker module: {e}')
        return 2
    chk = Check(pid, tier, repo_root, mod.EXPLANATION, getattr(mod, 'TRUSTED_BASE', ()), getattr(mod, 'ASSUMPTIONS', ()))
    try:
        repo = Repo(repo_root)
        chk.analysed.update(repo.stats())

        def gate(site, repo=repo):
            # site = '<relpath>:<line> <qualname>'
            try:
                loc, qual = site.split(' ', 1)
                rel = loc.rsplit(':', 1)[0]
            except ValueError:
                return set()
            return repo.new_vocabulary(rel, qual)
        chk.gate = gate

        def locals_of(site, repo=repo):
            try:
                loc, qual = site.split(' ', 1)
                rel = loc.rsplit(':', 1)[0]
            except ValueError:
                return set()
            for m_ in repo.modules.values():
                if m_.relpath == rel and qual in m_.funcs:
                    f_ = m_.funcs[qual]
                    import ast as _ast
                    out = set()
                    for n_ in _ast.walk(f_.node):
                        if isinstance(n_, _ast.Name) and isinstance(n_.ctx, _ast.Store):
                            out.add(n_.id)
                    return out - set(f_.params)
            return set()
        chk.locals_of = locals_of
        chk.firm = bool(getattr(mod, 'FIRM', False))
        mod.run(repo, chk, tier)
        from .props import hygiene
        hygiene.run(repo, chk, pid)
        if tier == 'thorough' and hasattr(mod, 'run_thorough'):
            mod.run_thorough(repo, chk)
    except AnalysisError as e:
        chk.error(f'{type(e).__name__}: {e}')
    except Exception as e:  # a traceback must never masquerade as a violation
        tb = traceback.format_exc().strip().splitlines()
        chk.error(f'checker raised {type(e).__name__}: {e} [{tb[-3].strip() if len(tb) >= 3 else ""}]')
        if os.environ.get('VERIF_DEBUG'):
            traceback.print_exc()
    if only:
        chk.obs = [o for o in chk.obs if o.oid == only]
    rc = chk.finish()
    if tier == 'thorough' and rc == 0 and not os.environ.get('VERIF_NO_SELFTEST'):
        # (a) sensitivity of the checker: hand-written breaking variants / benign twins and the seeded changes
        from selftest import workbench, automutate, twins
        jobs = int(os.environ.get('VERIF_JOBS', '16'))
        vs = workbench.catalogue(pid)
        rc2 = workbench.run(vs, jobs, quiet=True)
        # automatic benign twins of the anchored functions (renamed locals, flipped comparisons, logging, x = x + y, swapped if/else, named returns)
        n_false = twins.run([pid], jobs)
        if n_false:
            rc2 = 2
        # (b) mutation sweep over the functions the property is anchored in
        seed = int(os.environ.get('VERIF_SEED', '0') or 0)
        sw = automutate.sweep(pid, jobs=jobs, limit=int(os.environ.get('VERIF_SWEEP_LIMIT', '400')), seed=seed)
        print(f'{pid} [thorough] variants/twins/seeded: {len(vs)} checked; mutation sweep: {sw["mutants"]} mutants, {sw["killed"]} killed, {sw["inconclusive"]} inconclusive, {sw["survived"]} survived')
        path = os.environ.get('VERIF_EVIDENCE_OUT') or os.path.join(os.path.dirname(os.path.dirname(os.path.abspath(__file__))), 'evidence', f'{pid}.json')
        try:
            with open(path) as fh:
                ev = json.load(fh)
            ev['coverage']['checker_sensitivity'] = {
                'variants_twins_seeded_checked': len(vs),
                'breaking_expected_violation': sum(1 for v in vs if v['expect'] == 'violation'),
                'benign_expected_clean': sum(1 for v in vs if v['expect'] == 'clean'),
                'all_as_expected': rc2 == 0,
            }
            ev['coverage']['mutation_sweep'] = {k: sw[k] for k in ('mutants', 'killed', 'inconclusive', 'survived', 'invalid', 'error')}
            ev['coverage']['mutation_sweep']['rule'] = 'generic AST mutation operators (comparison / arithmetic / boolean flips, constant tweaks, statement deletion, forced conditions, argument swaps, keyword removal, slice bounds) on the anchored functions; killed = the static check reports a VIOLATION; survivors are equivalent / property-irrelevant edits or blind spots (listed, not gating)'
            ev['coverage']['mutation_sweep']['survivors_sample'] = sw['survivors'][:25]
            ev['coverage']['evaluations'] = ev['coverage'].get('evaluations', 0) + len(vs) + sw['mutants']
            import time as _t
            ev['wall_s'] = round(ev.get('wall_s', 0) + (_t.time() - chk.t0), 3)
            with open(path, 'w') as fh:
                json.dump(ev, fh, indent=1, default=str)
        except Exception as e:
            print(f'ANALYSIS-ERROR property={pid} could not extend the evidence file: {e}')
            return 2
        if rc2 != 0:
            print(f'ANALYSIS-ERROR property={pid} the checker failed its own sensitivity test (see output above)')
            return 2
    return rc


def main(argv=None) -> int:
    ap = argparse.ArgumentParser()
    ap.add_argument('what')
    ap.add_argument('--tier', default=os.environ.get('VERIF_TIER', 'quick'), choices=['quick', 'thorough'])
    ap.add_argument('--repo', default=os.environ.get('VERIF_REPO', '/repo'))
    ap.add_argument('--explain', default=None)
    ap.add_argument('--jobs', type=int, default=16)
    a = ap.parse_args(argv)
    what = a.what.upper() if a.what.lower() not in ('all', 'selftest') else a.what.lower()
    if what == 'selftest':
        from selftest import workbench, twins
        rc = workbench.run_all(jobs=a.jobs)
        return 2 if (twins.run(None, a.jobs) or rc) else 0
    if what == 'all':
        worst = 0
        for pid in PROPS:
            worst = max(worst, run_property(pid, a.tier, a.repo))
        return worst
    only = None
    if a.explain:
        with open(a.explain) as fh:
            only = json.load(fh).get('obligation')
    return run_property(what, a.tier, a.repo, only)


if __name__ == '__main__':
    sys.path.insert(0, os.path.dirname(os.path.dirname(os.path.abspath(__file__))))
    try:
        rc = main()
    except SystemExit:
        raise
    except Exception as e:
        print(f'ANALYSIS-ERROR checker crashed: {type(e).__name__}: {e}')
        rc = 2
    sys.exit(rc)
