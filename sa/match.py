"""Shared recognisers used by several property modules."""
from __future__ import annotations

import ast
import copy
from typing import Iterator

from .model import Func, Module, own_nodes, parents
from .terms import Canon, Scope, canon, show

LOG_HEADS = ('logger', 'logging', 'print', 'pbar', 'local_pbar', 'warnings', 'traceback')


def is_noise_stmt(s: ast.stmt) -> bool:
    """Logging, progress-bar updates, timers, `del`, docstrings: ignored by all path rules."""
    if isinstance(s, ast.Delete):
        return True
    if isinstance(s, ast.Expr):
        v = s.value
        if isinstance(v, ast.Constant):
            return True
        if isinstance(v, ast.Call):
            head = v.func
            while isinstance(head, (ast.Attribute, ast.Call)):
                head = head.value if isinstance(head, ast.Attribute) else head.func
            if isinstance(head, ast.Name) and (head.id in LOG_HEADS or head.id.endswith('pbar') or head.id.endswith('logger')):
                return True
    if isinstance(s, ast.Pass):
        return True
    # `if <pure test>: <log a message>`: the test decides nothing but whether a message is printed
    if isinstance(s, ast.If) and s.body and all(is_noise_stmt(b) and not isinstance(b, ast.Delete) for b in s.body + s.orelse) and _pure_test(s.test):
        return True
    return False


_IMPURE_METHODS = {'pop', 'popitem', 'append', 'extend', 'add', 'update', 'remove', 'discard', 'clear', 'insert', 'setdefault', 'sort', 'reverse', 'send', 'write', 'read', 'readline', 'seek', 'close',
                   'put', 'get_nowait', 'acquire', 'release', 'seed', 'shuffle', '__next__'}


def _pure_test(e: ast.AST) -> bool:
    """the expression can be evaluated without changing anything a rule cares about (no walrus, no yield / await, no call of a mutating method, no next())"""
    for x in ast.walk(e):
        if isinstance(x, (ast.NamedExpr, ast.Yield, ast.YieldFrom, ast.Await, ast.Lambda)):
            return False
        if isinstance(x, ast.Call):
            if isinstance(x.func, ast.Attribute) and x.func.attr in _IMPURE_METHODS:
                return False
            if isinstance(x.func, ast.Name) and x.func.id in ('next', 'input', 'exec', 'eval', 'setattr', 'delattr', 'open'):
                return False
    return True


def func_stmts(fn: Func) -> list[ast.stmt]:
    return [n for n in own_nodes(fn.node) if isinstance(n, ast.stmt)]


def calls(fn: Func | ast.AST, module: Module | None = None, dotted: str | tuple | None = None, attr: str | tuple | None = None, name: str | tuple | None = None) -> list[ast.Call]:
    root = fn.node if isinstance(fn, Func) else fn
    module = module or (fn.module if isinstance(fn, Func) else None)
    out = []
    it = own_nodes(root) if isinstance(fn, Func) else ast.walk(root)
    for n in it:
        if not isinstance(n, ast.Call):
            continue
        if dotted is None and attr is None and name is None:
            out.append(n)
            continue
        if dotted is not None and module is not None:
            d = module.dotted(n.func)
            if d in ((dotted,) if isinstance(dotted, str) else dotted):
                out.append(n)
                continue
        if attr is not None and isinstance(n.func, ast.Attribute) and n.func.attr in ((attr,) if isinstance(attr, str) else attr):
            out.append(n)
            continue
        if name is not None and isinstance(n.func, ast.Name) and n.func.id in ((name,) if isinstance(name, str) else name):
            out.append(n)
    out.sort(key=lambda c: (c.lineno, c.col_offset))
    return out


def arg(call: ast.Call, pos: int | None, kw: str | None = None) -> ast.AST | None:
    if kw is not None:
        for k in call.keywords:
            if k.arg == kw:
                return k.value
    if pos is not None and pos < len(call.args) and not any(isinstance(a, ast.Starred) for a in call.args[: pos + 1]):
        return call.args[pos]
    return None


def bind_args(call: ast.Call, callee: Func, skip_self: bool = False) -> dict[str, ast.AST]:
    """parameter name -> argument expression at this call site"""
    params = callee.params[1:] if skip_self else callee.params
    out = {}
    for i, a in enumerate(call.args):
        if isinstance(a, ast.Starred):
            break
        if i < len(params):
            out[params[i]] = a
    for k in call.keywords:
        if k.arg:
            out[k.arg] = k.value
        elif isinstance(k.value, ast.Dict) and k.value.keys and all(isinstance(q, ast.Constant) and isinstance(q.value, str) for q in k.value.keys):
            # f(**{'a': x, 'b': y})  (a table known entry by entry)  is  f(a=x, b=y)
            for q, v in zip(k.value.keys, k.value.values):
                out[q.value] = v
    return out


# ---------------------------------------------------------------------------
# dispatch chains (R7)
# ---------------------------------------------------------------------------

class Branch:
    def __init__(self, literals, body, test, mode):
        self.literals, self.body, self.test, self.mode = literals, body, test, mode   # mode: 'eq' | 'in' | 'contains'


def _literals_of_test(test: ast.AST, subject_pred) -> tuple[set[str], str] | None:
    """Literals selected by a test on the dispatch subject.  mode 'eq': subject == lit / subject in {lits};
    mode 'contains': lit in subject (substring test)."""
    if isinstance(test, ast.BoolOp) and isinstance(test.op, ast.Or):
        lits, modes = set(), set()
        for v in test.values:
            r = _literals_of_test(v, subject_pred)
            if r is None:
                return None
            lits |= r[0]
            modes.add(r[1])
        return (lits, modes.pop()) if len(modes) == 1 else None
    if isinstance(test, ast.Compare) and len(test.ops) == 1:
        l, op, r = test.left, test.ops[0], test.comparators[0]
        if isinstance(op, ast.Eq):
            if subject_pred(l) and isinstance(r, ast.Constant) and isinstance(r.value, str):
                return {r.value}, 'eq'
            if subject_pred(r) and isinstance(l, ast.Constant) and isinstance(l.value, str):
                return {l.value}, 'eq'
        if isinstance(op, ast.In):
            if subject_pred(l) and isinstance(r, (ast.Set, ast.List, ast.Tuple)) and all(isinstance(e, ast.Constant) and isinstance(e.value, str) for e in r.elts):
                return {e.value for e in r.elts}, 'eq'
            if subject_pred(r) and isinstance(l, ast.Constant) and isinstance(l.value, str):
                return {l.value}, 'contains'
    return None


def dispatch_chain(first_if: ast.If, subject_pred) -> tuple[list[Branch], list[ast.stmt] | None]:
    """Walk an if/elif/else chain whose tests select on one subject.  Returns (branches, else_body).
    A test that is not a recognised selection on the subject ends the chain (that `if` becomes the else body)."""
    branches = []
    cur = first_if
    while True:
        r = _literals_of_test(cur.test, subject_pred)
        if r is None:
            return branches, [cur]
        branches.append(Branch(r[0], cur.body, cur.test, r[1]))
        if len(cur.orelse) == 1 and isinstance(cur.orelse[0], ast.If):
            cur = cur.orelse[0]
            continue
        return branches, (cur.orelse or None)


def selects(branches: list[Branch], name: str) -> Branch | None:
    """First branch taken for the given subject value."""
    for b in branches:
        if b.mode == 'eq' and name in b.literals:
            return b
        if b.mode == 'contains' and any(l in name for l in b.literals):
            return b
    return None


def body_raises(body: list[ast.stmt] | None) -> bool:
    if not body:
        return False
    return any(isinstance(s, ast.Raise) for s in body)


# ---------------------------------------------------------------------------
# expected-term comparison (R15)
# ---------------------------------------------------------------------------

def expected_term(module: Module, src: str, bound: dict | None = None):
    """Canonical term of a reference expression written in the checker (oracle side)."""
    e = ast.parse(src, mode='eval').body
    return Canon(module, Scope(None), inline=False, bound=bound or {}).t(e)


def term_of(fn: Func, expr: ast.AST, bound: dict | None = None, inline=True):
    return Canon(fn.module, Scope(fn), inline=inline, bound=bound or {}).t(expr)


def param_bound(fn: Func, roles: list[str]) -> dict:
    """bind the function's positional parameters to role names: {'actual': ('role', name)}"""
    out = {}
    params = [p for p in fn.params if p != 'self']
    for p, r in zip(params, roles):
        if r:
            out[p] = ('role', r)
    return out


def role_bound(roles: list[str]) -> dict:
    return {r: ('role', r) for r in roles if r}


def enclosing(node: ast.AST, par: dict, kinds) -> list[ast.AST]:
    out = []
    cur = par.get(node)
    while cur is not None:
        if isinstance(cur, kinds):
            out.append(cur)
        cur = par.get(cur)
    return out


def stmt_of(node: ast.AST, par: dict) -> ast.stmt | None:
    cur = node
    while cur is not None and not isinstance(cur, ast.stmt):
        cur = par.get(cur)
    return cur


def returns(fn: Func) -> list[ast.Return]:
    return [n for n in own_nodes(fn.node) if isinstance(n, ast.Return)]


def assigns_to(fn: Func, name: str) -> list[ast.AST]:
    """statements (Assign/AugAssign/AnnAssign/For) that bind the local `name`"""
    out = []
    for n in own_nodes(fn.node):
        if isinstance(n, ast.Assign) and any(_binds(t, name) for t in n.targets):
            out.append(n)
        elif isinstance(n, (ast.AugAssign, ast.AnnAssign)) and _binds(n.target, name):
            out.append(n)
        elif isinstance(n, ast.For) and _binds(n.target, name):
            out.append(n)
    out.sort(key=lambda s: s.lineno)
    return out


def _binds(t, name):
    if isinstance(t, ast.Name):
        return t.id == name
    if isinstance(t, (ast.Tuple, ast.List)):
        return any(_binds(e, name) for e in t.elts)
    if isinstance(t, ast.Starred):
        return _binds(t.value, name)
    return False


def names_in(node: ast.AST) -> set[str]:
    return {n.id for n in ast.walk(node) if isinstance(n, ast.Name)}


def str_method_chain(expr: ast.AST) -> tuple[ast.AST, list[tuple[str, list[ast.AST]]]]:
    """x.a(..).b(..) -> (x, [('a', args), ('b', args)])"""
    chain = []
    cur = expr
    while isinstance(cur, ast.Call) and isinstance(cur.func, ast.Attribute):
        chain.append((cur.func.attr, list(cur.args)))
        cur = cur.func.value
    chain.reverse()
    return cur, chain


# ---------------------------------------------------------------------------
# attribute constants assigned in __init__ (E4)
# ---------------------------------------------------------------------------

class _SubstSelf(ast.NodeTransformer):
    def __init__(self, env, selfname='self'):
        self.env, self.selfname = env, selfname

    def visit_Attribute(self, node):
        if isinstance(node.value, ast.Name) and node.value.id == self.selfname and node.attr in self.env:
            return ast.copy_location(ast.Constant(self.env[node.attr]), node)
        return self.generic_visit(node)

    def visit_Name(self, node):
        if node.id in self.env and not node.id.startswith('__'):
            return ast.copy_location(ast.Constant(self.env[node.id]), node)
        return node


def fold_with(expr: ast.AST, env: dict):
    """const_value of expr after substituting self.<attr> / names from env; raises ValueError."""
    import copy
    from .model import const_value
    e = _SubstSelf(env).visit(copy.deepcopy(expr))
    return const_value(e)


def init_constants(init_fn: Func, extra_env: dict | None = None) -> dict:
    """Values of `self.X = <foldable>` assignments of a constructor, evaluated in order.
    Attributes assigned more than once or conditionally are dropped."""
    from .model import const_value
    env = dict(extra_env or {})
    seen = {}
    for s in init_fn.node.body:
        if isinstance(s, (ast.Assign, ast.AnnAssign)):
            targets = s.targets if isinstance(s, ast.Assign) else [s.target]
            for t in targets:
                if isinstance(t, ast.Attribute) and isinstance(t.value, ast.Name) and t.value.id == 'self' and s.value is not None:
                    seen[t.attr] = seen.get(t.attr, 0) + 1
                    try:
                        env[t.attr] = fold_with(s.value, env)
                    except ValueError:
                        env.pop(t.attr, None)
    # assignments elsewhere in the constructor (nested) make the constant unreliable
    for n in own_nodes(init_fn.node):
        if isinstance(n, (ast.Assign, ast.AugAssign)) and n not in init_fn.node.body:
            targets = n.targets if isinstance(n, ast.Assign) else [n.target]
            for t in targets:
                if isinstance(t, ast.Attribute) and isinstance(t.value, ast.Name) and t.value.id == 'self':
                    env.pop(t.attr, None)
    for k, c in seen.items():
        if c > 1:
            env.pop(k, None)
    return env


# ---------------------------------------------------------------------------
# who-may-write (R2): mutations of module-level stores
# ---------------------------------------------------------------------------

MUTATORS = {'update', 'clear', 'pop', 'popitem', 'setdefault', 'subtract', 'add', 'discard', 'remove', 'append', 'extend', 'insert', 'appendleft', 'sort', 'reverse', '__setitem__', '__delitem__'}


def _root_name(e):
    while isinstance(e, (ast.Subscript, ast.Attribute)):
        e = e.value
    return e.id if isinstance(e, ast.Name) else None


def local_aliases(fn: Func, names: set[str]) -> set[str]:
    """local names bound (directly) to one of `names` inside fn, e.g. ignored_values = IGNORED_VALUES"""
    out = set()
    changed = True
    while changed:
        changed = False
        for n in own_nodes(fn.node):
            if isinstance(n, ast.Assign) and len(n.targets) == 1 and isinstance(n.targets[0], ast.Name):
                v = n.value
                if isinstance(v, ast.Name) and (v.id in names or v.id in out) and n.targets[0].id not in out and n.targets[0].id not in names:
                    out.add(n.targets[0].id)
                    changed = True
                if isinstance(v, ast.Subscript) and _root_name(v) in (names | out) and n.targets[0].id not in out and n.targets[0].id not in names:
                    out.add(n.targets[0].id)
                    changed = True
                if isinstance(v, ast.BoolOp):
                    for br in v.values:
                        if isinstance(br, ast.Name) and (br.id in names or br.id in out) and n.targets[0].id not in out and n.targets[0].id not in names:
                            out.add(n.targets[0].id)
                            changed = True
                if isinstance(v, ast.IfExp):
                    for br in (v.body, v.orelse):
                        if isinstance(br, ast.Name) and (br.id in names or br.id in out) and n.targets[0].id not in out:
                            out.add(n.targets[0].id)
                            changed = True
    return out


def mutations_of(fn: Func, names: set[str]) -> list[tuple[ast.AST, str]]:
    """statements of fn that mutate an object reachable through one of `names` (or local aliases of them)"""
    al = names | local_aliases(fn, names)
    out = []
    for n in own_nodes(fn.node):
        if isinstance(n, ast.Assign):
            for t in n.targets:
                if isinstance(t, (ast.Subscript,)) and _root_name(t) in al:
                    out.append((n, 'store'))
                if isinstance(t, ast.Name) and t.id in names:
                    # rebinding a module-level name matters only with `global`
                    if any(isinstance(g, ast.Global) and t.id in g.names for g in own_nodes(fn.node)):
                        if not (isinstance(n.value, ast.Name) and n.value.id in al):
                            out.append((n, 'rebind'))
        elif isinstance(n, ast.AugAssign):
            if isinstance(n.target, ast.Subscript) and _root_name(n.target) in al:
                out.append((n, 'augstore'))
            if isinstance(n.target, ast.Name) and n.target.id in al:
                out.append((n, 'augassign'))
        elif isinstance(n, ast.Delete):
            for t in n.targets:
                if isinstance(t, ast.Subscript) and _root_name(t) in al:
                    out.append((n, 'del'))
        elif isinstance(n, ast.Call) and isinstance(n.func, ast.Attribute) and n.func.attr in MUTATORS and _root_name(n.func.value) in al:
            # d[k].add(x) mutates an element of the store; d.add(x) the store itself
            out.append((n, 'call:' + n.func.attr))
    out.sort(key=lambda x: getattr(x[0], 'lineno', 0))
    return out


def package_mutations(repo, modname: str, names: set[str]):
    """All (Func, node, kind) in the package that mutate module-level stores `names` of module `modname`
    (by their own name inside that module, or through an imported alias elsewhere)."""
    out = []
    for m in repo.modules.values():
        local = set()
        if m.name == modname:
            local = set(names)
        for alias, target in m.imports.items():
            for nm in names:
                if target == f'{modname}.{nm}':
                    local.add(alias)
        if not local:
            continue
        for f in m.funcs.values():
            for node, kind in mutations_of(f, local):
                out.append((f, node, kind))
    return out


# ---------------------------------------------------------------------------
# call graph (E1)
# ---------------------------------------------------------------------------

def callees(repo, fn: Func) -> set:
    """Package functions that fn may call: resolved names, self.method, Class(...) -> __init__, and - as an over-approximation
    for calls on objects of unknown type - every package method of that attribute name."""
    out = set()
    m = fn.module
    methods_by_name = repo.__dict__.setdefault('_methods_by_name', None)
    if methods_by_name is None:
        methods_by_name = {}
        for mod in repo.modules.values():
            for q, f in mod.funcs.items():
                if f.cls is not None:
                    methods_by_name.setdefault(f.name, []).append(f)
        repo._methods_by_name = methods_by_name
    for n in ast.walk(fn.node):
        if not isinstance(n, ast.Call):
            continue
        d = m.dotted(n.func)
        tgt = repo.find_func(d) if d else None
        if tgt is not None:
            out.add(tgt)
            continue
        # class constructor
        if d:
            parts = d.split('.')
            for i in range(len(parts) - 1, 0, -1):
                mn = '.'.join(parts[:i])
                if mn in repo.modules and parts[i] in repo.modules[mn].classes:
                    init = repo.modules[mn].funcs.get(parts[i] + '.__init__')
                    if init is not None:
                        out.add(init)
                    break
        if isinstance(n.func, ast.Name):
            # local closure / nested def
            q = fn.qualname + '.' + n.func.id
            if q in m.funcs:
                out.add(m.funcs[q])
            elif n.func.id in m.funcs:
                out.add(m.funcs[n.func.id])
        if isinstance(n.func, ast.Attribute):
            if isinstance(n.func.value, ast.Name) and n.func.value.id == 'self' and fn.cls is not None:
                q = fn.cls.name + '.' + n.func.attr
                if q in m.funcs:
                    out.add(m.funcs[q])
                    continue
            if isinstance(n.func.value, ast.Name) and n.func.value.id in m.classes:
                q = n.func.value.id + '.' + n.func.attr
                if q in m.funcs:
                    out.add(m.funcs[q])
                    continue
            if m.dotted(n.func.value) and not repo.find_func(m.dotted(n.func.value)) and (m.dotted(n.func.value) or '').split('.')[0] in m.imports and not (m.imports.get((m.dotted(n.func.value) or '').split('.')[0], '').startswith('outrank')):
                continue   # library call
            for f in methods_by_name.get(n.func.attr, []):
                if n.func.attr not in ('get', 'items', 'keys', 'values', 'copy', 'append', 'update', 'split', 'join', 'format', 'strip', 'replace', 'count', 'astype', 'tolist'):
                    out.add(f)
        # functions passed as arguments (pool.amap(f, ...))
        for a in n.args:
            if isinstance(a, ast.Name):
                q = fn.qualname + '.' + a.id
                if q in m.funcs:
                    out.add(m.funcs[q])
                elif a.id in m.funcs and a.id not in {p for p in fn.params}:
                    out.add(m.funcs[a.id])
    return out


def reachable_funcs(repo, roots) -> list:
    seen = []
    stack = list(roots)
    ids = set()
    while stack:
        f = stack.pop()
        if id(f) in ids:
            continue
        ids.add(id(f))
        seen.append(f)
        stack.extend(callees(repo, f))
    return seen


def import_closure(repo, root_mod: str) -> set:
    """package modules imported unconditionally (top-level statements, not under try/if/def) starting from root_mod"""
    seen = set()
    stack = [root_mod]
    while stack:
        mn = stack.pop()
        if mn in seen or mn not in repo.modules:
            continue
        seen.add(mn)
        m = repo.modules[mn]
        # parent packages are imported too
        parts = mn.split('.')
        for i in range(1, len(parts)):
            stack.append('.'.join(parts[:i]))
        for s in m.tree.body:
            targets = []
            if isinstance(s, ast.Import):
                targets = [a.name for a in s.names]
            elif isinstance(s, ast.ImportFrom) and s.module:
                targets = [s.module] + [f'{s.module}.{a.name}' for a in s.names]
            for t in targets:
                if t in repo.modules:
                    stack.append(t)
    return seen


# ---------------------------------------------------------------------------
# path evaluation of a dispatch function for one concrete subject value (R7, shape independent)
# ---------------------------------------------------------------------------

def _free_names(node) -> set:
    """names read in `node` that are not bound by a comprehension / lambda inside it"""
    out = set()

    def walk(n, bound):
        if isinstance(n, ast.Name):
            if n.id not in bound:
                out.add(n.id)
            return
        if isinstance(n, (ast.ListComp, ast.SetComp, ast.GeneratorExp, ast.DictComp)):
            b = set(bound)
            for i, g in enumerate(n.generators):
                walk(g.iter, b if i else bound)
                b |= {x.id for x in ast.walk(g.target) if isinstance(x, ast.Name)}
                for c in g.ifs:
                    walk(c, b)
            if isinstance(n, ast.DictComp):
                walk(n.key, b)
                walk(n.value, b)
            else:
                walk(n.elt, b)
            return
        if isinstance(n, ast.Lambda):
            b = bound | {a.arg for a in n.args.posonlyargs + n.args.args + n.args.kwonlyargs}
            walk(n.body, b)
            return
        for c in ast.iter_child_nodes(n):
            walk(c, bound)
    walk(node, set())
    return out


class _Subst(ast.NodeTransformer):
    def __init__(self, env):
        self.env = env

    def visit_Name(self, node):
        if isinstance(node.ctx, ast.Load) and node.id in self.env and self.env[node.id] is not None:
            return copy.deepcopy(self.env[node.id])
        return node

    def visit_Lambda(self, node):
        params = {a.arg for a in node.args.posonlyargs + node.args.args + node.args.kwonlyargs}
        inner = _Subst({k: v for k, v in self.env.items() if k not in params})
        node.body = inner.visit(node.body)
        return node

    def _comp(self, node):
        # names bound by the comprehension shadow the environment; a binder that occurs free in a value about to be substituted is renamed first
        bound = {x.id for g in node.generators for x in ast.walk(g.target) if isinstance(x, ast.Name)}
        used = {x.id for x in ast.walk(node) if isinstance(x, ast.Name) and isinstance(x.ctx, ast.Load)} - bound
        incoming = set()
        for k in used:
            v = self.env.get(k)
            if v is not None:
                incoming |= _free_names(v)
        clash = bound & incoming
        if clash:
            taken = {x.id for x in ast.walk(node) if isinstance(x, ast.Name)} | incoming
            ren = {}
            for b in sorted(clash):
                nb = b + '__r'
                while nb in taken:
                    nb += 'r'
                ren[b] = nb
                taken.add(nb)
            for x in ast.walk(node):
                if isinstance(x, ast.Name) and x.id in ren:
                    x.id = ren[x.id]
            bound = {ren.get(b, b) for b in bound}
        inner = _Subst({k: v for k, v in self.env.items() if k not in bound})
        # the first iterable is evaluated outside the comprehension's scope, everything else inside
        node.generators[0].iter = self.visit(node.generators[0].iter)
        for i, g in enumerate(node.generators):
            if i:
                g.iter = inner.visit(g.iter)
            g.ifs = [inner.visit(c) for c in g.ifs]
        if isinstance(node, ast.DictComp):
            node.key, node.value = inner.visit(node.key), inner.visit(node.value)
        else:
            node.elt = inner.visit(node.elt)
        return node

    visit_ListComp = visit_SetComp = visit_GeneratorExp = visit_DictComp = _comp


def _collection_literals(e, module):
    """python set of str constants for a literal collection / frozenset(literal) / module-level name bound to one; else None"""
    if isinstance(e, (ast.Set, ast.List, ast.Tuple)) and all(isinstance(x, ast.Constant) for x in e.elts):
        return {x.value for x in e.elts}
    if isinstance(e, ast.Call) and isinstance(e.func, ast.Name) and e.func.id in ('frozenset', 'set', 'tuple', 'list') and len(e.args) == 1 and not e.keywords:
        return _collection_literals(e.args[0], module)
    if isinstance(e, ast.Name) and module is not None:
        vals = module.assigns.get(e.id) or []
        if len(vals) == 1 and not module.rebinds_global(e.id):
            return _collection_literals(vals[0], module)
    if isinstance(e, ast.Dict) and all(isinstance(k, ast.Constant) for k in e.keys):
        return {k.value for k in e.keys}
    return None


class _Table:
    """a module-level dispatch table seen from a path: values are evaluated on demand"""

    def __init__(self, table, pe):
        self.table, self.pe = table, pe

    def __contains__(self, k):
        return k in self.table

    def __getitem__(self, k):
        v = self.table[k]
        try:
            return self.pe.const(v)
        except KeyError:
            if isinstance(v, ast.Call):
                return FnVal(v)        # e.g. functools.partial(g, k=k): a function value given by an expression
            raise

    def __bool__(self):
        return bool(self.table)

    def __len__(self):
        return len(self.table)


class FnVal:
    """a function value known on the path: a lambda, or a name bound to a function of the module / an import"""

    def __init__(self, node):
        self.node = node

    def __eq__(self, other):
        return isinstance(other, FnVal) and ast.dump(self.node) == ast.dump(other.node)

    def __hash__(self):
        return hash(ast.dump(self.node))


def module_dict(name: str, module) -> dict | None:
    """{concrete key: value node} of a module-level dispatch table: a dict literal (with `**{k: v for k in CONST}` / `**OTHER` parts) bound once at
    module level, extended only by module-level `NAME.update({...})`, `NAME.update(dict.fromkeys(CONST, v))` or `NAME[const] = v`; None when the
    name is anything else or some function mutates it"""
    cache = module.__dict__.setdefault('_module_dicts', {})
    if name in cache:
        return cache[name]
    cache[name] = None
    vals = module.assigns.get(name) or []
    if len(vals) != 1 or module.rebinds_global(name):
        return None

    def literal(e):
        if isinstance(e, ast.Name) and e.id != name:
            return module_dict(e.id, module)
        if isinstance(e, ast.DictComp) and len(e.generators) == 1 and not e.generators[0].ifs and isinstance(e.generators[0].target, ast.Name):
            keys = _ordered_literals(e.generators[0].iter, module)
            if keys is None:
                return None
            out = {}
            var = e.generators[0].target.id
            for k in keys:
                kn = _Subst({var: ast.Constant(k)}).visit(copy.deepcopy(e.key))
                if not isinstance(kn, ast.Constant):
                    return None
                out[kn.value] = _Subst({var: ast.Constant(k)}).visit(copy.deepcopy(e.value))
            return out
        if isinstance(e, ast.Call) and isinstance(e.func, ast.Attribute) and e.func.attr == 'fromkeys' and isinstance(e.func.value, ast.Name) and e.func.value.id == 'dict' and 1 <= len(e.args) <= 2 and not e.keywords:
            keys = _ordered_literals(e.args[0], module)
            if keys is None:
                return None
            return {k: (e.args[1] if len(e.args) == 2 else ast.Constant(None)) for k in keys}
        if isinstance(e, ast.Call) and isinstance(e.func, ast.Name) and e.func.id == 'dict' and len(e.args) <= 1 and all(k.arg for k in e.keywords):
            out = {}
            if e.args:
                base = literal(e.args[0])
                if base is None:
                    return None
                out.update(base)
            out.update({k.arg: k.value for k in e.keywords})
            return out
        if not isinstance(e, ast.Dict):
            return None
        out = {}
        for k, v in zip(e.keys, e.values):
            if k is None:
                part = literal(v)
                if part is None:
                    return None
                out.update(part)
            elif isinstance(k, ast.Constant):
                out[k.value] = v
            else:
                return None
        return out
    table = literal(vals[0])
    if table is None:
        return None
    # extensions at module level, in order; any other mutation anywhere makes the table unknown
    top = set()
    for st in module.tree.body:
        if isinstance(st, ast.Expr) and isinstance(st.value, ast.Call) and isinstance(st.value.func, ast.Attribute) and isinstance(st.value.func.value, ast.Name) and st.value.func.value.id == name:
            c = st.value
            if c.func.attr == 'update' and len(c.args) == 1 and not c.keywords:
                part = literal(c.args[0])
                if part is None:
                    return None
                table.update(part)
                top.add(c)
                continue
            return None
        if isinstance(st, ast.Assign) and len(st.targets) == 1 and isinstance(st.targets[0], ast.Subscript) and isinstance(st.targets[0].value, ast.Name) and st.targets[0].value.id == name:
            if isinstance(st.targets[0].slice, ast.Constant):
                table[st.targets[0].slice.value] = st.value
                top.add(st.targets[0])
                continue
            return None
    for n in ast.walk(module.tree):
        if isinstance(n, ast.Call) and isinstance(n.func, ast.Attribute) and isinstance(n.func.value, ast.Name) and n.func.value.id == name and n not in top \
                and n.func.attr in ('update', 'pop', 'popitem', 'setdefault', 'clear', '__setitem__', '__delitem__'):
            return None
        if isinstance(n, ast.Subscript) and isinstance(n.value, ast.Name) and n.value.id == name and isinstance(n.ctx, (ast.Store, ast.Del)) and n not in top:
            return None
    cache[name] = table
    return table


def _ordered_literals(e, module):
    """list of constants of a literal collection / module-level name bound to one (iteration order is irrelevant for a table of keys)"""
    c = _collection_literals(e, module)
    return sorted(c, key=repr) if c is not None else None


class _Beta(ast.NodeTransformer):
    """calls of a function value that is known on the path: a lambda is applied by substitution, a named function is called by its name"""

    def __init__(self, pe):
        self.pe = pe

    def visit_Call(self, node):
        self.generic_visit(node)
        f = node.func
        if isinstance(f, (ast.Name, ast.Attribute)):
            return node
        fv = None
        # functools.partial(g, a, k=v)(x)   is   g(a, x, k=v)
        if isinstance(f, ast.Call) and (self.pe.m.dotted(f.func) or '') in ('functools.partial', 'partial') and f.args and not any(isinstance(x, ast.Starred) for x in f.args) and all(k.arg for k in f.keywords):
            merged = ast.Call(func=copy.deepcopy(f.args[0]), args=[copy.deepcopy(x) for x in f.args[1:]] + node.args, keywords=[copy.deepcopy(k) for k in f.keywords if k.arg not in {q.arg for q in node.keywords}] + node.keywords)
            return self.visit_Call(ast.copy_location(merged, node)) if not isinstance(merged.func, (ast.Name, ast.Attribute)) else ast.copy_location(merged, node)
        if isinstance(f, ast.Lambda):
            fv = FnVal(f)
        elif isinstance(f, (ast.Call, ast.Subscript)):
            try:
                fv = self.pe.const(f)
            except (KeyError, TypeError):
                return node
        if not isinstance(fv, FnVal):
            return node
        if isinstance(fv.node, ast.Lambda):
            a = fv.node.args
            if a.vararg or a.kwarg or a.kwonlyargs or a.defaults or a.posonlyargs or node.keywords or len(a.args) != len(node.args) or any(isinstance(x, ast.Starred) for x in node.args):
                return node
            return _Subst({p.arg: v for p, v in zip(a.args, node.args)}).visit(copy.deepcopy(fv.node.body))
        # a helper of the module that the confirmed tree did not have and that is one returned expression over its parameters
        # (def _score_constant(a, b, args): return 0.0) is applied like a lambda
        if isinstance(fv.node, ast.Name) and fv.node.id in self.pe.m.funcs:
            hf = self.pe.m.funcs[fv.node.id]
            base = getattr(self.pe.m.repo, 'baseline', None) or {}
            if fv.node.id not in base.get(self.pe.m.name, set()):
                body = [b for b in hf.node.body if not (isinstance(b, ast.Expr) and isinstance(b.value, ast.Constant))]
                a = hf.node.args
                if len(body) == 1 and isinstance(body[0], ast.Return) and body[0].value is not None and not (a.vararg or a.kwarg or a.kwonlyargs or a.posonlyargs) \
                        and not any(isinstance(x, ast.Starred) for x in node.args):
                    names = [p.arg for p in a.args]
                    bound = dict(zip(names, node.args))
                    for k in node.keywords:
                        if k.arg in names and k.arg not in bound:
                            bound[k.arg] = k.value
                    dflt = dict(zip(names[len(names) - len(a.defaults):], a.defaults))
                    for n_ in names:
                        if n_ not in bound and n_ in dflt:
                            bound[n_] = dflt[n_]
                    if set(bound) == set(names):
                        return self.visit(_Subst({k: copy.deepcopy(v) for k, v in bound.items()}).visit(copy.deepcopy(body[0].value)))
        node.func = copy.deepcopy(fv.node)
        if isinstance(node.func, (ast.Call, ast.Lambda)) and not getattr(node, '_beta_again', False):
            node._beta_again = True
            return self.visit_Call(node)       # e.g. a table entry functools.partial(g, k=k): now applied
        return node


class PathResult:
    def __init__(self):
        self.returned = None        # ast expression with the path's assignments substituted, or None
        self.raised = None          # ast.Raise reached
        self.unknown = None         # node at which the path could not be decided
        self.effects = []           # non-noise expression statements / opaque statements executed on the path
        self.tests = []             # (test node, truth) decided on the path
        self.fell_off = False
        self.inplace_folds = []     # (accumulator, loop) of accumulations done in place (acc += ...)
        self.memo_calls = []        # (callee, cache expression) of memoising helpers that were evaluated through their cache
        self.tries = []             # try statements entered on the path
        self.calls = []             # expression statements that are calls, substituted: dict(call, seq, node)
        self.ended = None           # 'return' | 'raise' | 'continue' | 'break' | None (fell off the end)
        self.updates = []           # keyed stores into containers: dict(kind='storeall'|'incall'|'store1'|'inc1', target, over, key, value, node), expressions substituted
        self.unknown_test = None    # the undecided test expression (of an if statement or a conditional expression)
        self.assumed = []           # (test with the path's assignments substituted, assumed truth) for tests forked on
        self.env_at_stop = None     # environment at the statement that contains `stop_at`
        self.stopped = None
        self.env = None


class PathEval:
    """Run the body of `fn` for one concrete string value of its dispatch subject.  Everything else stays symbolic: assignments to
    plain names are substituted eagerly (so the returned expression is written over the parameters), tests that depend only on the
    subject are decided, any other test stops the evaluation as unknown unless `other_tests` decides it."""

    def __init__(self, fn: Func, subject_pred, value, other_tests=None, stop_at=None):
        self.fn, self.pred, self.value, self.other = fn, subject_pred or (lambda e: False), value, other_tests
        self.m = fn.module
        self.env = {}
        self.stop_at = stop_at
        self.local_funcs = {}
        self._fissioned = {}

    # -- tests ---------------------------------------------------------------
    def const(self, e):
        """concrete python value of e on this path, or raise KeyError"""
        # a name bound to an expression over itself (line = line.strip() on a loop variable) has no concrete value: stop instead of unfolding for ever
        d_ = getattr(self, '_const_depth', 0)
        if d_ > 60:
            raise KeyError('self-referential binding')
        self._const_depth = d_ + 1
        try:
            return self._const(e)
        finally:
            self._const_depth = d_

    def _const(self, e):
        if isinstance(e, ast.Constant):
            return e.value
        if self.pred(e):
            return self.value
        if isinstance(e, ast.Name) and e.id in self.env and isinstance(self.env[e.id], ast.Dict) and self.env[e.id].keys and all(isinstance(k, ast.Constant) for k in self.env[e.id].keys) \
                and not any(nm == e.id and sq > getattr(self.env[e.id], '_seq', -1) for sq, nm in getattr(self, '_mut_log', [])):
            # a local dispatch table (dict literal with constant keys) that nothing has written to since it was built
            return _Table({k.value: v for k, v in zip(self.env[e.id].keys, self.env[e.id].values)}, self)
        if isinstance(e, ast.Dict) and e.keys and all(isinstance(k, ast.Constant) for k in e.keys):
            return _Table({k.value: v for k, v in zip(e.keys, e.values)}, self)
        if isinstance(e, ast.Name) and e.id in self.env and self.env[e.id] is not None and not (isinstance(self.env[e.id], ast.Name) and self.env[e.id].id == e.id):
            if isinstance(self.env[e.id], (ast.Dict, ast.List, ast.Set, ast.ListComp, ast.DictComp, ast.SetComp)) or (isinstance(self.env[e.id], ast.Call) and isinstance(self.env[e.id].func, ast.Name) and self.env[e.id].func.id in ('dict', 'list', 'set', 'defaultdict', 'Counter', 'deque')):
                raise KeyError(e.id)      # a local mutable container: its contents at this point are not its initial contents
            return self.const(self.env[e.id])
        if isinstance(e, ast.Name):
            vals = self.m.assigns.get(e.id) or []
            if len(vals) == 1 and isinstance(vals[0], ast.Constant) and not self.m.rebinds_global(e.id):
                return vals[0].value
        if isinstance(e, ast.Lambda):
            return FnVal(e)
        local = set(self.env) | set(self.fn.params)
        if isinstance(e, ast.Name) and e.id in ('sum', 'min', 'max', 'len', 'sorted', 'any', 'all', 'abs', 'list', 'tuple', 'set', 'str', 'int', 'float') and e.id not in local and e.id not in self.m.funcs and e.id not in self.m.assigns:
            return FnVal(e)      # a builtin used as a value
        if isinstance(e, ast.Name) and (e.id in self.m.funcs or e.id in self.m.imports) and e.id not in local:
            return FnVal(e)
        if isinstance(e, ast.Attribute) and isinstance(e.value, ast.Name) and e.value.id in self.m.imports and e.value.id not in local:
            return FnVal(e)
        if isinstance(e, ast.Name) and e.id not in local:
            table = module_dict(e.id, self.m)
            if table is not None:
                return _Table(table, self)
        coll = _collection_literals(e, self.m)
        if coll is not None:
            return coll
        if isinstance(e, ast.Call) and isinstance(e.func, ast.Attribute) and not e.keywords and e.func.attr == 'get' and 1 <= len(e.args) <= 2:
            base = self.const(e.func.value)
            if isinstance(base, _Table):
                k = self.const(e.args[0])
                if k in base.table:
                    return base[k]
                return self.const(e.args[1]) if len(e.args) == 2 else None
        # next((v for k, v in TABLE.items() if <test of k>), default): the first entry of a known table whose (decidable) test holds
        if isinstance(e, ast.Call) and isinstance(e.func, ast.Name) and e.func.id == 'next' and 1 <= len(e.args) <= 2 and not e.keywords and isinstance(e.args[0], ast.GeneratorExp) \
                and len(e.args[0].generators) == 1:
            g = e.args[0].generators[0]
            it = g.iter
            items = None
            if isinstance(it, ast.Call) and isinstance(it.func, ast.Attribute) and it.func.attr == 'items' and not it.args:
                base = self.const(it.func.value)
                if isinstance(base, _Table) and isinstance(g.target, ast.Tuple) and len(g.target.elts) == 2 and all(isinstance(x, ast.Name) for x in g.target.elts):
                    items = [({g.target.elts[0].id: ast.Constant(k), g.target.elts[1].id: v}) for k, v in base.table.items()]
            if items is not None:
                for binding in items:
                    ok = True
                    for cond in g.ifs:
                        c = _Subst({k_: copy.deepcopy(v_) for k_, v_ in binding.items()}).visit(copy.deepcopy(cond))
                        saved_other, saved_und = self.other, getattr(self, '_undecided', None)
                        self.other = None
                        try:
                            d = self.truth(c)
                        finally:
                            self.other, self._undecided = saved_other, saved_und
                        if d is None:
                            raise KeyError(ast.unparse(e))
                        ok = ok and d
                    if ok:
                        elt = _Subst({k_: copy.deepcopy(v_) for k_, v_ in binding.items()}).visit(copy.deepcopy(e.args[0].elt))
                        return self.const(elt)
                if len(e.args) == 2:
                    return self.const(e.args[1])
                raise KeyError(ast.unparse(e))
        if isinstance(e, ast.Call) and isinstance(e.func, ast.Attribute) and not e.keywords:
            base = self.const(e.func.value)
            args = [self.const(a) for a in e.args]
            if isinstance(base, str) and e.func.attr in ('find', 'startswith', 'endswith', 'lower', 'upper', 'strip', 'count', 'index', 'split', 'partition', 'rpartition', 'replace', 'rfind', 'casefold'):
                try:
                    return getattr(base, e.func.attr)(*args)
                except Exception:
                    raise KeyError(ast.unparse(e))
        if isinstance(e, ast.Subscript):
            base, idx = self.const(e.value), self.const(e.slice)
            try:
                return base[idx]
            except Exception:
                raise KeyError(ast.unparse(e))
        if isinstance(e, ast.UnaryOp) and isinstance(e.op, ast.USub):
            return -self.const(e.operand)
        raise KeyError(ast.unparse(e))

    def truth(self, t):
        if isinstance(t, ast.BoolOp):
            # short-circuit evaluation, left to right; the first undecidable operand makes the whole test undecided
            for v in t.values:
                r = self.truth(v)
                if r is None:
                    return None
                if isinstance(t.op, ast.And) and r is False:
                    return False
                if isinstance(t.op, ast.Or) and r is True:
                    return True
            return isinstance(t.op, ast.And)
        if isinstance(t, ast.UnaryOp) and isinstance(t.op, ast.Not):
            v = self.truth(t.operand)
            return None if v is None else (not v)
        if isinstance(t, ast.Compare):
            try:
                left = self.const(t.left)
                res = True
                for op, right in zip(t.ops, t.comparators):
                    r = self.const(right)
                    fn = {ast.Eq: lambda a, b: a == b, ast.NotEq: lambda a, b: a != b, ast.In: lambda a, b: a in b, ast.NotIn: lambda a, b: a not in b, ast.Lt: lambda a, b: a < b,
                          ast.LtE: lambda a, b: a <= b, ast.Gt: lambda a, b: a > b, ast.GtE: lambda a, b: a >= b, ast.Is: lambda a, b: a is b, ast.IsNot: lambda a, b: a is not b}.get(type(op))
                    if fn is None:
                        return None
                    res = res and bool(fn(left, r))
                    left = r
                return res
            except (KeyError, TypeError):
                pass
        else:
            try:
                return bool(self.const(t))
            except (KeyError, TypeError):
                pass
        if self.other is not None:
            # the same condition assumed earlier on this path (e.g. a flag bound to a name and tested twice) keeps its truth, provided
            # nothing it reads was written in between
            st = self.subst(t)
            key = ast.dump(st)
            names = {x.id for x in ast.walk(st) if isinstance(x, ast.Name)}
            for k0, v0, seq0 in getattr(self, '_assumed_keys', []):
                if k0 == key and not any(sq > seq0 and nm in names for sq, nm in getattr(self, '_mut_log', [])):
                    return v0
            v = self.other(t, self)
            if v is not None:
                self.res.assumed.append((st, v))
                if not hasattr(self, '_assumed_keys'):
                    self._assumed_keys = []
                self._assumed_keys.append((key, v, getattr(self, 'seq', 0)))
                return v
        if getattr(self, '_undecided', None) is None:
            self._undecided = t        # the first atomic test of this statement that could not be decided
        return None

    # -- statements ----------------------------------------------------------
    def subst(self, e):
        out = _Subst(self.env).visit(copy.deepcopy(e))
        if any(isinstance(c, ast.Call) and not isinstance(c.func, (ast.Name, ast.Attribute)) for c in ast.walk(out)):
            out = _Beta(self).visit(out)
        if any(isinstance(c, ast.IfExp) for c in ast.walk(out)):
            out = self._fold_ifexp(out)
        return ast.fix_missing_locations(out)

    def _fold_ifexp(self, e):
        """conditional expressions whose test is decided by the concrete subject / constants alone (no assumption needed) are their chosen arm"""
        pe = self

        class F(ast.NodeTransformer):
            def visit_IfExp(fself, node):
                saved_other, saved_und = pe.other, getattr(pe, '_undecided', None)
                pe.other = None
                try:
                    v = pe.truth(node.test)
                finally:
                    pe.other, pe._undecided = saved_other, saved_und
                if v is None:
                    return fself.generic_visit(node)
                return fself.visit(node.body if v else node.orelse)

            def visit_Lambda(fself, node):
                return node
        return F().visit(e)

    def _append_loop(self, s: ast.For) -> bool:
        """acc = []; for T in IT: [temps]; acc.append(E1); acc.append(E2)   ->   acc = [x for T in IT for x in (E1, E2)]
        (a single, possibly guarded, append gives [E1 for T in IT if guard]);  `X = acc` inside the loop is the same binding after it."""
        tnames = {x.id for x in ast.walk(s.target) if isinstance(x, ast.Name)}
        saved = {k: self.env[k] for k in tnames if k in self.env}
        outer = dict(self.env)
        for k in tnames:
            self.env.pop(k, None)
        it = self.subst(s.iter)
        local = {}
        appends = []      # (acc name, expr, guard[, inner generators])
        aliases = []
        gens_stack = []   # inner `for` loops around the append: further generators of the comprehension

        def sub(e):
            return ast.fix_missing_locations(_Subst({**self.env, **local}).visit(copy.deepcopy(e)))

        def walk(body, guard):
            for b in body:
                if is_noise_stmt(b) or isinstance(b, ast.Pass):
                    continue
                if isinstance(b, ast.Assign) and len(b.targets) == 1 and isinstance(b.targets[0], ast.Name):
                    if isinstance(b.value, ast.Name) and any(a[0] == b.value.id for a in appends) and guard is None:
                        aliases.append((b.targets[0].id, b.value.id))
                        continue
                    if guard is not None and b.targets[0].id in local:
                        return False
                    local[b.targets[0].id] = sub(b.value)       # (a temporary first bound under the guard is only used under it)
                    continue
                if isinstance(b, ast.Assign) and len(b.targets) == 1 and isinstance(b.targets[0], ast.Tuple) and all(isinstance(x, ast.Name) for x in b.targets[0].elts) and guard is None:
                    v = sub(b.value)
                    for i, x in enumerate(b.targets[0].elts):
                        local[x.id] = v.elts[i] if isinstance(v, ast.Tuple) and len(v.elts) == len(b.targets[0].elts) else ast.fix_missing_locations(ast.Subscript(value=copy.deepcopy(v), slice=ast.Constant(i), ctx=ast.Load()))
                    continue
                if isinstance(b, ast.Expr) and isinstance(b.value, ast.Call) and isinstance(b.value.func, ast.Attribute) and b.value.func.attr == 'append' and isinstance(b.value.func.value, ast.Name) and len(b.value.args) == 1:
                    appends.append((b.value.func.value.id, sub(b.value.args[0]), guard, tuple(gens_stack)))
                    continue
                if isinstance(b, ast.For) and not b.orelse and guard is None and all(isinstance(x, ast.Name) for x in (b.target.elts if isinstance(b.target, (ast.Tuple, ast.List)) else [b.target])):
                    # a nested loop around the append: one more generator
                    inner_names = [x.id for x in ast.walk(b.target) if isinstance(x, ast.Name)]
                    hidden = {k: local.pop(k) for k in inner_names if k in local}
                    shadow = {k: self.env.pop(k) for k in inner_names if k in self.env}
                    gens_stack.append((copy.deepcopy(b.target), sub(b.iter)))
                    n0 = len(appends)
                    ok_in = walk(b.body, None)
                    gens_stack.pop()
                    local.update(hidden)
                    self.env.update(shadow)
                    if not ok_in or len(appends) == n0:
                        return False
                    continue
                # acc.extend((E1, E2)) / acc += [E1, E2]: the literal's items appended in order
                lit = None
                if isinstance(b, ast.Expr) and isinstance(b.value, ast.Call) and isinstance(b.value.func, ast.Attribute) and b.value.func.attr == 'extend' and isinstance(b.value.func.value, ast.Name) and len(b.value.args) == 1 and not b.value.keywords:
                    lit, accn = b.value.args[0], b.value.func.value.id
                elif isinstance(b, ast.AugAssign) and isinstance(b.op, ast.Add) and isinstance(b.target, ast.Name):
                    lit, accn = b.value, b.target.id
                if lit is not None and isinstance(lit, (ast.Tuple, ast.List)) and lit.elts and not any(isinstance(x, ast.Starred) for x in lit.elts):
                    for x in lit.elts:
                        appends.append((accn, sub(x), guard, tuple(gens_stack)))
                    continue
                if isinstance(b, ast.If) and guard is None:
                    # a test decided on this path (concrete subject / constants): only the taken branch exists
                    saved_other, saved_und = self.other, getattr(self, '_undecided', None)
                    self.other = None
                    try:
                        tv = self.truth(sub(b.test))
                    finally:
                        self.other, self._undecided = saved_other, saved_und
                    if tv is not None:
                        if not walk(b.body if tv else b.orelse, guard):
                            return False
                        continue
                if isinstance(b, ast.If) and not b.orelse and guard is None:
                    before = set(local)
                    if not walk(b.body, sub(b.test)):
                        return False
                    for k in set(local) - before:
                        del local[k]          # bound under the guard only: not a value after it
                    continue
                if isinstance(b, ast.If) and guard is None and len(b.body) == 1 and len(b.orelse) == 1:
                    # if c: acc.append(A) else: acc.append(B)   ->   acc.append(A if c else B)
                    def one(st):
                        if isinstance(st, ast.Expr) and isinstance(st.value, ast.Call) and isinstance(st.value.func, ast.Attribute) and st.value.func.attr == 'append' and isinstance(st.value.func.value, ast.Name) and len(st.value.args) == 1 and not st.value.keywords:
                            return st.value.func.value.id, st.value.args[0]
                        return None
                    x1, x2 = one(b.body[0]), one(b.orelse[0])
                    if x1 and x2 and x1[0] == x2[0]:
                        appends.append((x1[0], ast.fix_missing_locations(ast.IfExp(test=sub(b.test), body=sub(x1[1]), orelse=sub(x2[1]))), None, tuple(gens_stack)))
                        continue
                return False
            return True
        ok = walk(s.body, None)
        accs = {a[0] for a in appends}
        if ok and len(accs) == 1:
            acc = accs.pop()
            cur = outer.get(acc)
            empty = isinstance(cur, ast.List) and not cur.elts or (isinstance(cur, ast.Call) and isinstance(cur.func, ast.Name) and cur.func.id == 'list' and not cur.args)
            guards = [a[2] for a in appends]
            inner = [a[3] if len(a) > 3 else () for a in appends]
            if any(inner) and not (len(appends) == 1):
                empty = False      # several appends at different loop depths: not one comprehension
            if empty and all(al[1] == acc for al in aliases):
                tgt = copy.deepcopy(s.target)
                if len(appends) == 1 and inner[0]:
                    gens = [ast.comprehension(target=tgt, iter=it, ifs=[], is_async=0)] + [ast.comprehension(target=t_, iter=i_, ifs=[], is_async=0) for t_, i_ in inner[0]]
                    if guards[0] is not None:
                        gens[-1].ifs = [guards[0]]
                    comp = ast.ListComp(elt=appends[0][1], generators=gens)
                elif len(appends) > 1 and any(g is not None for g in guards):
                    # some of several appends are conditional: kept as an explicit marker, no rule accepts it as a plain flat-map
                    items = [ast.Tuple([a_[2] if a_[2] is not None else ast.Constant(True), a_[1]], ast.Load()) for a_ in appends]
                    comp = ast.ListComp(elt=ast.Name('__flat', ast.Load()), generators=[ast.comprehension(target=tgt, iter=it, ifs=[], is_async=0),
                                                                                      ast.comprehension(target=ast.Name('__flat', ast.Store()), iter=ast.Call(func=ast.Name('__guarded_items__', ast.Load()), args=items, keywords=[]), ifs=[], is_async=0)])
                elif len(appends) == 1:
                    comp = ast.ListComp(elt=appends[0][1], generators=[ast.comprehension(target=tgt, iter=it, ifs=[guards[0]] if guards[0] is not None else [], is_async=0)])
                else:
                    comp = ast.ListComp(elt=ast.Name('__flat', ast.Load()), generators=[ast.comprehension(target=tgt, iter=it, ifs=[], is_async=0),
                                                                                      ast.comprehension(target=ast.Name('__flat', ast.Store()), iter=ast.Tuple([a[1] for a in appends], ast.Load()), ifs=[], is_async=0)])
                self.env.clear()
                self.env.update(outer)
                self.env[acc] = ast.fix_missing_locations(comp)
                for al, _ in aliases:
                    self.env[al] = self.env[acc]
                for k in tnames:
                    self.env[k] = None
                return True
        self.env.clear()
        self.env.update(outer)
        return False

    def _argmax_loop(self, s: ast.For) -> bool:
        """top = T0; best = B0; for f in CANDS: <compute v(f)>; if v > top: top = v; best = f
           ->  best = __argmax__(v(f) for f in CANDS, start=T0, strict=True)   (first maximal element in iteration order; `>=` gives strict=False)
        The statements that compute v(f) are evaluated by the path evaluator itself (inner loops summarised, decidable tests decided)."""
        if not isinstance(s.target, ast.Name):
            return False
        f = s.target.id
        body = [b for b in s.body if not is_noise_stmt(b) and not isinstance(b, ast.Pass)]
        if not body or not isinstance(body[-1], ast.If) or body[-1].orelse:
            return False
        u = body[-1]
        unset = None
        utest = u.test
        if isinstance(utest, ast.BoolOp) and isinstance(utest.op, ast.Or) and len(utest.values) == 2 and isinstance(utest.values[1], ast.Compare):
            first = utest.values[0]
            if isinstance(first, ast.UnaryOp) and isinstance(first.op, ast.Not) and isinstance(first.operand, ast.Name):
                unset, utest = ('falsy', first.operand.id), utest.values[1]
            elif isinstance(first, ast.Compare) and len(first.ops) == 1 and isinstance(first.ops[0], ast.Is) and isinstance(first.left, ast.Name) and isinstance(first.comparators[0], ast.Constant) and first.comparators[0].value is None:
                unset, utest = ('none', first.left.id), utest.values[1]
        if not (isinstance(utest, ast.Compare) and len(utest.ops) == 1 and isinstance(utest.ops[0], (ast.Gt, ast.GtE, ast.Lt, ast.LtE))):
            return False
        u = ast.If(test=utest, body=u.body, orelse=u.orelse)
        # the update block: top = v ; best = f   (in any order, or as one tuple assignment)
        assigned = {}
        for b in u.body:
            if isinstance(b, ast.Assign) and len(b.targets) == 1 and isinstance(b.targets[0], ast.Name):
                assigned[b.targets[0].id] = b.value
            elif isinstance(b, ast.Assign) and len(b.targets) == 1 and isinstance(b.targets[0], ast.Tuple) and isinstance(b.value, ast.Tuple) and len(b.value.elts) == len(b.targets[0].elts) and all(isinstance(x, ast.Name) for x in b.targets[0].elts):
                for x, v in zip(b.targets[0].elts, b.value.elts):
                    assigned[x.id] = v
            elif is_noise_stmt(b):
                continue
            else:
                return False
        if len(assigned) not in (1, 2):
            return False
        best = [k for k, v in assigned.items() if isinstance(v, ast.Name) and v.id == f]
        if len(best) != 1:
            return False
        best = best[0]
        l, r, op = u.test.left, u.test.comparators[0], u.test.ops[0]
        # which side is the running best value?  (a name that has a start value before the loop)
        if isinstance(r, ast.Name) and r.id in self.env and self.env[r.id] is not None and r.id != f:
            top, val_e, rel_op = r.id, l, {ast.Gt: '>', ast.GtE: '>=', ast.Lt: '<', ast.LtE: '<='}[type(op)]
        elif isinstance(l, ast.Name) and l.id in self.env and self.env[l.id] is not None and l.id != f:
            top, val_e, rel_op = l.id, r, {ast.Gt: '<', ast.GtE: '<=', ast.Lt: '>', ast.LtE: '>='}[type(op)]
        else:
            return False
        if unset is not None and unset[1] != top:
            return False
        strict = rel_op in ('>', '<')
        updates_top = top in assigned and ast.unparse(assigned[top]) == ast.unparse(val_e)
        if top in assigned and not updates_top:
            return False
        if len(assigned) == 2 and top not in assigned:
            return False
        if best not in self.env:
            return False
        # evaluate the statements that compute the value with a child evaluator (the candidate stays symbolic)
        child = PathEval(self.fn, self.pred, self.value, self.other)
        child.keep_ifexp = True
        child.eval_closures = getattr(self, 'eval_closures', False)
        child.env.update({k: v for k, v in self.env.items() if k != f})
        child.local_funcs = dict(self.local_funcs)
        cres = child.run(body[:-1])
        if cres.unknown is not None or cres.ended is not None or cres.updates or [c for c in cres.calls]:
            return False
        val = child.subst(val_e)
        it = self.subst(s.iter)
        gen = ast.GeneratorExp(elt=val, generators=[ast.comprehension(target=ast.Name(f, ast.Store()), iter=it, ifs=[], is_async=0)])
        # rel: how a candidate's value must compare with the running best to replace it ('>' / '>=' maximise, '<' / '<=' minimise);
        # tracked: whether the running best value is updated together with the best element
        kw = [ast.keyword(arg='start', value=copy.deepcopy(self.env[top])), ast.keyword(arg='strict', value=ast.Constant(bool(strict))), ast.keyword(arg='rel', value=ast.Constant(rel_op)),
              ast.keyword(arg='tracked', value=ast.Constant(bool(updates_top))), ast.keyword(arg='unset', value=ast.Constant(unset[0] if unset else 'never'))]
        self.env[best] = ast.fix_missing_locations(ast.Call(func=ast.Name('__argmax__', ast.Load()), args=[gen], keywords=kw))
        self.env[top] = ast.fix_missing_locations(ast.Call(func=ast.Name('__max__', ast.Load()), args=[copy.deepcopy(gen)], keywords=copy.deepcopy(kw)))
        self.env[f] = None
        return True

    def _unroll_literal_loop(self, s: ast.For):
        """for T in (e1, e2, ...): body   with a short literal tuple / list of simple expressions: the body is run once per element, in order
        (break / continue honoured).  Returns False when the loop is not of that kind, else what _stmt0 returns."""
        it = self.subst(s.iter)
        if not isinstance(it, (ast.Tuple, ast.List)) or not (0 < len(it.elts) <= 6):
            return False

        def simple(x, depth=0):
            if isinstance(x, (ast.Constant, ast.Name)):
                return True
            if isinstance(x, ast.Attribute):
                return simple(x.value, depth)
            if isinstance(x, (ast.Tuple, ast.List)) and depth < 2:
                return all(simple(y, depth + 1) for y in x.elts)
            if isinstance(x, ast.BinOp):
                return simple(x.left, depth) and simple(x.right, depth)
            if isinstance(x, ast.UnaryOp):
                return simple(x.operand, depth)
            if isinstance(x, ast.Compare):
                return simple(x.left, depth) and all(simple(c, depth) for c in x.comparators)
            if isinstance(x, ast.BoolOp):
                return all(simple(v, depth) for v in x.values)
            if isinstance(x, ast.Lambda):
                return True          # a function value: evaluating the literal does not run it
            return False
        if not all(simple(x) for x in it.elts):
            return False
        tnames = [x.id for x in ast.walk(s.target) if isinstance(x, ast.Name)]
        if not tnames:
            return False
        # one copy of the body per element (kept on the loop node: forked assumptions are keyed by the test node, and the same test is a
        # different test in every round)
        copies = getattr(s, '_unrolled', None)
        if copies is None or len(copies) != len(it.elts):
            copies = [copy.deepcopy(s.body) for _ in it.elts]
            s._unrolled = copies
        for elt, body_i in zip(it.elts, copies):
            if isinstance(s.target, ast.Name):
                self.env[s.target.id] = copy.deepcopy(elt)
            elif not self._bind_unpack(s.target, copy.deepcopy(elt)):
                return False
            if self.block(body_i):
                if self.res.unknown is not None:
                    return 'end'
                if self.res.ended == 'break':
                    self.res.ended = None
                    break
                if self.res.ended == 'continue':
                    self.res.ended = None
                    continue
                return 'end'
        # every statement of every round was evaluated on its own (with its own invalidations): the loop as a whole invalidates nothing more
        self._summarised = True
        return None

    def _fold_loop(self, s: ast.For) -> bool:
        """for T in IT: [temps]; acc += f(T)   (or acc = acc + f(T) / acc = acc.add(f(T)))   ->   acc = acc0 + __fold_add__(f(T) for T in IT)"""
        if not isinstance(s.target, ast.Name):
            return False
        t = s.target.id
        body = [b for b in s.body if not is_noise_stmt(b) and not isinstance(b, ast.Pass)]
        if not body:
            return False
        local = {}

        def sub(e):
            env2 = {k: v for k, v in self.env.items() if k != t}
            return ast.fix_missing_locations(_Subst({**env2, **local}).visit(copy.deepcopy(e)))
        for b in body[:-1]:
            if isinstance(b, ast.Assign) and len(b.targets) == 1 and isinstance(b.targets[0], ast.Name):
                local[b.targets[0].id] = self._eval_local_call(sub(b.value))
            else:
                return False
        last = body[-1]
        acc = term = None
        inplace = False
        if isinstance(last, ast.AugAssign) and isinstance(last.target, ast.Name) and isinstance(last.op, ast.Add):
            acc, term = last.target.id, last.value
            inplace = not getattr(last, 'from_plain', False)
        elif isinstance(last, ast.Assign) and len(last.targets) == 1 and isinstance(last.targets[0], ast.Name):
            acc = last.targets[0].id
            v = last.value
            if isinstance(v, ast.BinOp) and isinstance(v.op, ast.Add) and isinstance(v.left, ast.Name) and v.left.id == acc:
                term = v.right
            elif isinstance(v, ast.Call) and isinstance(v.func, ast.Attribute) and v.func.attr in ('add', '__add__') and isinstance(v.func.value, ast.Name) and v.func.value.id == acc and len(v.args) == 1:
                term = v.args[0]
            else:
                return False
        else:
            return False
        if acc == t or acc in local or self.env.get(acc) is None:
            return False
        if any(isinstance(x, ast.Name) and x.id == acc for x in ast.walk(term)):
            return False
        elt = self._eval_local_call(sub(term))
        gen = ast.GeneratorExp(elt=elt, generators=[ast.comprehension(target=ast.Name(t, ast.Store()), iter=self.subst(s.iter), ifs=[], is_async=0)])
        fold = ast.Call(func=ast.Name('__fold_add__', ast.Load()), args=[gen], keywords=[])
        if inplace:
            self.res.inplace_folds.append((acc, s))
        self.env[acc] = ast.fix_missing_locations(ast.BinOp(left=copy.deepcopy(self.env[acc]), op=ast.Add(), right=fold))
        self.env[t] = None
        return True

    def _eval_local_call(self, e, depth=0):
        """a call of a closure of the function (or of a function of the module that is not a rule anchor) whose body the evaluator can
        run as a single path: replaced by what the closure returns, written over the arguments"""
        if depth > 3 or not isinstance(e, ast.AST):
            return e

        class T(ast.NodeTransformer):
            def visit_Call(tself, node):
                tself.generic_visit(node)
                if not (isinstance(node.func, ast.Name) and all(k.arg for k in node.keywords) and not any(isinstance(a, ast.Starred) for a in node.args)):
                    return node
                callee = None
                q = self.fn.qualname
                while q:
                    callee = self.m.funcs.get(q + '.' + node.func.id)
                    if callee is not None:
                        break
                    q = q.rpartition('.')[0]
                if callee is None:
                    # a module-level helper that is not in the confirmed tree (a new helper used inside an expression)
                    base = getattr(self.m.repo, 'baseline', None)
                    cand = self.m.funcs.get(node.func.id)
                    if cand is not None and base is not None and node.func.id not in base.get(self.m.name, set()) and cand.cls is None:
                        callee = cand
                if callee is None or callee is self.fn or len(callee.params) < len(node.args):
                    return node
                # positional, keyword and default (constant) arguments
                a_ = callee.node.args
                if a_.vararg or a_.kwarg or a_.kwonlyargs:
                    return node
                given = bind_args(node, callee)
                if set(given) - set(callee.params):
                    return node
                dflt = dict(zip(callee.params[len(callee.params) - len(a_.defaults):], a_.defaults))
                for p_ in callee.params:
                    if p_ not in given:
                        if p_ in dflt and isinstance(dflt[p_], ast.Constant):
                            given[p_] = dflt[p_]
                        else:
                            return node
                # the callee runs over placeholders for its parameters; the arguments are put in afterwards (capture-avoiding: the callee's own
                # loop / comprehension variables may be spelled like names of the caller)
                env0 = {k: v for k, v in self.env.items() if k not in callee.params}
                holders = {p_: f'__arg_{p_}__' for p_ in callee.params}
                actual = {holders[k]: copy.deepcopy(v) for k, v in given.items()}
                consts = {k for k, v in given.items() if isinstance(v, ast.Constant)}
                env0.update({k: (copy.deepcopy(given[k]) if k in consts else ast.Name(holders[k], ast.Load())) for k in given})

                def back(x):
                    return ast.fix_missing_locations(_Subst(actual).visit(copy.deepcopy(x))) if x is not None else None
                paths = run_paths(callee, self.pred, self.value, max_forks=2, env=env0, eval_closures=True)
                if not paths:
                    return node
                for _, r_ in paths:
                    # what the helper found out about memoisation / in-place accumulation concerns the caller's value as well
                    self.res.memo_calls += [x for x in r_.memo_calls if x not in self.res.memo_calls]
                    self.res.inplace_folds += [x for x in r_.inplace_folds if x not in self.res.inplace_folds]
                if len(paths) == 1:
                    res = paths[0][1]
                    if res.unknown is not None or res.returned is None or res.updates or res.calls or res.raised is not None:
                        return node
                    return back(res.returned)
                if any(r.unknown is not None for _, r in paths):
                    return node
                # a memoising helper: `if key not in CACHE: CACHE[key] = VALUE` ... `return CACHE[key]`: the call denotes VALUE
                rets = {ast.unparse(r.returned) if r.returned is not None else None for _, r in paths}
                if len(rets) == 1 and None not in rets and all(r.unknown is None and not r.calls and r.raised is None for _, r in paths):
                    filled = [(r, r.updates) for _, r in paths if r.updates]
                    if len(filled) == 1 and len(filled[0][1]) == 1 and filled[0][1][0]['kind'] == 'store1':
                        u = filled[0][1][0]
                        ret = filled[0][0].returned
                        if isinstance(ret, ast.Subscript) and ast.unparse(ret.value) == ast.unparse(u['target']) and ast.unparse(ret.slice) == ast.unparse(u['key']):
                            self.res.memo_calls.append((callee.qualname, ast.unparse(u['target'])))
                            return back(u['value'])
                return node
        return ast.fix_missing_locations(T().visit(copy.deepcopy(e)))

    def _minmax_loop(self, s: ast.For) -> bool:
        """acc = E(0); for i in range(1, N): c = E(i); if c < acc: acc = c      ->   acc = min(E(i) for i in range(N))   (max alike;
        also acc = min(acc, c)); with a start that is not E(0) the first value is kept as an extra element."""
        if not isinstance(s.target, ast.Name):
            return False
        i = s.target.id
        it = s.iter
        if not (isinstance(it, ast.Call) and isinstance(it.func, ast.Name) and it.func.id == 'range' and 1 <= len(it.args) <= 2 and not it.keywords):
            return False
        body = [b for b in s.body if not is_noise_stmt(b) and not isinstance(b, ast.Pass)]
        local = {}

        def sub(e):
            env2 = {k: v for k, v in self.env.items() if k != i}
            return ast.fix_missing_locations(_Subst({**env2, **local}).visit(copy.deepcopy(e)))
        last = body[-1] if body else None
        for b in body[:-1]:
            if isinstance(b, ast.Assign) and len(b.targets) == 1 and isinstance(b.targets[0], ast.Name):
                local[b.targets[0].id] = sub(b.value)
            else:
                return False
        acc = op = cell = None
        if isinstance(last, ast.If) and not last.orelse and len(last.body) == 1 and isinstance(last.body[0], ast.Assign) and isinstance(last.body[0].targets[0], ast.Name) \
                and isinstance(last.test, ast.Compare) and len(last.test.ops) == 1 and isinstance(last.test.ops[0], (ast.Lt, ast.Gt, ast.LtE, ast.GtE)):
            acc = last.body[0].targets[0].id
            l, r = last.test.left, last.test.comparators[0]
            lt = isinstance(last.test.ops[0], (ast.Lt, ast.LtE))
            if isinstance(r, ast.Name) and r.id == acc:
                cell, op = sub(l), ('min' if lt else 'max')
            elif isinstance(l, ast.Name) and l.id == acc:
                cell, op = sub(r), ('max' if lt else 'min')
            else:
                return False
            if ast.unparse(sub(last.body[0].value)) != ast.unparse(cell):
                return False
        elif isinstance(last, ast.Assign) and len(last.targets) == 1 and isinstance(last.targets[0], ast.Name) and isinstance(last.value, ast.Call) and isinstance(last.value.func, ast.Name) \
                and last.value.func.id in ('min', 'max') and len(last.value.args) == 2:
            acc, op = last.targets[0].id, last.value.func.id
            others = [a for a in last.value.args if not (isinstance(a, ast.Name) and a.id == acc)]
            if len(others) != 1:
                return False
            cell = sub(others[0])
        else:
            return False
        start = self.env.get(acc)
        if start is None:
            return False

        class _At(ast.NodeTransformer):
            def __init__(self, k):
                self.k = k

            def visit_Name(self, node):
                return ast.copy_location(ast.Constant(self.k), node) if node.id == i and isinstance(node.ctx, ast.Load) else node
        lo = it.args[0] if len(it.args) == 2 else ast.Constant(0)
        hi = it.args[-1]
        gen_range = None
        if isinstance(lo, ast.Constant) and lo.value == 1 and ast.unparse(_At(0).visit(copy.deepcopy(cell))) == ast.unparse(start):
            gen_range = ast.Call(func=ast.Name('range', ast.Load()), args=[self.subst(hi)], keywords=[])
            gen = ast.GeneratorExp(elt=cell, generators=[ast.comprehension(target=ast.Name(i, ast.Store()), iter=gen_range, ifs=[], is_async=0)])
            val = ast.Call(func=ast.Name(op, ast.Load()), args=[gen], keywords=[])
        else:
            gen = ast.ListComp(elt=cell, generators=[ast.comprehension(target=ast.Name(i, ast.Store()), iter=self.subst(it), ifs=[], is_async=0)])
            val = ast.Call(func=ast.Name(op, ast.Load()), args=[ast.BinOp(left=ast.List([copy.deepcopy(start)], ast.Load()), op=ast.Add(), right=gen)], keywords=[])
        self.env[acc] = ast.fix_missing_locations(val)
        self.env[i] = None
        for k in local:
            self.env[k] = None
        return True

    def _effect_loop(self, s: ast.For) -> bool:
        """A loop whose body only applies effects to containers, possibly under guards on the loop variables:
             for T in IT: [if c(T): continue] ... obj.method(f(T)) / d[k(T)] = v(T) / d[k(T)] += v / del d[k(T)]
        Each effect becomes one update `foreach` (target, op, key/args as templates over the loop variables, guard), in program order."""
        tnames = [x.id for x in ast.walk(s.target) if isinstance(x, ast.Name)]
        if not tnames:
            return False
        # a loop over a comprehension with several generators is the nest of loops it was built by:
        #     for T in [E for a in A for b in B if c]: BODY      ->      for a in A: for b in B: if c: T = E; BODY
        it0 = self.subst(s.iter)
        if isinstance(it0, (ast.ListComp, ast.GeneratorExp)) and len(it0.generators) > 1 and not getattr(s, '_denested', False) \
                and not any(isinstance(x, ast.Name) and x.id in tnames for g in it0.generators for x in ast.walk(g.target)):
            inner_body = [ast.Assign(targets=[copy.deepcopy(s.target)], value=copy.deepcopy(it0.elt))] + list(s.body)
            for x in ast.walk(inner_body[0]):
                if isinstance(x, ast.Name) and isinstance(x.ctx, ast.Load) is False:
                    x.ctx = ast.Store()
            node = None
            for g in reversed(it0.generators):
                body_g = inner_body if node is None else [node]
                for c in reversed(g.ifs):
                    body_g = [ast.If(test=copy.deepcopy(c), body=body_g, orelse=[])]
                node = ast.For(target=copy.deepcopy(g.target), iter=copy.deepcopy(g.iter), body=body_g, orelse=[])
                for x in ast.walk(node.target):
                    if isinstance(x, ast.Name):
                        x.ctx = ast.Store()
            ast.copy_location(node, s)
            ast.fix_missing_locations(node)
            node._denested = True
            # the generators' iterables are already written over the environment: evaluate the nest with the names they mention left alone
            saved_env = dict(self.env)
            ok_n = self._effect_loop(node)
            if ok_n:
                for k in tnames:
                    self.env[k] = None
                return True
            self.env.clear()
            self.env.update(saved_env)
        saved = dict(self.env)
        for k in tnames:
            self.env.pop(k, None)
        it = self.subst(s.iter)
        local = {}
        effects = []

        def sub(e):
            return ast.fix_missing_locations(_Subst({**self.env, **local}).visit(copy.deepcopy(e)))

        def sub_obj(e):
            """like sub(), but a container built in this function keeps its name (it denotes the object, not its initial value)"""
            root = e
            while isinstance(root, (ast.Subscript, ast.Attribute, ast.Call)):
                root = root.func if isinstance(root, ast.Call) else root.value      # d.setdefault(k, []) denotes a part of d
            if isinstance(root, ast.Name) and root.id not in local and self._is_value(self.env.get(root.id)):
                env2 = {k: v for k, v in self.env.items() if k != root.id}
                return ast.fix_missing_locations(_Subst({**env2, **local}).visit(copy.deepcopy(e)))
            return sub(e)

        def conj(g, c):
            return c if g is None else ast.fix_missing_locations(ast.BoolOp(op=ast.And(), values=[copy.deepcopy(g), c]))

        def neg(c):
            return ast.fix_missing_locations(ast.UnaryOp(op=ast.Not(), operand=copy.deepcopy(c)))

        def walk(body, guard):
            """returns (ok, guard for the statements that follow)"""
            for b in body:
                if isinstance(b, ast.Delete) and len(b.targets) == 1 and isinstance(b.targets[0], ast.Subscript):
                    t = sub(b.targets[0])
                    effects.append(dict(kind='foreach', op='del', target=t.value, method=None, args=[], key=t.slice, value=None, guard=guard, node=b))
                    continue
                if is_noise_stmt(b) or isinstance(b, ast.Pass):
                    continue
                if isinstance(b, ast.If):
                    t = sub(b.test)
                    if len(b.body) == 1 and isinstance(b.body[0], ast.Continue) and not b.orelse:
                        guard = conj(guard, neg(t))
                        continue
                    if len(b.body) > 1 and isinstance(b.body[-1], ast.Continue) and not b.orelse and not any(isinstance(x, (ast.Continue, ast.Break)) for st_ in b.body[:-1] for x in ast.walk(st_)):
                        # if t: <effects>; continue      ->  the effects under t, everything after under not t
                        ok1, _ = walk(b.body[:-1], conj(guard, t))
                        if not ok1:
                            return False, guard
                        guard = conj(guard, neg(t))
                        continue
                    ok1, _ = walk(b.body, conj(guard, t))
                    ok2, _ = walk(b.orelse, conj(guard, neg(t))) if b.orelse else (True, None)
                    if not (ok1 and ok2):
                        return False, guard
                    continue
                if isinstance(b, ast.For) and not b.orelse:
                    # a loop that only fills a list created in this iteration (acc = []; for ..: acc.append(..)): the list is a comprehension
                    accs_ = {c.func.value.id for c in ast.walk(b) if isinstance(c, ast.Call) and isinstance(c.func, ast.Attribute) and c.func.attr in ('append', 'extend') and isinstance(c.func.value, ast.Name)}
                    if len(accs_) == 1 and next(iter(accs_)) in local and isinstance(local[next(iter(accs_))], ast.List) and not local[next(iter(accs_))].elts:
                        child = PathEval(self.fn, self.pred, self.value, None)
                        child.res = PathResult()
                        child.env.update({**self.env, **local})
                        child.eval_closures = getattr(self, 'eval_closures', False)
                        if child._append_loop(b):
                            local[next(iter(accs_))] = child.env[next(iter(accs_))]
                            continue
                    # a nested loop of the same kind: its effects range over the product of both loops
                    inner_names = [x.id for x in ast.walk(b.target) if isinstance(x, ast.Name)]
                    if not inner_names:
                        return False, guard
                    hidden = {k: local.pop(k) for k in inner_names if k in local}
                    inner_it = sub(b.iter)
                    n0 = len(effects)
                    ok_in, _ = walk(b.body, guard)
                    local.update(hidden)
                    if not ok_in or len(effects) == n0:
                        return False, guard
                    for e in effects[n0:]:
                        e.setdefault('inner', []).insert(0, (inner_names, inner_it, copy.deepcopy(b.target)))
                    continue
                if isinstance(b, ast.Assign) and len(b.targets) == 1 and isinstance(b.targets[0], ast.Name) and (guard is None or b.targets[0].id not in local):
                    local[b.targets[0].id] = sub(b.value)       # a temporary (first bound under a guard: only used under it)
                    continue
                if isinstance(b, ast.Assign) and len(b.targets) == 1 and isinstance(b.targets[0], ast.Tuple) and all(isinstance(x, ast.Name) for x in b.targets[0].elts) and (guard is None or not any(x.id in local for x in b.targets[0].elts)):
                    v = sub(b.value)
                    for i, x in enumerate(b.targets[0].elts):
                        local[x.id] = v.elts[i] if isinstance(v, ast.Tuple) and len(v.elts) == len(b.targets[0].elts) else ast.fix_missing_locations(ast.Subscript(value=copy.deepcopy(v), slice=ast.Constant(i), ctx=ast.Load()))
                    continue
                if isinstance(b, ast.Expr) and isinstance(b.value, ast.Call) and isinstance(b.value.func, ast.Attribute):
                    c = sub(b.value)
                    recv = sub_obj(b.value.func.value)
                    effects.append(dict(kind='foreach', op='call', target=recv, method=c.func.attr, args=c.args, key=None, value=c.args[0] if c.args else None, guard=guard, node=b))
                    continue
                if isinstance(b, ast.Assign) and len(b.targets) == 1 and isinstance(b.targets[0], ast.Subscript):
                    t = sub(b.targets[0])
                    t.value = sub_obj(b.targets[0].value)
                    effects.append(dict(kind='foreach', op='store', target=t.value, method=None, args=[], key=t.slice, value=sub(b.value), guard=guard, node=b))
                    continue
                if isinstance(b, ast.AugAssign) and isinstance(b.target, ast.Subscript):
                    t = sub(b.target)
                    t.value = sub_obj(b.target.value)
                    effects.append(dict(kind='foreach', op='inc', target=t.value, method=type(b.op).__name__, args=[], key=t.slice, value=sub(b.value), guard=guard, node=b))
                    continue
                if isinstance(b, ast.Delete) and len(b.targets) == 1 and isinstance(b.targets[0], ast.Subscript):
                    t = sub(b.targets[0])
                    effects.append(dict(kind='foreach', op='del', target=t.value, method=None, args=[], key=t.slice, value=None, guard=guard, node=b))
                    continue
                return False, guard
            return True, guard
        ok, _ = walk(s.body, None)
        self.env.clear()
        self.env.update(saved)
        if not ok or not effects:
            return False
        tvars = set(tnames)

        def roots(e):
            return {x.id for x in ast.walk(e) if isinstance(x, ast.Name)} if e is not None else set()

        def mentions(e, names):
            return any(roots(x) & names for x in [e.get('key'), e.get('value'), e.get('guard'), *e.get('args', [])] if x is not None)
        # loop fission: `acc.append(f(T))` on a list that is empty before the loop, where f reads nothing the other effects of the loop write and
        # nothing else in the loop reads acc, is the comprehension acc = [f(T) for T in IT if guard]; the remaining effects keep their order
        written = {}
        for e in effects:
            r = e['target']
            while isinstance(r, (ast.Subscript, ast.Attribute)):
                r = r.value
            if isinstance(r, ast.Name):
                written.setdefault(r.id, []).append(e)
        fission = []
        for acc, es in written.items():
            cur = saved.get(acc)
            empty = (isinstance(cur, ast.List) and not cur.elts) or (isinstance(cur, ast.Call) and isinstance(cur.func, ast.Name) and cur.func.id == 'list' and not cur.args and not cur.keywords)
            if not empty or len(es) != 1 or len(effects) < 2:
                continue
            e = es[0]
            if e['op'] != 'call' or e['method'] != 'append' or len(e['args']) != 1 or e.get('inner') or not isinstance(e['target'], ast.Name):
                continue
            others = [o for o in effects if o is not e]
            other_written = {k for k, v in written.items() if k != acc}
            if roots(e['args'][0]) & other_written or (e['guard'] is not None and roots(e['guard']) & other_written):
                continue
            lazy = any(isinstance(x, ast.GeneratorExp) or (isinstance(x, ast.Call) and isinstance(x.func, ast.Name) and x.func.id in ('map', 'filter', 'zip', 'enumerate', 'reversed', 'iter')) for x in ast.walk(it)) \
                and not (isinstance(it, ast.Subscript) or (isinstance(it, ast.Call) and isinstance(it.func, ast.Name) and it.func.id in ('sorted', 'list', 'tuple', 'set')))
            if lazy and roots(it) & other_written:
                continue      # a lazily evaluated iterable that reads what the loop writes: the two halves interact
            if any(mentions(o, {acc}) for o in others):
                continue
            fission.append((acc, e))
        for acc, e in fission:
            effects.remove(e)
            comp = ast.ListComp(elt=e['args'][0], generators=[ast.comprehension(target=copy.deepcopy(s.target), iter=copy.deepcopy(it), ifs=[e['guard']] if e['guard'] is not None else [], is_async=0)])
            comp = ast.fix_missing_locations(ast.copy_location(comp, s))
            comp._seq = getattr(self, 'seq', 0)
            self.env[acc] = comp
            self._fissioned[acc] = comp
        # an unguarded keyed store / increment whose value does not vary with the loop is one keyed update over the list of keys
        for e in effects:
            if e['op'] in ('store', 'inc') and e['guard'] is None and not e.get('inner') and e['key'] is not None and not (roots(e['value']) & tvars) and not (roots(e['target']) & tvars) and roots(e['key']) & tvars:
                if isinstance(e['key'], ast.Name) and isinstance(s.target, ast.Name) and e['key'].id == s.target.id:
                    over = it
                else:
                    over = ast.fix_missing_locations(ast.copy_location(ast.ListComp(elt=copy.deepcopy(e['key']), generators=[ast.comprehension(target=copy.deepcopy(s.target), iter=copy.deepcopy(it), ifs=[], is_async=0)]), s))
                self.res.updates.append(dict(kind='storeall' if e['op'] == 'store' else 'incall', target=e['target'], over=over, key=None, value=e['value'], op=None if e['op'] == 'store' else e['method'], node=e['node']))
                e['_done'] = True
        effects = [e for e in effects if not e.get('_done')]
        for e in effects:
            e['over'] = it
            e['vars'] = tnames
            e['target_shape'] = copy.deepcopy(s.target)
            e['loop'] = id(s)
            # chain of (loop variables, iterated expression) from the outermost loop to the innermost
            e['chain'] = [(tnames, it, copy.deepcopy(s.target))] + e.pop('inner', [])
            self.res.updates.append(e)
        for k in tnames:
            self.env[k] = None
        return True

    def _store_loop(self, s: ast.For) -> bool:
        """for T in IT: D[T] = V   /   for T in IT: D[T] += V     (V does not depend on T)  ->  one keyed update of D over IT"""
        if not isinstance(s.target, ast.Name):
            return False
        body = [b for b in s.body if not is_noise_stmt(b)]
        if len(body) != 1:
            return False
        b = body[0]
        t = s.target.id
        if isinstance(b, ast.Assign) and len(b.targets) == 1 and isinstance(b.targets[0], ast.Subscript):
            sub, val, kind, op = b.targets[0], b.value, 'storeall', None
        elif isinstance(b, ast.AugAssign) and isinstance(b.target, ast.Subscript):
            sub, val, kind, op = b.target, b.value, 'incall', type(b.op).__name__
        else:
            return False
        if not (isinstance(sub.slice, ast.Name) and sub.slice.id == t) or any(isinstance(x, ast.Name) and x.id == t for x in ast.walk(val)) or any(isinstance(x, ast.Name) and x.id == t for x in ast.walk(sub.value)):
            return False
        self.res.updates.append(dict(kind=kind, target=self.subst(sub.value), over=self.subst(s.iter), key=None, value=self.subst(val), op=op, node=s))
        self.env[t] = None
        return True

    def run(self, body=None) -> PathResult:
        self.res = PathResult()
        self.res.env = self.env
        done = self.block([s for s in (self.fn.node.body if body is None else body)])
        if not done and self.res.unknown is None:
            self.res.fell_off = True
        return self.res

    def block(self, body) -> bool:
        """True when the path ended (return / raise / unknown)"""
        for s in body:
            self.seq = getattr(self, 'seq', 0) + 1
            nup = len(self.res.updates)
            try:
                r = self._stmt(s)
            finally:
                for u in self.res.updates[nup:]:
                    u.setdefault('seq', self.seq)
                # what this statement may have written (for the reuse of assumptions): every name it stores to / calls a method on
                if not hasattr(self, '_mut_log'):
                    self._mut_log = []
                for x in ast.walk(s):
                    root = None
                    if isinstance(x, ast.Name) and isinstance(x.ctx, (ast.Store, ast.Del)):
                        root = x
                    elif isinstance(x, (ast.Subscript, ast.Attribute)) and isinstance(x.ctx, (ast.Store, ast.Del)):
                        root = x
                        while isinstance(root, (ast.Subscript, ast.Attribute, ast.Call)):
                            root = root.func if isinstance(root, ast.Call) else root.value
                    elif isinstance(x, ast.Call) and isinstance(x.func, ast.Attribute):
                        root = x.func.value
                        while isinstance(root, (ast.Subscript, ast.Attribute, ast.Call)):
                            root = root.func if isinstance(root, ast.Call) else root.value
                    elif isinstance(x, ast.Call):
                        for a_ in x.args:
                            if isinstance(a_, ast.Name):
                                self._mut_log.append((self.seq, a_.id))      # passed to a function: may be mutated there
                    if isinstance(root, ast.Name) and root.id not in self.m.imports:
                        self._mut_log.append((self.seq, root.id))
            if r == 'end':
                return True
        return False

    def _invalidate_mutated(self, s):
        """a container that is mutated in place no longer has the value of its last assignment: its name stays symbolic from here on"""
        todo = [s]
        while todo:
            x = todo.pop()
            if isinstance(x, (ast.FunctionDef, ast.AsyncFunctionDef, ast.Lambda, ast.ClassDef)):
                continue
            if isinstance(x, ast.Call) and isinstance(x.func, ast.Attribute) and x.func.attr in MUTATORS:
                root = x.func.value
                while isinstance(root, (ast.Subscript, ast.Attribute)):
                    root = root.value
                if isinstance(root, ast.Name) and self._is_value(self.env.get(root.id)):
                    self.env[root.id] = None
            if isinstance(x, (ast.Assign, ast.AugAssign, ast.AnnAssign, ast.Delete)):
                tgs = x.targets if isinstance(x, (ast.Assign, ast.Delete)) else [x.target]
                for t in tgs:
                    base = t
                    while isinstance(base, (ast.Subscript, ast.Attribute)):
                        base = base.value
                    if isinstance(t, ast.Attribute) and t.attr in ('columns', 'name', 'names') and isinstance(t.value, ast.Name):
                        continue        # relabelling a frame: its rows are what they were
                    if base is not t and isinstance(base, ast.Name) and self._is_value(self.env.get(base.id)):
                        self.env[base.id] = None
            todo.extend(ast.iter_child_nodes(x))

    def _bind_unpack(self, tgt, val) -> bool:
        """(a, (b, c)) = value : names bound to the positions of the value (recursively); False when a target is not a name / tuple"""
        def ok(t):
            return isinstance(t, ast.Name) or (isinstance(t, (ast.Tuple, ast.List)) and all(ok(x) for x in t.elts))
        if not ok(tgt):
            return False

        def bind(t, v):
            if isinstance(t, ast.Name):
                v._seq = getattr(self, 'seq', 0)
                self.env[t.id] = v
                return
            for i, x in enumerate(t.elts):
                if isinstance(v, (ast.Tuple, ast.List)) and len(v.elts) == len(t.elts):
                    bind(x, v.elts[i])
                else:
                    bind(x, ast.fix_missing_locations(ast.Subscript(value=copy.deepcopy(v), slice=ast.Constant(i), ctx=ast.Load())))
        bind(tgt, val)
        return True

    @staticmethod
    def _is_value(v) -> bool:
        """the binding holds a freshly built object (not a reference to some other named object)"""
        if isinstance(v, ast.Call) and isinstance(v.func, ast.Attribute) and v.func.attr in ('get', 'setdefault') and isinstance(v.func.value, (ast.Name, ast.Attribute, ast.Subscript)):
            return False        # d.get(k) / d.setdefault(k, ..) hand out the element stored in d
        return v is not None and not isinstance(v, (ast.Name, ast.Attribute, ast.Subscript))

    def _stmt(self, s):
        # TABLE[<constant key>] = value  on a local table that is still known entry by entry: the table with that entry set
        if isinstance(s, ast.Assign) and len(s.targets) == 1 and isinstance(s.targets[0], ast.Subscript) and isinstance(s.targets[0].value, ast.Name):
            d_ = s.targets[0].value.id
            cur = self.env.get(d_)
            if isinstance(cur, ast.Dict) and all(isinstance(k, ast.Constant) for k in cur.keys) and \
                    not any(nm == d_ and sq > getattr(cur, '_seq', -1) for sq, nm in getattr(self, '_mut_log', [])):
                try:
                    kq = self.subst(s.targets[0].slice)
                except Exception:
                    kq = None
                if isinstance(kq, ast.Constant):
                    new = ast.Dict(keys=[copy.deepcopy(k) for k in cur.keys if k.value != kq.value] + [kq], values=[v for k, v in zip(cur.keys, cur.values) if k.value != kq.value] + [self.subst(s.value)])
                    ast.copy_location(new, cur)
                    new._seq = self.seq
                    self.env[d_] = new
                    return None
        # TABLE['a'], TABLE['b'] = E   and   TABLE.update(a=x, b=y)   on such a table: the same, entry by entry
        parts = None
        if isinstance(s, ast.Assign) and len(s.targets) == 1 and isinstance(s.targets[0], ast.Tuple) and s.targets[0].elts and \
                all(isinstance(t, ast.Subscript) and isinstance(t.value, ast.Name) and isinstance(t.slice, ast.Constant) for t in s.targets[0].elts) and \
                len({t.value.id for t in s.targets[0].elts}) == 1 and not isinstance(s.value, (ast.Tuple, ast.List)):
            d_ = s.targets[0].elts[0].value.id
            parts = [(t.slice, ast.Subscript(value=s.value, slice=ast.Constant(i), ctx=ast.Load())) for i, t in enumerate(s.targets[0].elts)]
        elif isinstance(s, ast.Expr) and isinstance(s.value, ast.Call) and isinstance(s.value.func, ast.Attribute) and s.value.func.attr == 'update' and \
                isinstance(s.value.func.value, ast.Name) and not s.value.args and s.value.keywords and all(k.arg for k in s.value.keywords):
            d_ = s.value.func.value.id
            parts = [(ast.Constant(k.arg), k.value) for k in s.value.keywords]
        if parts is not None:
            cur = self.env.get(d_)
            if isinstance(cur, ast.Dict) and all(isinstance(k, ast.Constant) for k in cur.keys) and \
                    not any(nm == d_ and sq > getattr(cur, '_seq', -1) for sq, nm in getattr(self, '_mut_log', [])):
                try:
                    vals = [(kq, self.subst(ast.fix_missing_locations(ast.copy_location(v, s)))) for kq, v in parts]
                except Exception:
                    vals = None
                if vals is not None:
                    names = {kq.value for kq, _ in vals}
                    new = ast.Dict(keys=[copy.deepcopy(k) for k in cur.keys if k.value not in names] + [kq for kq, _ in vals],
                                   values=[v for k, v in zip(cur.keys, cur.values) if k.value not in names] + [v for _, v in vals])
                    ast.copy_location(new, cur)
                    new._seq = self.seq
                    self.env[d_] = new
                    return None
        """'end' when the path ended at s"""
        self._summarised = False
        self._fissioned = {}
        r = self._stmt0(s)
        if not self._summarised and not isinstance(s, (ast.If, ast.With, ast.Try, ast.FunctionDef, ast.AsyncFunctionDef)):
            self._invalidate_mutated(s)
            # a list that a loop only appended to (and that was split off as a comprehension) has exactly that value after the loop
            for k, v in self._fissioned.items():
                self.env[k] = v
        return r

    def _stmt0(self, s):
        for s in [s]:
            if self.stop_at is not None and any(x is self.stop_at for x in ast.walk(s)) and not isinstance(s, (ast.With, ast.If)):
                self.res.env_at_stop = dict(self.env)
                self.res.stopped = s
                return 'end'
            if is_noise_stmt(s) or isinstance(s, (ast.Pass, ast.Import, ast.ImportFrom, ast.Global, ast.Nonlocal)):
                return None
            if isinstance(s, (ast.FunctionDef, ast.AsyncFunctionDef)):
                self.local_funcs[s.name] = s
                self.env[s.name] = None
                return None
            if isinstance(s, ast.With):
                for it in s.items:
                    if isinstance(it.optional_vars, ast.Name):
                        self.env[it.optional_vars.id] = self.subst(it.context_expr)
                if self.block(s.body):
                    return 'end'
                return None
            if isinstance(s, ast.Try):
                # the path on which the protected block raises nothing (handlers are other rules' concern)
                self.res.tries.append(s)
                if self.block(s.body) or self.block(s.orelse) or self.block(s.finalbody):
                    return 'end'
                return None
            if isinstance(s, ast.For) and not s.orelse and self._append_loop(s):
                self._summarised = True
                return None
            if isinstance(s, ast.Return):
                self.res.returned = self.subst(s.value) if s.value is not None else ast.Constant(None)
                self.res.ended = 'return'
                return 'end'
            if isinstance(s, ast.Raise):
                self.res.raised = s
                self.res.ended = 'raise'
                return 'end'
            if isinstance(s, (ast.Continue, ast.Break)):
                self.res.ended = 'continue' if isinstance(s, ast.Continue) else 'break'
                return 'end'
            if isinstance(s, ast.Delete):
                return None
            if isinstance(s, ast.If):
                self._undecided = None
                v = self.truth(s.test)
                if v is None:
                    self.res.unknown, self.res.unknown_test = s, (self._undecided if self._undecided is not None else s.test)
                    return 'end'
                self.res.tests.append((s.test, v))
                if self.block(s.body if v else s.orelse):
                    return 'end'
                return None
            if isinstance(s, (ast.Assign, ast.AnnAssign)) and (isinstance(s, ast.AnnAssign) or len(s.targets) == 1):
                tgt = s.target if isinstance(s, ast.AnnAssign) else s.targets[0]
                if s.value is None:
                    return None
                val = self.subst(s.value)
                if isinstance(s.value, ast.BoolOp) and isinstance(s.value.op, ast.Or) and len(s.value.values) == 2:
                    # x = a or b   is   x = a if a else b
                    self._undecided = None
                    v = self.truth(s.value.values[0])
                    if v is None:
                        self.res.unknown, self.res.unknown_test = s, (self._undecided if self._undecided is not None else s.value.values[0])
                        return 'end'
                    val = self.subst(s.value.values[0] if v else s.value.values[1])
                if isinstance(s.value, ast.IfExp):
                    self._undecided = None
                    v = self.truth(s.value.test)
                    if v is None and getattr(self, 'keep_ifexp', False):
                        v = 'keep'
                    if v is None:
                        self.res.unknown, self.res.unknown_test = s, (self._undecided if self._undecided is not None else s.value.test)
                        return 'end'
                    val = self.subst(s.value) if v == 'keep' else self.subst(s.value.body if v else s.value.orelse)
                if getattr(self, 'eval_closures', False):
                    val = self._eval_local_call(val, getattr(self, 'depth', 0))
                if isinstance(tgt, ast.Name):
                    val._seq = self.seq
                    self.env[tgt.id] = val
                    return None
                if isinstance(tgt, ast.Subscript):
                    self.res.updates.append(dict(kind='store1', target=self.subst(tgt.value), over=None, key=self.subst(tgt.slice), value=val, node=s))
                    return None
                if isinstance(tgt, (ast.Tuple, ast.List)) and self._bind_unpack(tgt, val):
                    return None
                self.res.effects.append(s)
                return None
            if isinstance(s, ast.AugAssign) and isinstance(s.target, ast.Subscript):
                self.res.updates.append(dict(kind='inc1', target=self.subst(s.target.value), over=None, key=self.subst(s.target.slice), value=self.subst(s.value), op=type(s.op).__name__, node=s))
                return None
            if isinstance(s, ast.Expr) and isinstance(s.value, ast.Call) and isinstance(s.value.func, ast.Attribute) and s.value.func.attr == 'update' and len(s.value.args) == 1 and not s.value.keywords:
                a0 = s.value.args[0]
                if isinstance(a0, ast.Call) and isinstance(a0.func, ast.Attribute) and a0.func.attr == 'fromkeys' and isinstance(a0.func.value, ast.Name) and a0.func.value.id == 'dict' and 1 <= len(a0.args) <= 2:
                    self.res.updates.append(dict(kind='storeall', target=self.subst(s.value.func.value), over=self.subst(a0.args[0]), key=None, value=self.subst(a0.args[1]) if len(a0.args) == 2 else ast.Constant(None), node=s))
                    return None
                if isinstance(a0, ast.DictComp) and len(a0.generators) == 1 and not a0.generators[0].ifs and isinstance(a0.generators[0].target, ast.Name) and isinstance(a0.key, ast.Name) and a0.key.id == a0.generators[0].target.id \
                        and not any(isinstance(x, ast.Name) and x.id == a0.key.id for x in ast.walk(a0.value)):
                    self.res.updates.append(dict(kind='storeall', target=self.subst(s.value.func.value), over=self.subst(a0.generators[0].iter), key=None, value=self.subst(a0.value), node=s))
                    return None
            if isinstance(s, ast.For) and not s.orelse:
                r_ = self._unroll_literal_loop(s)
                if r_ is not False:
                    return r_
            if isinstance(s, ast.For) and not s.orelse and self._argmax_loop(s):
                self._summarised = True
                return None
            if isinstance(s, ast.For) and not s.orelse and self._fold_loop(s):
                self._summarised = True
                return None
            if isinstance(s, ast.For) and not s.orelse and self._minmax_loop(s):
                self._summarised = True
                return None
            if isinstance(s, ast.For) and not s.orelse and (self._store_loop(s) or self._effect_loop(s)):
                return None      # (containers written by the loop are invalidated by the caller)
            if isinstance(s, ast.AugAssign) and isinstance(s.target, ast.Name):
                cur = self.env.get(s.target.id) or ast.Name(s.target.id, ast.Load())
                self.env[s.target.id] = ast.fix_missing_locations(ast.BinOp(left=copy.deepcopy(cur), op=s.op, right=self.subst(s.value)))
                return None
            if isinstance(s, ast.Expr):
                self.res.effects.append(s)
                if isinstance(s.value, ast.Call):
                    self.res.calls.append(dict(call=self.subst(s.value), seq=self.seq, node=s))
                return None
            # loops / with / try / anything else: opaque; names bound inside are unknown afterwards
            self.res.effects.append(s)
            for x in ast.walk(s):
                if isinstance(x, ast.Name) and isinstance(x.ctx, ast.Store):
                    self.env[x.id] = None
                if isinstance(x, ast.Return):
                    self.res.unknown = s
                    return 'end'
        return None


def run_paths(fn: Func, subject_pred, value: str, max_forks: int = 3, body=None, env=None, eval_closures=False):
    """All paths of fn for the subject value, forking on tests that do not depend on the subject.
    Returns [(assumptions, PathResult)], assumptions = [(test node, truth)]; None when more than max_forks tests would have to be forked."""
    out = []
    todo = [[]]
    while todo:
        assume = todo.pop()
        if len(assume) > max_forks:
            return None
        table = {id(n): v for n, v in assume}

        def other(t, pe, table=table):
            return table.get(id(t))
        pe = PathEval(fn, subject_pred, value, other)
        pe.eval_closures = eval_closures
        if env:
            pe.env.update(env)
        res = pe.run(body)
        if res.unknown is not None and res.unknown_test is not None and id(res.unknown_test) not in table:
            todo.append(assume + [(res.unknown_test, True)])
            todo.append(assume + [(res.unknown_test, False)])
            continue
        out.append((assume, res))
    return out


# ---------------------------------------------------------------------------
# mismatch of a canonical term with its accepted forms: inside the vocabulary (a real difference) or outside it (not decidable)
# ---------------------------------------------------------------------------

def term_vocab(term) -> set:
    """names of the functions / methods / attributes a term applies"""
    out = set()
    for x in _walk_term(term):
        if isinstance(x, tuple) and x:
            if x[0] == 'call' and isinstance(x[1], tuple):
                h = x[1]
                if h[0] in ('lib', 'name'):
                    out.add(h[1].split('.')[-1])
                elif h[0] == 'attr':
                    out.add(h[2])
                else:
                    out.add('<computed callee>')      # f(...)(...) / table[k](...): which function is applied is itself computed
            elif x[0] == 'attr':
                out.add(x[2])
            elif x[0] in ('listcomp', 'genexp', 'setcomp', 'dictcomp', 'ifexp', 'lambda', 'star'):
                out.add('<' + x[0] + '>')
    return out


def _walk_term(t):
    yield t
    if isinstance(t, (tuple, frozenset)):
        for x in t:
            yield from _walk_term(x)


DISTINCT_FAMILIES = [
    {'sum', 'mean', 'median', 'max', 'min', 'prod', 'average', 'nansum', 'nanmean', 'nanmedian', 'std', 'var', 'amax', 'amin', 'ptp'},
    {'sin', 'cos', 'tan', 'arcsin', 'arccos', 'arctan', 'sinh', 'cosh', 'tanh', 'arcsinh', 'arccosh', 'arctanh'},
    {'floor', 'ceil', 'round', 'trunc', 'rint', 'around'},
    {'log', 'log2', 'log10', 'log1p', 'exp', 'exp2', 'expm1', 'sqrt', 'square', 'abs'},
    {'argmax', 'argmin', 'argsort'},
]


def within_vocabulary(found, accepted) -> bool:
    """True when `found` applies only operations that occur in some accepted form: a mismatch is then a real difference of the
    computed value; False when it uses operations the accepted forms never use (an unknown spelling: not decidable here)."""
    known = set()
    for a in accepted:
        known |= term_vocab(a)
    if 'len' in known:
        known |= {'shape', 'size'}      # x.shape[0] is canonicalised to len(x): other uses of shape / size are within the vocabulary
    # operations that are known to differ from the accepted one (another reduction, another trigonometric function, ...) are a real difference
    for fam in DISTINCT_FAMILIES:
        if known & fam:
            known |= fam
    return term_vocab(found) <= known
