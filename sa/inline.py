"""Statement-level inlining of *new* helper functions.

A clean-up that extracts part of an anchored function into a helper of the same module leaves behaviour unchanged, but hides
the statements every rule looks for.  Before any rule runs, calls to helpers that the rule tables do not know (functions that are
not in sa/baseline.py, the list of functions of the tree the rules were confirmed on) are therefore expanded in place:

    x = helper(a, b)      ->   <body of helper, locals renamed on conflict, parameters bound>; x = <returned expression>
    return helper(a, b)   ->   <body of helper with its own return statements>
    helper(a, b)          ->   <body of helper>, returned values dropped
    ... f(helper(a)) ...  ->   __ret = helper(a) expanded as above;  ... f(__ret) ...      (call hoisted out of a simple statement)

Early returns of the helper become if/else nesting (single-exit form); a helper that returns from inside a loop, is recursive, is a
generator, has nested defs or */** parameters, or captures a name the caller binds locally, is left alone (the rules then see an opaque call
and answer as they would for any unknown callee).  A helper whose every use was expanded and that nobody else references is dropped
from the module, so that who-may-write rules do not see its statements twice.  Inlined statements keep their own line numbers."""
from __future__ import annotations

import ast
import builtins
import copy

BUILTIN_NAMES = set(dir(builtins))
MAX_ROUNDS = 5


def _own(fn):
    """nodes of fn without nested defs/classes (lambdas and comprehensions included)"""
    todo = list(ast.iter_child_nodes(fn))
    while todo:
        n = todo.pop()
        yield n
        if isinstance(n, (ast.FunctionDef, ast.AsyncFunctionDef, ast.ClassDef)):
            continue
        todo.extend(ast.iter_child_nodes(n))


def _bound_names(fn) -> set[str]:
    out = set()
    for n in _own(fn):
        if isinstance(n, ast.Name) and isinstance(n.ctx, (ast.Store, ast.Del)):
            out.add(n.id)
        elif isinstance(n, ast.ExceptHandler) and n.name:
            out.add(n.name)
        elif isinstance(n, (ast.FunctionDef, ast.AsyncFunctionDef, ast.ClassDef)):
            out.add(n.name)
        elif isinstance(n, (ast.Import, ast.ImportFrom)):
            for a in n.names:
                out.add((a.asname or a.name).split('.')[0])
    return out


def _params(fn) -> list[str]:
    a = fn.args
    return [x.arg for x in a.posonlyargs + a.args + a.kwonlyargs]


def _all_names(fn) -> set[str]:
    out = {n.id for n in ast.walk(fn) if isinstance(n, ast.Name)}
    out |= {a.arg for n in ast.walk(fn) if isinstance(n, ast.arguments) for a in n.posonlyargs + n.args + n.kwonlyargs}
    return out


def _has_return(stmts) -> bool:
    for s in stmts:
        for n in [s] + list(_own(s)):
            if isinstance(n, ast.Return):
                return True
    return False


def _return_in_loop(stmts) -> bool:
    for s in stmts:
        for n in [s] + list(_own(s)):
            if isinstance(n, (ast.For, ast.While, ast.Try, ast.With, ast.AsyncFor, ast.AsyncWith)) and _has_return([n]):
                return True
    return False


def _always_returns(stmts) -> bool:
    if not stmts:
        return False
    last = stmts[-1]
    if isinstance(last, (ast.Return, ast.Raise)):
        return True
    if isinstance(last, ast.If):
        return _always_returns(last.body) and _always_returns(last.orelse)
    return False


def _single_exit(stmts, mk):
    """replace every `return v` by mk(v) (a list of statements), turning early returns into if/else nesting"""
    out = []
    for k, s in enumerate(stmts):
        if isinstance(s, ast.Return):
            out.extend(mk(s))
            return out
        if isinstance(s, ast.If) and (_has_return(s.body) or _has_return(s.orelse)):
            rest = stmts[k + 1:]
            body = list(s.body) + ([] if _always_returns(s.body) else copy.deepcopy(rest))
            orelse = list(s.orelse) + ([] if _always_returns(s.orelse) else copy.deepcopy(rest))
            new = ast.copy_location(ast.If(test=s.test, body=_single_exit(body, mk) or [ast.copy_location(ast.Pass(), s)], orelse=_single_exit(orelse, mk)), s)
            out.append(new)
            return out
        out.append(s)
    return out


class _Rename(ast.NodeTransformer):
    def __init__(self, mapping: dict[str, ast.AST | str]):
        self.mapping = mapping

    def visit_Name(self, node):
        r = self.mapping.get(node.id)
        if r is None:
            return node
        if isinstance(r, str):
            return ast.copy_location(ast.Name(r, node.ctx), node)
        return ast.copy_location(copy.deepcopy(r), node) if isinstance(node.ctx, ast.Load) else node

    def visit_arg(self, node):
        r = self.mapping.get(node.arg)
        if isinstance(r, str):
            node.arg = r
        return node

    def visit_ExceptHandler(self, node):
        r = self.mapping.get(node.name) if node.name else None
        if isinstance(r, str):
            node.name = r
        self.generic_visit(node)
        return node


def _simple_arg(e) -> bool:
    if isinstance(e, (ast.Name, ast.Constant)):
        return True
    if isinstance(e, ast.Attribute):
        return _simple_arg(e.value)
    if isinstance(e, ast.UnaryOp) and isinstance(e.operand, ast.Constant):
        return True
    return False


def _call_key(call):
    """'name' for name(...), 'self.name' for self.name(...), else None"""
    f = call.func
    if isinstance(f, ast.Name):
        return f.id
    if isinstance(f, ast.Attribute) and isinstance(f.value, ast.Name) and f.value.id == 'self':
        return 'self.' + f.attr
    return None


class Inliner:
    def __init__(self, tree: ast.Module, modname: str, baseline: set[str] | None, ext_refs: set[str]):
        self.tree, self.modname, self.baseline, self.ext_refs = tree, modname, baseline, ext_refs
        self.counter = 0
        self.expanded: dict[str, int] = {}
        self.log: list[str] = []

    # -- candidates ---------------------------------------------------------------------
    def _aliased_known(self) -> set:
        """module-level functions that a class keeps under the name of a method of the confirmed tree (`_add = staticmethod(_update)`): the
        method moved out of its class; it is the known function, not a new helper"""
        if not hasattr(self, '_alias_cache'):
            out = set()
            for c in self.tree.body:
                if isinstance(c, ast.ClassDef):
                    for st in c.body:
                        if isinstance(st, ast.Assign) and len(st.targets) == 1 and isinstance(st.targets[0], ast.Name):
                            v = st.value
                            if isinstance(v, ast.Call) and isinstance(v.func, ast.Name) and v.func.id in ('staticmethod', 'classmethod') and len(v.args) == 1:
                                v = v.args[0]
                            if isinstance(v, ast.Name) and f'{c.name}.{st.targets[0].id}' in (self.baseline or ()):
                                out.add(v.id)
            self._alias_cache = out
        return self._alias_cache

    def eligible(self, fn: ast.FunctionDef, qual: str) -> bool:
        if self.baseline is None or qual in self.baseline or qual in self._aliased_known():
            return False
        if isinstance(fn, ast.AsyncFunctionDef) or fn.args.vararg or fn.args.kwarg:
            return False
        for d in fn.decorator_list:
            if 'jit' not in ast.unparse(d) and ast.unparse(d) != 'staticmethod':
                return False
        for n in _own(fn):
            if isinstance(n, (ast.Yield, ast.YieldFrom, ast.Await, ast.Global, ast.Nonlocal, ast.FunctionDef, ast.AsyncFunctionDef, ast.ClassDef)):
                return False
            if isinstance(n, ast.Call) and isinstance(n.func, ast.Name) and n.func.id == fn.name:
                return False
        return True

    # -- generator fusion ------------------------------------------------------------------
    def _generators(self):
        """new module-level generator functions of the shape  <simple statements>; for/while ...: ... yield v  (one yield, in tail position of the
        loop body, the loop being the last statement): a loop over such a generator is the generator's own loop with the consumer's body in
        place of the yield"""
        out = {}
        for n in self.tree.body:
            if not isinstance(n, ast.FunctionDef) or self.baseline is None or n.name in self.baseline or n.name in self._aliased_known():
                continue
            if n.decorator_list or n.args.vararg or n.args.kwarg:
                continue
            own = list(_own(n))
            ys = [x for x in own if isinstance(x, (ast.Yield, ast.YieldFrom))]
            if len(ys) != 1 or isinstance(ys[0], ast.YieldFrom) or ys[0].value is None:
                continue
            if any(isinstance(x, ast.Return) and x.value is not None for x in own) or any(isinstance(x, (ast.FunctionDef, ast.AsyncFunctionDef, ast.ClassDef, ast.Lambda, ast.Global, ast.Nonlocal, ast.Try, ast.With)) for x in own):
                continue
            body = [s_ for s_ in n.body if not (isinstance(s_, ast.Expr) and isinstance(s_.value, ast.Constant) and isinstance(s_.value.value, str))]
            if not body or not isinstance(body[-1], (ast.For, ast.While)) or body[-1].orelse:
                continue
            if any(isinstance(x, (ast.For, ast.While, ast.If, ast.Return)) for s_ in body[:-1] for x in ast.walk(s_)):
                continue

            def tail_yield(stmts):
                if not stmts:
                    return False
                last = stmts[-1]
                if any(isinstance(x, ast.Yield) for s_ in stmts[:-1] for x in ast.walk(s_)):
                    return False
                if isinstance(last, ast.Expr) and isinstance(last.value, ast.Yield):
                    return True
                if isinstance(last, ast.If):
                    in_body = any(isinstance(x, ast.Yield) for s_ in last.body for x in ast.walk(s_))
                    in_else = any(isinstance(x, ast.Yield) for s_ in last.orelse for x in ast.walk(s_))
                    if in_body and not in_else:
                        return tail_yield(last.body)
                    if in_else and not in_body:
                        return tail_yield(last.orelse)
                return False
            if tail_yield(body[-1].body):
                out[n.name] = n
        return out

    def _fuse_generators(self):
        gens = self._generators()
        if not gens:
            return
        for holder, qual in list(self._functions(self.tree.body, '')):
            if holder.name in gens:
                continue
            caller_bound = _bound_names(holder) | set(_params(holder))

            def process(body):
                i = 0
                while i < len(body):
                    st = body[i]
                    for f in ('body', 'orelse', 'finalbody'):
                        b = getattr(st, f, None)
                        if isinstance(b, list) and b and isinstance(b[0], ast.stmt) and not isinstance(st, (ast.FunctionDef, ast.AsyncFunctionDef, ast.ClassDef)):
                            process(b)
                    if isinstance(st, ast.For) and not st.orelse:
                        it = st.iter
                        counter, start = None, 0
                        if isinstance(it, ast.Call) and isinstance(it.func, ast.Name) and it.func.id == 'enumerate' and it.args and isinstance(st.target, ast.Tuple) and len(st.target.elts) == 2 and isinstance(st.target.elts[0], ast.Name):
                            sv = it.args[1] if len(it.args) > 1 else next((k.value for k in it.keywords if k.arg == 'start'), ast.Constant(0))
                            if isinstance(sv, ast.Constant) and isinstance(sv.value, int):
                                counter, start, it = st.target.elts[0].id, sv.value, it.args[0]
                        drop = None
                        if isinstance(it, ast.Name) and i > 0 and isinstance(body[i - 1], ast.Assign) and len(body[i - 1].targets) == 1 and isinstance(body[i - 1].targets[0], ast.Name) and body[i - 1].targets[0].id == it.id \
                                and sum(1 for x in ast.walk(holder) if isinstance(x, ast.Name) and x.id == it.id) == 2:
                            drop, it = body[i - 1], body[i - 1].value
                        if isinstance(it, ast.Call) and isinstance(it.func, ast.Name) and it.func.id in gens:
                            inst = self._instantiate(gens[it.func.id], it, holder, False, caller_bound)
                            if inst is not None:
                                target = st.target.elts[1] if counter is not None else st.target
                                done = False
                                for holder2 in ast.walk(ast.Module(body=inst, type_ignores=[])):
                                    for f in ('body', 'orelse'):
                                        b = getattr(holder2, f, None)
                                        if isinstance(b, list):
                                            for j, x in enumerate(b):
                                                if isinstance(x, ast.Expr) and isinstance(x.value, ast.Yield):
                                                    rep = []
                                                    if counter is not None:
                                                        rep.append(ast.AugAssign(target=ast.Name(counter, ast.Store()), op=ast.Add(), value=ast.Constant(1)))
                                                    rep.append(ast.Assign(targets=[copy.deepcopy(target)], value=x.value.value))
                                                    rep += st.body
                                                    for r_ in rep:
                                                        ast.copy_location(r_, x) if not hasattr(r_, 'lineno') else None
                                                        ast.fix_missing_locations(r_)
                                                    b[j:j + 1] = rep
                                                    done = True
                                                    break
                                        if done:
                                            break
                                    if done:
                                        break
                                if done:
                                    new = []
                                    if counter is not None:
                                        new.append(ast.fix_missing_locations(ast.copy_location(ast.Assign(targets=[ast.Name(counter, ast.Store())], value=ast.Constant(start - 1)), st)))
                                    new += inst
                                    lo = i - 1 if drop is not None else i
                                    body[lo:i + 1] = new
                                    self.expanded[it.func.id] = self.expanded.get(it.func.id, 0) + 1
                                    self.log.append(f'{holder.name}: loop over generator {it.func.id} fused at line {getattr(st, "lineno", "?")}')
                                    i = lo + len(new)
                                    continue
                    i += 1
            process(holder.body)

    # -- generator materialisation ----------------------------------------------------------
    PURE_CONSUMERS = {'list', 'tuple', 'set', 'frozenset', 'dict', 'min', 'max', 'sum', 'sorted', 'any', 'all', 'Counter', 'deque'}

    def _all_generators(self):
        """new generator functions (module level, or methods of a class called as self.name): name / 'self.name' -> (def, class name or None)"""
        out = {}

        def ok(n, qual):
            if self.baseline is None or qual in self.baseline or qual in self._aliased_known():
                return False
            if any(ast.unparse(d) not in ('staticmethod',) and 'jit' not in ast.unparse(d) for d in n.decorator_list) or n.args.vararg or n.args.kwarg:
                return False
            own = list(_own(n))
            if not any(isinstance(x, (ast.Yield, ast.YieldFrom)) for x in own):
                return False
            if any(isinstance(x, (ast.Return, ast.FunctionDef, ast.AsyncFunctionDef, ast.ClassDef, ast.Lambda, ast.Global, ast.Nonlocal)) for x in own):
                return False
            # every yield is a statement of its own (its value is not used)
            par = {}
            for x in ast.walk(n):
                for c in ast.iter_child_nodes(x):
                    par[c] = x
            if any(not isinstance(par.get(y), ast.Expr) for y in own if isinstance(y, (ast.Yield, ast.YieldFrom))):
                return False
            if any(isinstance(x, ast.Call) and _call_key(x) in (n.name, 'self.' + n.name) for x in own):
                return False
            return True
        for n in self.tree.body:
            if isinstance(n, ast.FunctionDef) and ok(n, n.name):
                out[n.name] = (n, None)
            elif isinstance(n, ast.ClassDef):
                for m_ in n.body:
                    if isinstance(m_, ast.FunctionDef) and ok(m_, n.name + '.' + m_.name):
                        out[(n.name, 'self.' + m_.name)] = (m_, n.name)
        return out

    def _materialise_generators(self):
        """CONSUMER(gen(args)) with a pure, exhaustive consumer (list, dict, min, sorted, ...) and  for T in gen(args): ...  whose body writes nothing the
        generator reads:  the generator's body is placed before the statement with every `yield v` turned into `acc.append(v)`, and the call
        becomes `acc` - the values and their order are the same, only the laziness is gone"""
        gens = self._all_generators()
        if not gens:
            return
        for holder, qual in list(self._functions(self.tree.body, '')):
            cls = qual.split('.')[0] if '.' in qual else None
            scope = {k: v[0] for k, v in gens.items() if isinstance(k, str) and v[0] is not holder}
            scope.update({k[1]: v[0] for k, v in gens.items() if isinstance(k, tuple) and k[0] == cls and v[0] is not holder})
            if not scope:
                continue
            caller_bound = _bound_names(holder) | set(_params(holder))

            def process(body):
                i = 0
                while i < len(body):
                    st = body[i]
                    if isinstance(st, (ast.FunctionDef, ast.AsyncFunctionDef, ast.ClassDef)):
                        i += 1
                        continue
                    for f in ('body', 'orelse', 'finalbody'):
                        b = getattr(st, f, None)
                        if isinstance(b, list) and b and isinstance(b[0], ast.stmt):
                            process(b)
                    if isinstance(st, ast.Try):
                        for h in st.handlers:
                            process(h.body)
                    found = self._find_call(st, scope)
                    if found is not None:
                        call, parent, direct = found
                        helper = scope[_call_key(call)]
                        consumer_ok = False
                        if isinstance(st, ast.For) and st.iter is call:
                            # the loop body must not write what the generator reads
                            reads = {x.id for x in _own(helper) if isinstance(x, ast.Name)} | {x.attr for x in _own(helper) if isinstance(x, ast.Attribute)}
                            writes = set()
                            for b_ in st.body:
                                for x in ast.walk(b_):
                                    if isinstance(x, (ast.Name, ast.Attribute, ast.Subscript)) and isinstance(getattr(x, 'ctx', None), (ast.Store, ast.Del)):
                                        r = x
                                        while isinstance(r, ast.Subscript):
                                            r = r.value
                                        writes.add(r.id if isinstance(r, ast.Name) else (r.attr if isinstance(r, ast.Attribute) else None))
                                    if isinstance(x, ast.Call) and isinstance(x.func, ast.Attribute) and isinstance(x.func.value, ast.Attribute):
                                        writes.add(x.func.value.attr)
                            consumer_ok = not (reads & (writes - {None})) - set(_params(helper))
                        elif isinstance(parent, ast.Call) and isinstance(parent.func, ast.Name) and parent.func.id in self.PURE_CONSUMERS and parent.args and parent.args[0] is call:
                            consumer_ok = True
                        elif isinstance(parent, ast.Call) and isinstance(parent.func, ast.Attribute) and parent.func.attr in ('update', 'extend', 'join') and parent.args and parent.args[0] is call:
                            consumer_ok = True
                        if consumer_ok:
                            inst = self._instantiate(helper, call, holder, False, caller_bound)
                            if inst is not None:
                                self.counter += 1
                                acc = f'__gen{self.counter}'

                                class Y(ast.NodeTransformer):
                                    def visit_Expr(yself, node):
                                        if isinstance(node.value, ast.Yield):
                                            v = node.value.value if node.value.value is not None else ast.Constant(None)
                                            return ast.copy_location(ast.Expr(ast.Call(func=ast.Attribute(value=ast.Name(acc, ast.Load()), attr='append', ctx=ast.Load()), args=[v], keywords=[])), node)
                                        if isinstance(node.value, ast.YieldFrom):
                                            return ast.copy_location(ast.Expr(ast.Call(func=ast.Attribute(value=ast.Name(acc, ast.Load()), attr='extend', ctx=ast.Load()), args=[node.value.value], keywords=[])), node)
                                        return node

                                    def visit_FunctionDef(yself, node):
                                        return node
                                new = [ast.Assign(targets=[ast.Name(acc, ast.Store())], value=ast.List(elts=[], ctx=ast.Load()))] + [Y().visit(x) for x in inst]
                                for x in new:
                                    ast.copy_location(x, st) if not hasattr(x, 'lineno') else None
                                    ast.fix_missing_locations(x)
                                _replace_child(st, call, ast.copy_location(ast.Name(acc, ast.Load()), call))
                                body[i:i] = new
                                self.expanded[helper.name] = self.expanded.get(helper.name, 0) + 1
                                self.log.append(f'{holder.name}: generator {helper.name} materialised at line {getattr(st, "lineno", "?")}')
                                i += len(new)
                                continue
                    i += 1
            process(holder.body)

    def run(self):
        try:
            self._fuse_generators()
        except Exception as e:      # a fusion that cannot be built leaves the code as it is
            self.log.append(f'generator fusion skipped: {type(e).__name__}: {e}')
        try:
            self._materialise_generators()
        except Exception as e:
            self.log.append(f'generator materialisation skipped: {type(e).__name__}: {e}')
        for _ in range(MAX_ROUNDS):
            changed = False
            top = {n.name: n for n in self.tree.body if isinstance(n, (ast.FunctionDef, ast.AsyncFunctionDef))}
            cands = {name: fn for name, fn in top.items() if self.eligible(fn, name)}
            # new methods of a class, called as self.name(...) from methods of the same class
            class_methods = {}
            for c in self.tree.body:
                if isinstance(c, ast.ClassDef):
                    class_methods[c.name] = {n.name: n for n in c.body if isinstance(n, ast.FunctionDef) and self.eligible(n, c.name + '.' + n.name)}
            for holder, qual in self._functions(self.tree.body, ''):
                all_nested = [n for n in _own(holder) if isinstance(n, ast.FunctionDef) and self._direct(holder, n)]
                known_nested = [q for q in (self.baseline or ()) if q.startswith(qual + '.') and '.' not in q[len(qual) + 1:]]
                # as many nested functions as the confirmed tree had: they are the known ones (possibly renamed), not new helpers
                renamed_only = len(all_nested) <= len(known_nested)
                nested = {n.name: n for n in all_nested if not renamed_only and self.eligible(n, qual + '.' + n.name)}
                scope = {**{k: (v, False) for k, v in cands.items() if v is not holder}, **{k: (v, True) for k, v in nested.items()}}
                cls = qual.split('.')[0] if '.' in qual else None
                if cls in class_methods:
                    scope.update({'self.' + k: (v, False) for k, v in class_methods[cls].items() if v is not holder})
                if scope and self._expand_in(holder, scope):
                    changed = True
            if not changed:
                break
        self._drop_dead()
        return self.log

    def _functions(self, body, prefix):
        for n in body:
            if isinstance(n, (ast.FunctionDef, ast.AsyncFunctionDef)):
                yield n, prefix + n.name
                yield from self._functions([x for x in _own(n) if isinstance(x, (ast.FunctionDef, ast.AsyncFunctionDef)) and self._direct(n, x)], prefix + n.name + '.')
            elif isinstance(n, ast.ClassDef):
                yield from self._functions(n.body, prefix + n.name + '.')

    @staticmethod
    def _direct(fn, inner) -> bool:
        return any(x is inner for x in _own(fn))

    # -- expansion ----------------------------------------------------------------------
    def _expand_in(self, holder, scope) -> bool:
        changed = False
        caller_bound = _bound_names(holder) | set(_params(holder))

        def process(body):
            nonlocal changed
            out = []
            for st in body:
                if isinstance(st, (ast.FunctionDef, ast.AsyncFunctionDef, ast.ClassDef)):
                    out.append(st)
                    continue
                for f in ('body', 'orelse', 'finalbody'):
                    b = getattr(st, f, None)
                    if isinstance(b, list) and b and isinstance(b[0], ast.stmt):
                        setattr(st, f, process(b))
                if isinstance(st, ast.Try):
                    for h in st.handlers:
                        h.body = process(h.body)
                pre = self._expand_stmt(st, holder, scope, caller_bound)
                if pre is not None:
                    changed = True
                    out.extend(pre)
                else:
                    out.append(st)
            return out
        holder.body = process(holder.body)
        return changed

    def _find_call(self, st, scope):
        """the first call to a candidate helper in the header expressions of st that may be hoisted; returns (call, parent, direct)"""
        if isinstance(st, (ast.Assign, ast.AnnAssign, ast.AugAssign, ast.Expr, ast.Return)):
            roots = [st.value] if st.value is not None else []
        elif isinstance(st, ast.If):
            roots = [st.test]
        elif isinstance(st, ast.For):
            roots = [st.iter]
        else:
            return None
        for root in roots:
            if isinstance(root, ast.Call) and _call_key(root) in scope and not isinstance(st, (ast.If, ast.For, ast.AugAssign, ast.AnnAssign)):
                return root, None, True
            if isinstance(root, ast.Call) and _call_key(root) in scope:
                inner = self._search(root, scope)
                return (inner[0], inner[1], False) if inner is not None else (root, st, False)
            found = self._search(root, scope)
            if found is not None:
                return found[0], found[1], False
        return None

    def _search(self, node, scope):
        # depth-first, evaluation order; never below lambda / comprehension / short-circuit / conditional expression
        if isinstance(node, (ast.Lambda, ast.ListComp, ast.SetComp, ast.DictComp, ast.GeneratorExp, ast.BoolOp, ast.IfExp)):
            if isinstance(node, ast.BoolOp):
                return self._search_child(node, node.values[0], scope)
            if isinstance(node, ast.IfExp):
                return self._search_child(node, node.test, scope)
            if isinstance(node, (ast.ListComp, ast.SetComp, ast.DictComp, ast.GeneratorExp)):
                return self._search_child(node.generators[0], node.generators[0].iter, scope)
            return None
        for child in ast.iter_child_nodes(node):
            r = self._search_child(node, child, scope)
            if r is not None:
                return r
        return None

    def _search_child(self, parent, child, scope):
        if isinstance(child, ast.Call) and _call_key(child) in scope:
            inner = self._search(child, scope)
            return inner if inner is not None else (child, parent)
        if isinstance(child, ast.AST):
            return self._search(child, scope)
        return None

    def _expand_stmt(self, st, holder, scope, caller_bound):
        found = self._find_call(st, scope)
        if found is None:
            return None
        call, parent, direct = found
        helper, is_nested = scope[_call_key(call)]
        if not direct:
            self.counter += 1
            tmp = f'__ret{self.counter}'
            asg = ast.copy_location(ast.Assign(targets=[ast.Name(tmp, ast.Store())], value=call), call)
            ast.fix_missing_locations(asg)
            pre = self._expand_stmt(asg, holder, scope, caller_bound)
            if pre is None:
                return None
            _replace_child(st, call, ast.copy_location(ast.Name(tmp, ast.Load()), call))
            more = self._expand_stmt(st, holder, scope, caller_bound)
            return pre + (more if more is not None else [st])
        body = self._instantiate(helper, call, holder, is_nested, caller_bound)
        if body is None:
            return None
        if isinstance(st, ast.Return):
            res = body
            if not _always_returns(res):
                res = res + [ast.copy_location(ast.Return(ast.Constant(None)), st)]
        elif isinstance(st, ast.Expr):
            def mk(r):
                return [ast.copy_location(ast.Expr(r.value), r)] if isinstance(r.value, ast.Call) else []
            if _return_in_loop(body):
                return None
            res = _single_exit(body, mk) or [ast.copy_location(ast.Pass(), st)]
        else:
            if _return_in_loop(body):
                return None
            targets = st.targets

            def mk(r):
                a = ast.Assign(targets=copy.deepcopy(targets), value=r.value if r.value is not None else ast.Constant(None))
                return [ast.fix_missing_locations(ast.copy_location(a, r))]
            res = _single_exit(body, mk)
            if not _always_returns(body):
                res = [ast.fix_missing_locations(ast.copy_location(ast.Assign(targets=copy.deepcopy(targets), value=ast.Constant(None)), st))] + res
        self.expanded[helper.name] = self.expanded.get(helper.name, 0) + 1
        self.log.append(f'{holder.name}: expanded call to {helper.name} at line {getattr(st, "lineno", "?")}')
        return res

    def _instantiate(self, helper, call, holder, is_nested, caller_bound):
        if any(isinstance(a, ast.Starred) for a in call.args) or any(k.arg is None for k in call.keywords):
            return None
        a = helper.args
        pos = [x.arg for x in a.posonlyargs + a.args]
        is_method_call = isinstance(call.func, ast.Attribute)
        static = any(ast.unparse(d) == 'staticmethod' for d in helper.decorator_list)
        self_param = None
        if is_method_call and not static:
            if not pos:
                return None
            self_param, pos = pos[0], pos[1:]
        defaults = dict(zip(pos[len(pos) - len(a.defaults):], a.defaults))
        for k, d in zip(a.kwonlyargs, a.kw_defaults):
            if d is not None:
                defaults[k.arg] = d
        if len(call.args) > len(pos):
            return None
        given = dict(zip(pos, call.args))
        for k in call.keywords:
            if k.arg in given or k.arg not in _params(helper):
                return None
            given[k.arg] = k.value
        if self_param is not None:
            given[self_param] = ast.Name('self', ast.Load())
        for p in _params(helper):
            if p not in given:
                if p not in defaults:
                    return None
                given[p] = defaults[p]
        bound = _bound_names(helper)
        hparams = _params(helper)
        if not is_nested:
            free = {n.id for n in _own(helper) if isinstance(n, ast.Name) and isinstance(n.ctx, ast.Load)} - bound - set(hparams) - BUILTIN_NAMES
            if free & caller_bound:
                return None      # the helper's global would be captured by a local of the caller
        body = copy.deepcopy([s for s in helper.body if not (isinstance(s, ast.Expr) and isinstance(s.value, ast.Constant) and isinstance(s.value.value, str))])
        self.counter += 1
        sfx = f'__h{self.counter}'
        taken = _all_names(holder) - ({helper.name} if is_nested else set())
        mapping: dict[str, ast.AST | str] = {}
        prologue = []
        for p in hparams:
            arg = given[p]
            if p not in bound and _simple_arg(arg):
                mapping[p] = arg
            else:
                new = p + sfx if p in taken else p
                if new != p:
                    mapping[p] = new
                prologue.append(ast.fix_missing_locations(ast.copy_location(ast.Assign(targets=[ast.Name(new, ast.Store())], value=copy.deepcopy(arg)), call)))
        for b in bound:
            if b in hparams:
                continue
            if b in taken:
                mapping[b] = b + sfx
        # a parameter that is substituted by an argument expression and is shadowed by a lambda / comprehension variable: give up
        for n in ast.walk(ast.Module(body=body, type_ignores=[])):
            if isinstance(n, ast.arg) and n.arg in mapping and not isinstance(mapping[n.arg], str):
                return None
        ren = _Rename(mapping)
        body = [ren.visit(s) for s in body]
        for s in body:
            ast.fix_missing_locations(s)
        return prologue + body

    # -- clean-up -----------------------------------------------------------------------
    def _drop_dead(self):
        if not self.expanded:
            return

        def prune(body):
            for st in list(body):
                if isinstance(st, ast.FunctionDef) and st.name in self.expanded and st.name not in self.ext_refs:
                    refs = sum(1 for n in ast.walk(self.tree) if isinstance(n, ast.Name) and n.id == st.name and isinstance(n.ctx, ast.Load))
                    if refs == 0:
                        body.remove(st)
                        if not body:
                            body.append(ast.Pass())
                        continue
                if isinstance(st, ast.ClassDef):
                    for m_ in list(st.body):
                        if isinstance(m_, ast.FunctionDef) and m_.name in self.expanded and m_.name not in self.ext_refs:
                            refs = sum(1 for n in ast.walk(self.tree) if isinstance(n, ast.Attribute) and n.attr == m_.name)
                            if refs == 0:
                                st.body.remove(m_)
                if isinstance(st, (ast.FunctionDef, ast.AsyncFunctionDef)):
                    prune(st.body)
                    for n in _own(st):
                        for f in ('body', 'orelse', 'finalbody'):
                            b = getattr(n, f, None)
                            if isinstance(b, list) and b and isinstance(b[0], ast.stmt):
                                prune_inner(b)

        def prune_inner(body):
            for st in list(body):
                if isinstance(st, ast.FunctionDef) and st.name in self.expanded:
                    refs = sum(1 for n in ast.walk(self.tree) if isinstance(n, ast.Name) and n.id == st.name and isinstance(n.ctx, ast.Load))
                    if refs == 0:
                        body.remove(st)
                        if not body:
                            body.append(ast.Pass())
        prune(self.tree.body)


def _replace_child(root, old, new):
    for node in ast.walk(root):
        for field, value in ast.iter_fields(node):
            if value is old:
                setattr(node, field, new)
                return True
            if isinstance(value, list):
                for i, v in enumerate(value):
                    if v is old:
                        value[i] = new
                        return True
    return False


def inline_module(tree: ast.Module, modname: str, baseline: set[str] | None, ext_refs: set[str]) -> list[str]:
    return Inliner(tree, modname, baseline, ext_refs).run()
