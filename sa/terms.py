"""E5 - canonical terms.  Two expressions are "the same formula" iff their
canonical terms are equal: renaming of single-definition locals, re-bracketing,
operand order of commutative operators, ufunc-vs-operator spellings and the
direction of comparisons never matter."""
from __future__ import annotations

import ast
import copy

from .model import Func, Module, const_value

UFUNC_BINOPS = {
    'numpy.divide': '/', 'numpy.true_divide': '/', 'numpy.subtract': '-', 'numpy.add': '+', 'numpy.multiply': '*',
    'numpy.power': '**', 'numpy.mod': '%', 'numpy.remainder': '%', 'numpy.floor_divide': '//',
    'operator.add': '+', 'operator.sub': '-', 'operator.mul': '*', 'operator.truediv': '/',
}
UFUNC_CMPS = {'numpy.equal': '==', 'numpy.not_equal': '!=', 'numpy.less': '<', 'numpy.less_equal': '<=', 'numpy.greater': '>', 'numpy.greater_equal': '>='}
METHOD_AS_FUNC = {'all': 'numpy.all', 'any': 'numpy.any', 'sum': 'numpy.sum', 'max': 'numpy.max', 'min': 'numpy.min', 'mean': 'numpy.mean'}
BINOPS = {ast.Add: '+', ast.Sub: '-', ast.Mult: '*', ast.Div: '/', ast.FloorDiv: '//', ast.Mod: '%', ast.Pow: '**',
          ast.LShift: '<<', ast.RShift: '>>', ast.BitAnd: '&', ast.BitOr: '|', ast.BitXor: '^', ast.MatMult: '@'}
CMPOPS = {ast.Eq: '==', ast.NotEq: '!=', ast.Lt: '<', ast.LtE: '<=', ast.Gt: '>', ast.GtE: '>=', ast.In: 'in', ast.NotIn: 'notin', ast.Is: 'is', ast.IsNot: 'isnot'}
KNOWN_LIBS = {'numba', 'outrank', 'numpy', 'math', 'xxhash', 'csv', 'itertools', 'pandas', 'random', 'operator', 'scipy', 'sklearn', 'json', 'os', 'heapq', 'collections', 'functools', 'statistics'}
FLIP = {'>': '<', '>=': '<=', '<': '>', '<=': '>='}
NEGATE = {'==': '!=', '!=': '==', '<': '>=', '<=': '>', '>': '<=', '>=': '<', 'in': 'notin', 'notin': 'in', 'is': 'isnot', 'isnot': 'is'}


class Scope:
    """Definitions of local names inside one function (flow-insensitive)."""

    def __init__(self, fn: Func | None):
        self.fn = fn
        self.defs: dict[str, list[ast.AST | None]] = {}
        if fn is None:
            return
        for p in fn.params:
            self.defs.setdefault(p, []).append(None)
        for n in _own_walk(fn.node):
            if isinstance(n, ast.Assign):
                for t in n.targets:
                    self._bind(t, n.value)
            elif isinstance(n, ast.AnnAssign) and n.value is not None:
                self._bind(n.target, n.value)
            elif isinstance(n, ast.AugAssign):
                self._bind(n.target, None)
            elif isinstance(n, (ast.For, ast.AsyncFor)):
                self._bind(n.target, None)
            elif isinstance(n, ast.comprehension):
                self._bind(n.target, None)
            elif isinstance(n, (ast.With, ast.AsyncWith)):
                for i in n.items:
                    if i.optional_vars is not None:
                        self._bind(i.optional_vars, None)
            elif isinstance(n, ast.NamedExpr):
                self._bind(n.target, n.value)
            elif isinstance(n, (ast.Global, ast.Nonlocal)):
                for name in n.names:
                    self.defs.setdefault(name, []).extend([None, None])
            elif isinstance(n, ast.ExceptHandler) and n.name:
                self.defs.setdefault(n.name, []).append(None)
            elif isinstance(n, (ast.FunctionDef, ast.AsyncFunctionDef)) and n is not fn.node:
                self.defs.setdefault(n.name, []).append(None)
            elif isinstance(n, ast.Delete):
                pass

    def _bind(self, target, value):
        if isinstance(target, ast.Name):
            self.defs.setdefault(target.id, []).append(value)
        elif isinstance(target, (ast.Tuple, ast.List)):
            for i, e in enumerate(target.elts):
                if isinstance(value, (ast.Tuple, ast.List)) and len(value.elts) == len(target.elts):
                    self._bind(e, value.elts[i])
                elif value is not None and not isinstance(value, (ast.Tuple, ast.List)) and not any(isinstance(x, ast.Starred) for x in target.elts):
                    # a, b = <expr>: a is <expr>[0], b is <expr>[1]
                    sub = ast.Subscript(value=value, slice=ast.Constant(i), ctx=ast.Load())
                    ast.copy_location(sub, value)
                    ast.fix_missing_locations(sub)
                    self._bind(e, sub)
                else:
                    self._bind(e, None)
        elif isinstance(target, ast.Starred):
            self._bind(target.value, None)

    def single_def(self, name: str):
        d = self.defs.get(name)
        if d and len(d) == 1 and d[0] is not None:
            return d[0]
        return None


def _own_walk(fn):
    stack = list(ast.iter_child_nodes(fn))
    while stack:
        n = stack.pop()
        yield n
        if isinstance(n, (ast.FunctionDef, ast.AsyncFunctionDef, ast.ClassDef, ast.Lambda)):
            if isinstance(n, ast.Lambda):
                continue
            continue
        stack.extend(ast.iter_child_nodes(n))


METHOD_PARAMS = {'groupby': 'by', 'sort_values': 'by', 'to_csv': 'path_or_buf', 'astype': 'dtype', 'drop_duplicates': 'subset', 'fillna': 'value', 'isin': 'values', 'nlargest': 'n', 'nsmallest': 'n'}

LIB_PARAMS = {
    'scipy.stats.pearsonr': ['x', 'y'], 'scipy.stats.spearmanr': ['a', 'b'], 'scipy.stats.kendalltau': ['x', 'y'],
    'sklearn.feature_selection.mutual_info_classif': ['X', 'y'], 'sklearn.metrics.adjusted_mutual_info_score': ['labels_true', 'labels_pred'],
    'sklearn.metrics.mutual_info_score': ['labels_true', 'labels_pred'], 'sklearn.model_selection.cross_val_score': ['estimator', 'X', 'y'],
    'numpy.random.normal': ['loc', 'scale', 'size'], 'numpy.random.randint': ['low', 'high', 'size'], 'numpy.random.choice': ['a', 'size', 'replace', 'p'],
    'numpy.percentile': ['a', 'q'], 'numpy.column_stack': ['tup'], 'numpy.unique': ['ar'], 'numpy.where': ['condition', 'x', 'y'],
    'numpy.arange': ['start', 'stop', 'step'], 'numpy.zeros': ['shape', 'dtype'], 'numpy.empty': ['shape', 'dtype'], 'numpy.full': ['shape', 'fill_value', 'dtype'],
    'pandas.DataFrame': ['data'], 'pandas.concat': ['objs'],
}


class Canon:
    def __init__(self, module: Module, scope: Scope | None = None, inline: bool = True, bound: dict | None = None):
        self.m, self.scope, self.inline = module, scope or Scope(None), inline
        self.bound = bound or {}
        self._stack: list[str] = []
        self._arity: dict = {}

    _cdepth = 0

    def t(self, e: ast.AST):
        k = self._t(e)
        return alpha_norm(k)

    # ------------------------------------------------------------------
    def _t(self, e):
        try:
            v = const_value(e)
            if isinstance(v, bool):
                return ('bool', v)
            if isinstance(v, (int, float)):
                return ('num', float(v) if isinstance(v, float) and not float(v).is_integer() else (int(v) if float(v).is_integer() and abs(v) < 2**62 else v))
            if isinstance(v, str):
                return ('str', v)
            if v is None:
                return ('none',)
        except (ValueError, TypeError, OverflowError):
            pass
        if isinstance(e, ast.Name):
            if e.id in self.bound:
                return self.bound[e.id]
            if self.inline and e.id not in self._stack:
                d = self.scope.single_def(e.id)
                if d is not None:
                    self._stack.append(e.id)
                    try:
                        return self._t(d)
                    finally:
                        self._stack.pop()
            if e.id in self.scope.defs:
                return ('name', e.id)
            # a module-level name bound once to a string / number constant is that constant
            if self.inline:
                vals = self.m.assigns.get(e.id) or []
                if len(vals) == 1 and isinstance(vals[0], ast.Constant) and isinstance(vals[0].value, (str, int, float)) and not isinstance(vals[0].value, bool) and not self.m.rebinds_global(e.id):
                    return self._t(vals[0])
            dotted = self.m.dotted(e)
            if dotted and dotted != e.id:
                return ('lib', dotted)
            return ('name', e.id)
        if isinstance(e, ast.Attribute):
            dotted = self.m.dotted(e)
            head = e
            while isinstance(head, ast.Attribute):
                head = head.value
            if dotted and isinstance(head, ast.Name) and (head.id in self.m.imports or head.id in KNOWN_LIBS) and head.id not in self.scope.defs and head.id not in self.bound:
                return ('lib', dotted)
            d = self._derived(e)
            if d is not None:
                return self._t(d)
            base = self._t(e.value)
            # Record(field=a, other=b).field is a: a plain record class of the module (NamedTuple / dataclass with annotated fields, no hooks)
            fv = self._record_field(base, e.attr)
            if fv is not None:
                return fv
            return ('attr', base, e.attr)
        if isinstance(e, ast.UnaryOp):
            v = self._t(e.operand)
            if isinstance(e.op, ast.USub):
                return self._mul([('num', -1), v])
            if isinstance(e.op, ast.Not):
                return self._not(v)
            if isinstance(e.op, ast.UAdd):
                return v
            return ('invert', v)
        if isinstance(e, ast.BinOp):
            return self._bin(BINOPS[type(e.op)], self._t(e.left), self._t(e.right))
        if isinstance(e, ast.BoolOp):
            op = 'and' if isinstance(e.op, ast.And) else 'or'
            parts = []
            for v in e.values:
                tv = self._t(v)
                if tv[0] == op:
                    parts.extend(tv[1])
                else:
                    parts.append(tv)
            return (op, tuple(sorted(parts, key=_skey)))
        if isinstance(e, ast.Compare):
            parts = []
            left = self._t(e.left)
            for op, comp in zip(e.ops, e.comparators):
                right = self._t(comp)
                parts.append(self._cmp(CMPOPS[type(op)], left, right))
                left = right
            return parts[0] if len(parts) == 1 else ('and', tuple(sorted(parts, key=_skey)))
        if isinstance(e, ast.Call):
            return self._call(e)
        if isinstance(e, ast.Subscript):
            base, idx = self._t(e.value), self._t(e.slice)
            # s.partition(sep)[0] is s.split(sep)[0] (the text before the first separator)
            if idx == ('num', 0) and base[0] == 'call' and base[1][0] == 'attr' and base[1][2] == 'partition' and len(base[2]) == 1 and not base[3]:
                base = ('call', ('attr', base[1][1], 'split'), base[2], ())
            # s.split(sep, n)[0] with n >= 1 is s.split(sep)[0]
            if idx == ('num', 0) and base[0] == 'call' and base[1][0] == 'attr' and base[1][2] == 'split' and len(base[2]) == 2 and not base[3] and base[2][1][0] == 'num' and isinstance(base[2][1][1], int) and base[2][1][1] >= 1:
                base = ('call', ('attr', base[1][1], 'split'), (base[2][0],), ())
            # a table built as [f(i) for i in range(N)] (possibly wrapped in np.array) read at position k is f(k)
            tab = base
            if tab[0] == 'call' and tab[1] in (('lib', 'numpy.array'), ('lib', 'numpy.asarray'), ('name', 'list'), ('name', 'tuple')) and len(tab[2]) == 1:
                tab = tab[2][0]
            if tab[0] == 'listcomp' and len(tab[2]) == 1 and not tab[2][0][1] and tab[2][0][0][0] == 'call' and tab[2][0][0][1] == ('name', 'range') and len(tab[2][0][0][2]) == 1 and idx[0] not in ('slice', 'tuple'):
                cv_ = next((x for x in walk_term(tab[1]) if isinstance(x, tuple) and len(x) == 3 and x[0] == 'cvar'), None)
                if cv_ is not None:
                    def _rep_cv(t_):
                        if t_ == cv_:
                            return idx
                        if isinstance(t_, tuple):
                            return tuple(_rep_cv(y) for y in t_)
                        return t_
                    return _rep_cv(tab[1])
            # (a, b, c)[1] is b
            if base[0] in ('tuple', 'list') and idx[0] == 'num' and isinstance(idx[1], int) and 0 <= idx[1] < len(base) - 1:
                return base[1 + idx[1]]
            # (a, b, c)[:2] is (a, b): a literal sequence cut by constant bounds
            if base[0] in ('tuple', 'list') and idx[0] == 'slice' and all(b_ == ('none',) or (b_[0] == 'num' and isinstance(b_[1], int)) for b_ in idx[1:4]):
                lo, hi, st = [None if b_ == ('none',) else b_[1] for b_ in idx[1:4]]
                return (base[0],) + tuple(base[1:][slice(lo, hi, st)])
            if base[0] == 'attr' and base[2] == 'shape' and idx == ('num', 0):
                return ('call', ('name', 'len'), (base[1],), ())          # x.shape[0] is len(x)
            return ('sub', base, idx)
        if isinstance(e, ast.Slice):
            return ('slice', self._t(e.lower) if e.lower else ('none',), self._t(e.upper) if e.upper else ('none',), self._t(e.step) if e.step else ('none',))
        if isinstance(e, ast.Tuple):
            els = tuple(self._t(x) for x in e.elts)
            # (a, b, c) rebuilt from `for a, b, c in ...` is the element itself
            if els and all(x[0] == 'sub' and x[2] == ('num', j) for j, x in enumerate(els)) and len({x[1] for x in els}) == 1 and self._arity.get(els[0][1]) == len(els):
                return els[0][1]
            return ('tuple',) + els
        if isinstance(e, ast.List):
            return ('list',) + tuple(self._t(x) for x in e.elts)
        if isinstance(e, ast.Set):
            return ('set', tuple(sorted((self._t(x) for x in e.elts), key=_skey)))
        if isinstance(e, ast.Dict):
            return ('dict', tuple((self._t(k) if k is not None else ('splat',), self._t(v)) for k, v in zip(e.keys, e.values)))
        if isinstance(e, ast.IfExp):
            return ('ifexp', self._t(e.test), self._t(e.body), self._t(e.orelse))
        if isinstance(e, ast.JoinedStr):
            parts = []
            for v in e.values:
                if isinstance(v, ast.Constant):
                    parts.append(('str', v.value))
                elif v.conversion != -1 or v.format_spec is not None:
                    parts.append(('fmt', self._t(v.value), v.conversion, ast.unparse(v.format_spec) if v.format_spec is not None else ''))
                else:
                    parts.append(('fmt', self._t(v.value)))
            # an f-string whose fields are plain `{x}` is the concatenation of its pieces (a field of a concatenation is a string already)
            if len(parts) >= 2 and all(len(p_) == 2 for p_ in parts):
                return self._add([p_ if p_[0] == 'str' else p_[1] for p_ in parts] if any(p_[0] == 'str' for p_ in parts) else [('fstr', tuple(parts))])
            return ('fstr', tuple(parts))
        if isinstance(e, ast.Lambda):
            names = [a.arg for a in e.args.args]
            sub = Canon(self.m, self.scope, self.inline, {**self.bound, **{n: ('param', i) for i, n in enumerate(names)}})
            sub._cdepth, sub._arity, sub._stack = self._cdepth, self._arity, self._stack
            return ('lambda', len(names), sub._t(e.body))
        if isinstance(e, (ast.ListComp, ast.SetComp, ast.GeneratorExp, ast.DictComp)):
            e = _enumerate_of_comprehension(e)
            kind = {ast.ListComp: 'listcomp', ast.SetComp: 'setcomp', ast.GeneratorExp: 'genexp', ast.DictComp: 'dictcomp'}[type(e)]
            bound = dict(self.bound)
            gens = []
            for gi, g in enumerate(e.generators):
                sub = Canon(self.m, self.scope, self.inline, bound)
                sub._stack, sub._cdepth, sub._arity = self._stack, self._cdepth + gi, self._arity
                it = sub._t(g.iter)
                cv = ('cvar', self._cdepth + gi, 0)
                def _names_only(t):
                    return isinstance(t, ast.Name) or (isinstance(t, (ast.Tuple, ast.List)) and all(_names_only(x) for x in t.elts))

                def _bind(t, base):
                    # unpacking succeeded, so every element has exactly these positions: a name is the element's position
                    if isinstance(t, ast.Name):
                        bound[t.id] = base
                        return
                    self._arity[base] = len(t.elts)
                    for j, x in enumerate(t.elts):
                        _bind(x, ('sub', base, ('num', j)))
                if isinstance(g.target, ast.Name):
                    bound[g.target.id] = cv
                elif _names_only(g.target):
                    _bind(g.target, cv)
                else:
                    for j, nm in enumerate(_target_names(g.target)):
                        bound[nm] = ('cvar', self._cdepth + gi, 1 + j)
                sub = Canon(self.m, self.scope, self.inline, bound)
                sub._stack, sub._cdepth, sub._arity = self._stack, self._cdepth + gi + 1, self._arity
                gens.append((it, tuple(sub._t(c) for c in g.ifs)))
            sub = Canon(self.m, self.scope, self.inline, bound)
            sub._stack, sub._cdepth, sub._arity = self._stack, self._cdepth + len(e.generators), self._arity
            if isinstance(e, ast.DictComp):
                return (kind, ('pair', sub._t(e.key), sub._t(e.value)), tuple(gens))
            return (kind, sub._t(e.elt), tuple(gens))
        if isinstance(e, ast.Starred):
            return ('star', self._t(e.value))
        if isinstance(e, ast.NamedExpr):
            return self._t(e.value)
        return ('other', ast.dump(e))

    # ------------------------------------------------------------------
    def _record_field(self, base, attr):
        if not (isinstance(base, tuple) and len(base) == 4 and base[0] == 'call' and isinstance(base[1], tuple) and base[1][0] in ('lib', 'name')):
            return None
        cname = str(base[1][1]).split('.')[-1]
        cls = self.m.classes.get(cname)
        if cls is None or (base[1][0] == 'lib' and not str(base[1][1]).startswith(self.m.name + '.')):
            return None
        fields = [st.target.id for st in cls.body if isinstance(st, ast.AnnAssign) and isinstance(st.target, ast.Name)]
        methods = {st.name for st in cls.body if isinstance(st, (ast.FunctionDef, ast.AsyncFunctionDef))}
        if attr not in fields or methods & {'__post_init__', '__init__', '__new__', '__getattr__', '__getattribute__', '__setattr__', attr}:
            return None
        kws = dict(base[3]) if base[3] else {}
        if attr in kws:
            return kws[attr]
        i = fields.index(attr)
        if i < len(base[2]) and not any(isinstance(a, tuple) and a and a[0] == 'starred' for a in base[2]):
            return base[2][i]
        return None

    def _call(self, e: ast.Call):
        args = []
        for a in e.args:
            ta = self._t(a)
            if ta[0] == 'star' and isinstance(ta[1], tuple) and ta[1] and ta[1][0] in ('tuple', 'list'):
                args.extend(ta[1][1:])       # f(*(a, b)) is f(a, b)
            else:
                args.append(ta)
        kws = tuple(sorted(((k.arg or '**'), self._t(k.value)) for k in e.keywords))
        f = e.func
        dotted = None
        if isinstance(f, (ast.Name, ast.Attribute)):
            ft = self._t(f)
            if ft[0] == 'lib':
                dotted = ft[1]
        else:
            ft = self._t(f)
        if dotted in UFUNC_BINOPS and len(args) == 2 and not kws:
            return self._bin(UFUNC_BINOPS[dotted], args[0], args[1])
        # np.asarray(x) / np.asanyarray(x) without a dtype hold the values of x
        if dotted in ('numpy.asarray', 'numpy.asanyarray') and len(args) == 1 and not kws:
            return args[0]
        # np.arange(a, a + n[, 1])  is  np.arange(n) + a   (one canonical form for "n consecutive integers from a")
        if dotted == 'numpy.arange' and not kws and (len(args) == 2 or (len(args) == 3 and args[2] == ('num', 1))) and args[0] != ('num', 0):
            a, b = args[0], args[1]
            a_parts = list(a[1]) if a[0] == '+' else [a]
            b_parts = list(b[1]) if b[0] == '+' else [b]
            rest = list(b_parts)
            ok_ = True
            for q in a_parts:
                if q in rest:
                    rest.remove(q)
                else:
                    ok_ = False
                    break
            if ok_ and rest:
                n_ = rest[0] if len(rest) == 1 else self._add(rest)
                return self._add([('call', ('lib', 'numpy.arange'), (n_,), ()), a])
        if dotted == 'numpy.arange' and not kws and ((len(args) == 2 and args[0] == ('num', 0)) or (len(args) == 3 and args[0] == ('num', 0) and args[2] == ('num', 1))):
            return ('call', ('lib', 'numpy.arange'), (args[1],), ())
        if dotted in UFUNC_CMPS and len(args) == 2 and not kws:
            return self._cmp(UFUNC_CMPS[dotted], args[0], args[1])
        if dotted in ('numpy.abs', 'numpy.absolute', 'numpy.fabs') or (ft == ('name', 'abs')):
            if len(args) == 1:
                return ('call', ('lib', 'abs'), (args[0],), kws)
        # d.get(k, None) is d.get(k)
        if isinstance(f, ast.Attribute) and f.attr == 'get' and len(args) == 2 and args[1] == ('none',) and not kws:
            args = args[:1]
        # map(f, s) is (f(x) for x in s); filter(None, s) is (x for x in s if x)
        if ft in (('name', 'map'), ('lib', 'map')) and len(args) == 2 and not kws:
            cv = ('cvar', self._cdepth, 0)
            fterm = args[0]
            if fterm[0] == 'lambda' and fterm[1] == 1:
                body = _subst_param(fterm[2], cv)
            else:
                if fterm[0] == 'attr' and fterm[2] == 'get':
                    body = ('call', fterm, (cv,), ())
                else:
                    body = ('call', fterm, (cv,), ())
            return ('genexp', body, ((args[1], ()),))
        if ft in (('name', 'filter'), ('lib', 'filter')) and len(args) == 2 and not kws and args[0] == ('none',):
            cv = ('cvar', self._cdepth, 0)
            return ('genexp', cv, ((args[1], (cv,)),))
        if ft in (('name', 'list'), ('lib', 'list')) and len(args) == 1 and not kws and args[0][0] in ('genexp', 'listcomp'):
            return ('listcomp',) + args[0][1:]
        if dotted == 'itertools.chain.from_iterable' and len(args) == 1 and not kws and args[0][0] in ('genexp', 'listcomp') and args[0][1][0] == 'tuple':
            # flat-map: every element of the inner tuples, in order
            inner = args[0]
            return ('genexp', ('cvar', self._cdepth + len(inner[2]), 0), inner[2] + ((inner[1], ()),))
        if dotted == 'numpy.flatnonzero' and len(args) == 1 and not kws:
            return ('sub', ('call', ('lib', 'numpy.nonzero'), (args[0],), ()), ('num', 0))
        if dotted == 'numpy.where' and len(args) == 1 and not kws:
            return ('call', ('lib', 'numpy.nonzero'), (args[0],), ())
        if dotted == 'numpy.sum' and len(args) == 1 and not kws and args[0][0] == 'cmp':
            return ('call', ('lib', 'numpy.count_nonzero'), (args[0],), ())
        if isinstance(f, ast.Attribute) and ft[0] == 'attr' and f.attr == 'to_numpy' and not args and not kws:
            return ('attr', ft[1], 'values')
        if dotted == 'numpy.negative' and len(args) == 1:
            return self._mul([('num', -1), args[0]])
        if dotted == 'numpy.logical_not' and len(args) == 1:
            return self._not(args[0])
        if isinstance(f, ast.Attribute) and ft[0] == 'attr' and f.attr in METHOD_AS_FUNC and not args:
            if f.attr == 'sum' and not kws and ft[1][0] == 'cmp':
                return ('call', ('lib', 'numpy.count_nonzero'), (ft[1],), ())
            return ('call', ('lib', METHOD_AS_FUNC[f.attr]), (ft[1],), kws)
        # 'a{}b{}'.format(x, y) is the concatenation of its pieces (like an f-string with plain fields)
        if isinstance(f, ast.Attribute) and f.attr == 'format' and ft[0] == 'attr' and ft[1][0] == 'str' and not any(a[0] == 'star' for a in args):
            import string
            try:
                pieces = list(string.Formatter().parse(ft[1][1]))
            except ValueError:
                pieces = None
            if pieces is not None and all((not spec) and conv is None for _, _, spec, conv in pieces):
                parts, auto, okf = [], 0, True
                kwd = dict(kws)
                for lit, field, _spec, _conv in pieces:
                    if lit:
                        parts.append(('str', lit))
                    if field is None:
                        continue
                    if field == '':
                        idx, auto = auto, auto + 1
                    elif field.isdigit():
                        idx = int(field)
                    elif field in kwd:
                        parts.append(kwd[field])
                        continue
                    else:
                        okf = False
                        break
                    if idx >= len(args):
                        okf = False
                        break
                    parts.append(args[idx])
                if okf and parts:
                    if len(parts) == 1:
                        return parts[0] if parts[0][0] == 'str' else ('call', ('name', 'str'), (parts[0],), ())
                    if any(p_[0] == 'str' for p_ in parts):
                        return self._add(parts)
                    return ('fstr', tuple(('fmt', p_) for p_ in parts))      # like f'{a}{b}': pieces in order, no literal text
        # a call of a function of the package: keyword arguments are put into their positional slots (f(a, k=b) is f(a, b)) and trailing
        # arguments that restate a constant default are dropped - how the arguments are passed is not part of what is computed
        if kws or True:
            norm = self._normalise_repo_call(ft, args, kws, e)
            if norm is not None:
                args, kws = norm
            elif kws and dotted is None and isinstance(f, ast.Attribute) and f.attr in METHOD_PARAMS and not args and any(k_ == METHOD_PARAMS[f.attr] for k_, _ in kws):
                # obj.groupby(by=K) is obj.groupby(K)  (first parameter of a few pandas methods the rules name)
                first = METHOD_PARAMS[f.attr]
                args = [v_ for k_, v_ in kws if k_ == first]
                kws = tuple(sorted((k_, v_) for k_, v_ in kws if k_ != first))
            elif kws and dotted in LIB_PARAMS and not any(a[0] == 'star' for a in args):
                # leading parameters of a few library functions the rules name: f(x=a, y=b) is f(a, b)
                names = LIB_PARAMS[dotted]
                given = dict(zip(names, args))
                rest = []
                okk = len(args) <= len(names)
                for k_, v_ in kws:
                    if k_ in names and k_ not in given:
                        given[k_] = v_
                    elif k_ in given:
                        okk = False
                    else:
                        rest.append((k_, v_))
                pos = []
                for n_ in names:
                    if n_ in given:
                        pos.append(given[n_])
                    else:
                        break
                if okk and len(pos) == len(given):
                    args, kws = pos, tuple(sorted(rest))
        # a package helper whose body is a single `return <expr>` is the expression itself (helper extraction is tolerated)
        helper = self._single_return_helper(ft)
        if helper is not None and not kws and not any(isinstance(a, ast.Starred) for a in e.args) and len(self._stack) < 6:
            params = [a.arg for a in helper.node.args.args]
            if len(params) == len(args) and not helper.node.args.vararg and not helper.node.args.kwarg:
                body = [b for b in helper.node.body if not (isinstance(b, ast.Expr) and isinstance(b.value, ast.Constant))]
                self._stack.append('<call>' + helper.qualname)
                try:
                    sub = Canon(self.m, Scope(helper), self.inline, {**{k: v for k, v in self.bound.items() if k not in params}, **dict(zip(params, args))})
                    sub._stack = self._stack
                    sub._cdepth, sub._arity = self._cdepth + 8, self._arity      # comprehension variables of the helper body must not collide with those in scope at the call
                    return sub._t(body[0].value)
                finally:
                    self._stack.pop()
        return ('call', ft, tuple(args), kws)

    def _repo_callee(self, ft, e):
        """the Func a call term refers to, when it is a function / method of the package that can be told statically"""
        repo = getattr(self.m, 'repo', None)
        if ft[0] == 'lib' and ft[1].startswith('outrank.') and repo is not None:
            modname, _, fname = ft[1].rpartition('.')
            mod = repo.modules.get(modname)
            if mod is not None and fname in mod.funcs:
                return mod.funcs[fname], False
            # Class.method / module.Class.method
            m2, _, cname = modname.rpartition('.')
            mod = repo.modules.get(m2)
            if mod is not None and f'{cname}.{fname}' in mod.funcs:
                return mod.funcs[f'{cname}.{fname}'], False
        if ft[0] == 'name' and ft[1] in self.m.funcs and ft[1] not in self.scope.defs:
            return self.m.funcs[ft[1]], False
        if ft[0] == 'attr' and ft[1] == ('name', 'self') and self.scope.fn is not None and getattr(self.scope.fn, 'cls', None) is not None:
            q = f'{self.scope.fn.cls.name}.{ft[2]}'
            if q in self.m.funcs:
                return self.m.funcs[q], True
        return None

    def _normalise_repo_call(self, ft, args, kws, e):
        if any(a[0] == 'star' for a in args) or any(k == '**' for k, _ in kws):
            return None
        got = self._repo_callee(ft, e)
        if got is None:
            return None
        callee, bound_method = got
        a = callee.node.args
        if a.vararg or a.kwarg or a.kwonlyargs or a.posonlyargs:
            return None
        params = [x.arg for x in a.args]
        static = any(ast.unparse(d) == 'staticmethod' for d in callee.node.decorator_list)
        if getattr(callee, 'cls', None) is not None and not static and (bound_method or (ft[0] == 'lib')) and params and params[0] in ('self', 'cls') and bound_method:
            params = params[1:]
        elif getattr(callee, 'cls', None) is not None and not static and params and params[0] in ('self', 'cls') and not bound_method:
            return None        # Class.method(obj, ...): leave as written
        defaults = dict(zip([x.arg for x in a.args][len(a.args) - len(a.defaults):], a.defaults))
        if len(args) > len(params):
            return None
        given = dict(zip(params, args))
        for k, v in kws:
            if k in given or k not in params:
                return None
            given[k] = v
        out = []
        for p_ in params:
            if p_ in given:
                out.append(given[p_])
            elif p_ in defaults and isinstance(defaults[p_], ast.Constant):
                out.append(self._t(defaults[p_]))
            else:
                # a parameter without value and without constant default: everything from here on must be absent
                if any(q in given for q in params[params.index(p_):]):
                    return None
                break
        # trailing restatements of constant defaults
        while out and len(out) <= len(params):
            p_ = params[len(out) - 1]
            if p_ in defaults and isinstance(defaults[p_], ast.Constant) and out[-1] == self._t(defaults[p_]):
                out.pop()
            else:
                break
        return out, ()

    def _single_return_helper(self, ft):
        name = None
        if ft[0] == 'lib' and ft[1].startswith(self.m.name + '.'):
            name = ft[1][len(self.m.name) + 1:]
        elif ft[0] == 'name':
            name = ft[1]
        if not name:
            return None
        cands = [f for q, f in self.m.funcs.items() if q == name or q.endswith('.' + name)]
        if len(cands) != 1 or ('<call>' + cands[0].qualname) in self._stack:
            return None
        h = cands[0]
        if h.cls is not None or h.node.decorator_list:
            return None
        body = [b for b in h.node.body if not (isinstance(b, ast.Expr) and isinstance(b.value, ast.Constant))]
        if len(body) == 1 and isinstance(body[0], ast.Return) and body[0].value is not None:
            return h
        return None

    def _not(self, v):
        if v[0] == 'cmp':
            return self._cmp(NEGATE[v[1]], v[2], v[3]) if v[1] in NEGATE else ('not', v)
        if v[0] == 'not':
            return v[1]
        if v[0] == 'bool':
            return ('bool', not v[1])
        if v[0] in ('and', 'or') and all(isinstance(x, tuple) and x and x[0] in ('cmp', 'not', 'and', 'or') for x in v[1]):
            # De Morgan, so that a negated conjunction of comparisons has one spelling
            return ('or' if v[0] == 'and' else 'and', tuple(sorted((self._not(x) for x in v[1]), key=_skey)))
        return ('not', v)

    def _cmp(self, op, l, r):
        if op in ('>', '>='):
            op, l, r = FLIP[op], r, l
        # membership in a literal collection of constants does not depend on the kind of collection
        if op in ('in', 'notin') and r[0] in ('tuple', 'list') and all(isinstance(x, tuple) and x and x[0] in ('num', 'str') for x in r[1:]):
            r = ('set', tuple(sorted(r[1:], key=_skey)))
        # s.find(x) >= 0 / != -1  is  x in s ;  s.find(x) < 0 / == -1  is  x not in s
        for a, b, flip in ((l, r, False), (r, l, True)):
            if b[0] == 'call' and b[1][0] == 'attr' and b[1][2] == 'find' and len(b[2]) == 1 and not b[3] and a[0] == 'num':
                o = op if not flip else {'<': '>', '<=': '>=', '==': '==', '!=': '!='}.get(op)
                # now reads: a o b   with a the number, b the find call  (when flip: b o' a rewritten as a o b)
                rel = {('<=', 0): 'in', ('<', -1): 'in', ('!=', -1): 'in', ('>', 0): 'notin', ('>=', -1 + 0): None, ('==', -1): 'notin'}
                key = (o, a[1])
                if key in rel and rel[key]:
                    return ('cmp', rel[key], b[2][0], b[1][1])
        # T == (a, b)  is  T[0] == a and T[1] == b  (T a sequence of that length; with another length the code would index out of range in the
        # component form): written over the components so that both spellings are one term.   (a, b) == (c, d) likewise.
        if op == '==' and (l[0] == 'tuple') != (r[0] == 'tuple') or (op == '==' and l[0] == 'tuple' and r[0] == 'tuple' and len(l) == len(r)):
            disp, other = (l, r) if l[0] == 'tuple' else (r, l)
            if 2 <= len(disp) - 1 <= 4 and other[0] in ('cvar', 'name', 'lvar', 'sub', 'tuple', 'param', 'role'):
                comps = []
                for k, c in enumerate(disp[1:]):
                    o_k = other[1 + k] if other[0] == 'tuple' else ('sub', other, ('num', k))
                    comps.append(self._cmp('==', c, o_k))
                return ('and', tuple(sorted(comps, key=_skey)))
        if op in ('==', '!=') and _skey(l) > _skey(r):
            l, r = r, l
        return ('cmp', op, l, r)

    def _derived(self, e):
        """self.<attr> where the attribute is new with respect to the confirmed tree and caches an expression over the object (bound once in
        __init__): the expression, written over this method's `self`"""
        fn = self.scope.fn
        if fn is None or getattr(fn, 'cls', None) is None or not isinstance(e.value, ast.Name) or not fn.params or e.value.id != fn.params[0] or not isinstance(e.ctx, ast.Load):
            return None
        try:
            from .baseline import ATTRS
        except ImportError:
            return None
        cls_node = fn.cls if isinstance(fn.cls, ast.ClassDef) else getattr(fn.cls, 'node', None)
        if cls_node is None:
            return None
        known = ATTRS.get(self.m.name, {}).get(cls_node.name)
        if known is None or e.attr in known:
            return None
        # a read-only property of the class that is one returned expression over self
        for st in cls_node.body:
            if isinstance(st, ast.FunctionDef) and st.name == e.attr and any((isinstance(d_, ast.Name) and d_.id in ('property', 'cached_property')) or (isinstance(d_, ast.Attribute) and d_.attr in ('cached_property',)) for d_ in st.decorator_list):
                body = [b for b in st.body if not (isinstance(b, ast.Expr) and isinstance(b.value, ast.Constant))]
                if len(body) == 1 and isinstance(body[0], ast.Return) and body[0].value is not None and len(st.args.args) == 1:
                    value = copy.deepcopy(body[0].value)
                    me = st.args.args[0].arg
                    if me != fn.params[0]:
                        for x in ast.walk(value):
                            if isinstance(x, ast.Name) and x.id == me:
                                x.id = fn.params[0]
                    return value
                return None
        from .model import derived_attr
        d = derived_attr(cls_node, e.attr, set(known))
        if d is None:
            return None
        value, me = d
        value = copy.deepcopy(value)
        if me != fn.params[0]:
            for x in ast.walk(value):
                if isinstance(x, ast.Name) and x.id == me:
                    x.id = fn.params[0]
        return value

    def _bin(self, op, l, r):
        if op == '+':
            return self._add([l, r])
        if op == '-':
            return self._add([l, self._mul([('num', -1), r])])
        if op == '*':
            return self._mul([l, r])
        if op == '/':
            if l[0] == 'num' and r[0] == 'num' and r[1] != 0:
                return ('num', l[1] / r[1])
            return ('/', l, r)
        if l[0] == 'num' and r[0] == 'num':
            try:
                node = ast.BinOp(ast.Constant(l[1]), {v: k for k, v in BINOPS.items()}[op](), ast.Constant(r[1]))
                return ('num', const_value(node))
            except Exception:
                pass
        return (op, l, r)

    @staticmethod
    def _sequence_like(t):
        """a string / list / tuple valued term: `+` on it is concatenation (order matters)"""
        if not isinstance(t, tuple) or not t:
            return False
        if t[0] in ('str', 'fstr', 'concat', 'list', 'tuple', 'listcomp'):
            return True
        if t[0] == 'call' and isinstance(t[1], tuple):
            h = t[1]
            if h in (('name', 'str'), ('name', 'list'), ('name', 'tuple'), ('name', 'sorted'), ('name', 'repr')):
                return True
            if h[0] == 'attr' and h[2] in ('join', 'format', 'strip', 'lower', 'upper', 'replace', 'tolist', 'split'):
                return True
        return False

    def _add(self, parts):
        if any(self._sequence_like(p) for p in parts):
            seq = []
            for p in parts:
                if p[0] == 'call' and p[1] == ('name', 'str') and len(p[2]) == 1 and not p[3] and p[2][0][0] not in ('num', 'bool', 'none'):
                    p = p[2][0]          # 'a' + str(x): x is a string wherever the same text is written 'a' + x
                if p[0] == 'concat':
                    seq.extend(p[1])
                elif p[0] == '+' and False:
                    seq.extend(p[1])
                else:
                    seq.append(p)
            # adjacent string constants are one constant
            out = []
            for q in seq:
                if out and q[0] == 'str' and out[-1][0] == 'str':
                    out[-1] = ('str', out[-1][1] + q[1])
                else:
                    out.append(q)
            return out[0] if len(out) == 1 else ('concat', tuple(out))
        flat = []
        const = 0
        for p in parts:
            if p[0] == '+':
                for q in p[1]:
                    if q[0] == 'num':
                        const += q[1]
                    else:
                        flat.append(q)
            elif p[0] == 'num':
                const += p[1]
            else:
                flat.append(p)
        if not flat:
            return ('num', const)
        if const != 0:
            flat.append(('num', const))
        if len(flat) == 1:
            return flat[0]
        return ('+', tuple(sorted(flat, key=_skey)))

    def _mul(self, parts):
        flat = []
        const = 1
        for p in parts:
            if p[0] == '*':
                for q in p[1]:
                    if q[0] == 'num':
                        const *= q[1]
                    else:
                        flat.append(q)
            elif p[0] == 'num':
                const *= p[1]
            else:
                flat.append(p)
        if not flat:
            return ('num', const)
        if const == 0:
            return ('num', 0)
        # distribute a constant sign over a sum so that -(a - b) == b - a
        if const == -1 and len(flat) == 1 and flat[0][0] == '+':
            return self._add([self._mul([('num', -1), q]) for q in flat[0][1]])
        if const != 1:
            flat.append(('num', const))
        if len(flat) == 1:
            return flat[0]
        return ('*', tuple(sorted(flat, key=_skey)))


def _subst_param(term, by):
    if term == ('param', 0):
        return by
    if isinstance(term, tuple):
        return tuple(_subst_param(x, by) for x in term)
    return term


_CVAR_RE = None


def _skey(t):
    """sort key for commutative normal forms that does not depend on how comprehension variables are numbered"""
    import re
    global _CVAR_RE
    if _CVAR_RE is None:
        _CVAR_RE = re.compile(r"\('cvar', \d+, ")
    r = repr(t)
    return (_CVAR_RE.sub("('cvar', *, ", r), r)


class _NameSubst(ast.NodeTransformer):
    def __init__(self, env):
        self.env = env

    def visit_Name(self, node):
        if isinstance(node.ctx, ast.Load) and node.id in self.env:
            return copy.deepcopy(self.env[node.id])
        return node


def _enumerate_of_comprehension(e):
    """for a, b in enumerate([E(v) for v in range(N)])   is   for a in range(N) with b = E(a)   (position in range(N) is the value itself)"""
    for gi, g in enumerate(e.generators):
        it = g.iter
        if not (isinstance(it, ast.Call) and isinstance(it.func, ast.Name) and it.func.id == 'enumerate' and len(it.args) == 1 and not it.keywords):
            continue
        lc = it.args[0]
        if not (isinstance(lc, (ast.ListComp, ast.GeneratorExp)) and len(lc.generators) == 1 and not lc.generators[0].ifs and isinstance(lc.generators[0].target, ast.Name)):
            continue
        rng = lc.generators[0].iter
        if not (isinstance(rng, ast.Call) and isinstance(rng.func, ast.Name) and rng.func.id == 'range' and len(rng.args) == 1 and not rng.keywords):
            continue
        if not (isinstance(g.target, (ast.Tuple, ast.List)) and len(g.target.elts) == 2 and all(isinstance(x, ast.Name) for x in g.target.elts)):
            continue
        a, b = g.target.elts[0].id, g.target.elts[1].id
        v = lc.generators[0].target.id
        if a == b or (a != v and any(isinstance(x, ast.Name) and x.id == a for x in ast.walk(lc.elt))):
            continue
        e = copy.deepcopy(e)
        g2 = e.generators[gi]
        elem = _NameSubst({v: ast.Name(a, ast.Load())}).visit(copy.deepcopy(lc.elt))
        g2.target = ast.Name(a, ast.Store())
        g2.iter = copy.deepcopy(rng)
        sub = _NameSubst({b: elem})
        g2.ifs = [sub.visit(c) for c in g2.ifs]
        for later in e.generators[gi + 1:]:
            later.iter = sub.visit(later.iter)
            later.ifs = [sub.visit(c) for c in later.ifs]
        if isinstance(e, ast.DictComp):
            e.key, e.value = sub.visit(e.key), sub.visit(e.value)
        else:
            e.elt = sub.visit(e.elt)
        return _enumerate_of_comprehension(ast.fix_missing_locations(e))
    return e


def alpha_norm(term):
    """rename comprehension variables by order of first appearance: terms that differ only in how the variables were numbered are equal"""
    order = {}

    def scan(t):
        if isinstance(t, tuple):
            if len(t) == 3 and t[0] == 'cvar' and isinstance(t[1], int):
                order.setdefault(t[1], len(order))
                return
            for x in t:
                scan(x)
    scan(term)
    if not order or all(k == v for k, v in order.items()):
        return term

    def ren(t):
        if isinstance(t, tuple):
            if len(t) == 3 and t[0] == 'cvar' and isinstance(t[1], int):
                return ('cvar', order[t[1]], t[2])
            return tuple(ren(x) for x in t)
        return t
    return ren(term)


def unkind(term):
    """forget whether a comprehension is a list or a generator (for comparisons where only the elements matter)"""
    if isinstance(term, tuple):
        t = tuple(unkind(x) for x in term)
        if t and t[0] == 'genexp':
            return ('listcomp',) + t[1:]
        return t
    return term


def _target_names(t):
    if isinstance(t, ast.Name):
        return [t.id]
    if isinstance(t, (ast.Tuple, ast.List)):
        out = []
        for e in t.elts:
            out += _target_names(e)
        return out
    if isinstance(t, ast.Starred):
        return _target_names(t.value)
    return []


def canon(fn: Func, expr: ast.AST, inline=True, bound=None):
    return Canon(fn.module, Scope(fn), inline, bound).t(expr)


def show(term, depth=0) -> str:
    """Readable rendering of a canonical term (for reports)."""
    k = term[0] if isinstance(term, tuple) and term else None
    if k == 'num' or k == 'bool':
        return repr(term[1])
    if k == 'str':
        return repr(term[1])
    if k == 'none':
        return 'None'
    if k == 'name':
        return term[1]
    if k == 'lib':
        return term[1]
    if k == 'attr':
        return f'{show(term[1])}.{term[2]}'
    if k == '+':
        return '(' + ' + '.join(show(x) for x in term[1]) + ')'
    if k == '*':
        return '(' + ' * '.join(show(x) for x in term[1]) + ')'
    if k == 'cmp':
        return f'({show(term[2])} {term[1]} {show(term[3])})'
    if k == 'call':
        a = [show(x) for x in term[2]] + [f'{n}={show(v)}' for n, v in term[3]]
        return f'{show(term[1])}({", ".join(a)})'
    if k == 'sub':
        return f'{show(term[1])}[{show(term[2])}]'
    if k in ('and', 'or'):
        return '(' + f' {k} '.join(show(x) for x in term[1]) + ')'
    if k == 'not':
        return f'not {show(term[1])}'
    if k in ('/', '//', '%', '**', '<<', '>>', '&', '|', '^', '@'):
        return f'({show(term[1])} {k} {show(term[2])})'
    if k in ('tuple', 'list'):
        return ('(' if k == 'tuple' else '[') + ', '.join(show(x) for x in term[1:]) + (')' if k == 'tuple' else ']')
    if k == 'slice':
        return ':'.join('' if x == ('none',) else show(x) for x in term[1:])
    return repr(term)


def walk_term(term):
    yield term
    if isinstance(term, tuple):
        for x in term:
            if isinstance(x, tuple):
                yield from walk_term(x)


def unify(pattern, term, binds: dict | None = None):
    """Match `term` against `pattern`; ('?', name) in the pattern binds any sub-term (the same name must bind equal terms).
    Returns the bindings or None."""
    binds = {} if binds is None else binds
    if isinstance(pattern, tuple) and len(pattern) == 2 and pattern[0] == '?':
        if pattern[1] in binds:
            return binds if binds[pattern[1]] == term else None
        binds[pattern[1]] = term
        return binds
    if isinstance(pattern, tuple) and isinstance(term, tuple):
        if len(pattern) != len(term):
            return None
        for p, t in zip(pattern, term):
            if unify(p, t, binds) is None:
                return None
        return binds
    return binds if pattern == term else None


def pattern(module, src: str, holes=(), bound=None):
    """canonical term of the expression `src` in which the names listed in `holes` are pattern variables"""
    b = dict(bound or {})
    for h in holes:
        b[h] = ('?', h)
    return Canon(module, Scope(None), inline=False, bound=b).t(ast.parse(src, mode='eval').body)
