"""C20 - derived synthetic structure (correlation, labels, noise, ...) is as declared.

 1 (R6/R15) self-description: each method that appends k columns records exactly k indices starting at the previous width
 2       duplicates are X[:, idx] appended unchanged; combinations are f(X[:, idx]) with f the default (sum / sin of sum, axis 1) or the given function
 3 (R15) correlated feature: theta = arccos(r); result = unit(orthogonalised noise) + cot(theta) * unit(centred source)
 4       labels: cut points from np.percentile of the decision values; label = number of cut points exceeded (monotone step function)
 5       noise: k = int(n*p); cells chosen by choice(n, k, replace=False); replacement values from np.unique of the same feature;
         (R11) the input array is never written (np.copy / fancy-index copy precede every store)
 6       down-sampling: per class, candidates filtered by y[i] == label, n_samples = n, labels [label] * n
"""
from __future__ import annotations

import ast

from ..match import calls, expected_term, returns, term_of
from ..model import own_nodes, parents
from ..terms import Canon, Scope, show, walk_term

EXPLANATION = ('Sibling agreement / canonical-term equality (R6, R15) of the recorded indices with the number of appended columns; term checks of the duplicate / combination constructions; '
               'canonical form of the correlation construction (arccos, cot = 1/tan, orthogonal projection); structure of the percentile labelling; ownership analysis (R11: same-as / view-of / fresh) '
               'of every array written by the noise generators; filter and size of the per-class resampling. Decides the construction, not measured correlations or proportions.')
TRUSTED_BASE = ['np.copy, astype(copy), fancy indexing with an integer array return fresh arrays; .T, row iteration and basic slices are views; np.asarray does not copy when dtype already matches',
                'unit(orthogonalised noise) + cot(theta) * unit(centred source) has Pearson correlation cos(theta) with the source',
                'sklearn.utils.resample(X, n_samples=n) returns n rows drawn from X']
ASSUMPTIONS = ['Pearson r as a measured number, class proportions and k-means behaviour are not decided']

CC = 'outrank.algorithms.synthetic_data_generators.cc_generator'
CLS = 'CategoricalClassification'


def run(repo, chk, tier):
    self_description(repo, chk)
    copies_and_combinations(repo, chk)
    correlated(repo, chk)
    column_norms(repo, chk)
    labels(repo, chk)
    noise(repo, chk)
    downsample(repo, chk)
    combiners(repo, chk)
    value_width(repo, chk)


def _info_entry(fn, key):
    """dict literal appended to self.dataset_info[key]"""
    for c in calls(fn, attr='append'):
        if isinstance(c.func.value, ast.Subscript) and 'dataset_info' in ast.unparse(c.func.value) and isinstance(c.func.value.slice, ast.Constant) and c.func.value.slice.value == key and c.args and isinstance(c.args[0], ast.Dict):
            return c, {k.value: v for k, v in zip(c.args[0].keys, c.args[0].values) if isinstance(k, ast.Constant)}
    return None, {}


def self_description(repo, chk):
    m = repo.mod(CC)
    E = lambda s: expected_term(m, s)
    w = 'len(X[0])'
    k = 'len(feature_indices)'
    # duplicates
    fn = repo.func(CC, f'{CLS}.generate_duplicates')
    c, d = _info_entry(fn, 'duplicates')
    t = term_of(fn, d.get('duplicate_indices'), inline=True) if d.get('duplicate_indices') is not None else None
    forms = [E(f'numpy.arange({w}, {w} + {k}, 1)'), E(f'numpy.arange({w}, {w} + {k})'), E(f'list(range({w}, {w} + {k}))'), E(f'range({w}, {w} + {k})')]
    chk.expect(t in forms, 'C20.1a', 'R6', fn.site(c) if c else fn.site(), f'duplicate_indices = {show(t)[:120] if t else None}', 'k appended duplicates -> indices w .. w+k-1 (k of them)',
               f'generate_duplicates appends len(feature_indices) columns but records {show(t)[:120] if t else "nothing"}: the self-description must list exactly arange(w, w + k)', soft=True)
    chk.expect(d.get('feature_indices') is not None and ast.unparse(d['feature_indices']) == 'feature_indices', 'C20.1b', 'R6', fn.site(c) if c else fn.site(), 'feature_indices recorded', 'source indices recorded', 'source indices must be recorded')
    # correlated
    fn = repo.func(CC, f'{CLS}.generate_correlated')
    c, d = _info_entry(fn, 'correlations')
    defs = [n for n in own_nodes(fn.node) if isinstance(n, ast.Assign) and isinstance(n.targets[0], ast.Name) and d.get('correlated_indices') is not None and n.targets[0].id == ast.unparse(d['correlated_indices'])]
    ts = [term_of(fn, x.value, inline=True) for x in defs]
    ok = len(ts) == 2 and any(t in forms for t in ts) and E(w) in ts
    if ok:
        # the scalar form is used exactly for a single index
        par = parents(fn.node)
        g = par.get(defs[0])
        ok = isinstance(g, ast.If) and term_of(fn, g.test, inline=False) in (E(f'1 < {k}'), E(f'{k} > 1'))
    chk.expect(ok, 'C20.1c', 'R6', fn.site(c) if c else fn.site(), 'correlated_indices = ' + ' | '.join(show(t)[:60] for t in ts), 'k correlated columns -> arange(w, w+k) (scalar w for a single one)', 'generate_correlated must record arange(w, w + k) (or the scalar w for one column)', soft=True)
    chk.expect(d.get('correlation_factor') is not None and ast.unparse(d['correlation_factor']) == 'r', 'C20.1d', 'R6', fn.site(c) if c else fn.site(), 'correlation_factor = r', 'r recorded', 'the correlation factor must be recorded')
    # combinations
    fn = repo.func(CC, f'{CLS}.generate_combinations')
    c, d = _info_entry(fn, 'combinations')
    t = term_of(fn, d.get('combination_ix'), inline=True) if d.get('combination_ix') is not None else None
    chk.expect(t == E(w), 'C20.1e', 'R6', fn.site(c) if c else fn.site(), f'combination_ix = {show(t) if t else None}', 'one appended column -> index w', 'generate_combinations must record the index len(X[0]) of the appended column')


def copies_and_combinations(repo, chk):
    m = repo.mod(CC)
    E = lambda s: expected_term(m, s)
    fn = repo.func(CC, f'{CLS}.generate_duplicates')
    r = returns(fn)
    t = term_of(fn, r[0].value, inline=True) if r else None
    chk.expect(t in (E('numpy.column_stack((X, X[:, feature_indices]))'), E('numpy.hstack((X, X[:, feature_indices]))'), E('numpy.concatenate((X, X[:, feature_indices]), axis=1)')), 'C20.2a', 'R15', fn.site(r[0]) if r else fn.site(), ast.unparse(r[0]) if r else '',
               'duplicates are the selected columns appended unchanged', f'duplicates must be X[:, feature_indices] appended to X unchanged; found {show(t)[:120] if t else None}')
    # generate_combinations evaluated for each built-in combination type (the default function looked up, applied to the selected columns):
    # the matrix returned must be X with exactly that combination appended as one column
    from ..match import run_paths, within_vocabulary
    from ..terms import pattern, unify
    fn = repo.func(CC, f'{CLS}.generate_combinations')
    want = {'linear': E('numpy.sum(X[:, feature_indices], axis=1)'), 'nonlinear': E('numpy.sin(numpy.sum(X[:, feature_indices], axis=1))')}
    none_atom = E('combination_function is None')
    for ctype, want_t in want.items():
        paths = run_paths(fn, lambda e: isinstance(e, ast.Name) and e.id == 'combination_type', ctype, max_forks=3, eval_closures=True)
        _cn = Canon(m, Scope(None))
        sel = [(a_, res) for a_, res in (paths or []) if any((term_of(fn, t, inline=False) == none_atom and v) or (_cn._not(term_of(fn, t, inline=False)) == none_atom and not v) for t, v in res.assumed)]
        if not sel or any(res.unknown is not None or res.returned is None for _, res in sel):
            node = next((res.unknown for _, res in sel if res.unknown is not None), None)
            chk.unsure('C20.2b', 'R15', fn.site(node) if node is not None else fn.site(), f'combination_type = {ctype!r}', 'the path that applies the built-in combination function could not be evaluated')
            continue
        for _, res in sel[:1]:
            rt = term_of(fn, res.returned, inline=False)
            bb = None
            for src in ('numpy.column_stack((X, R))', 'numpy.hstack((X, R))', 'numpy.concatenate((X, R), axis=1)', 'numpy.c_[X, R]'):
                bb = bb or unify(pattern(m, src, ['R']), rt)
            site = fn.site(res.returned) if hasattr(res.returned, 'lineno') else fn.site()
            if bb is None:
                chk.expect_term(rt, [pattern(m, 'numpy.column_stack((X, numpy.sin(numpy.sum(X[:, feature_indices], axis=1))))')], 'C20.2c', 'R15', site, show(rt)[:160], '', 'the combination must be combination_function(X[:, feature_indices]) appended to X as one column')
                continue
            chk.ok('C20.2c', 'R15', site, show(rt)[:120], 'the combination is appended to the unchanged matrix as one column')
            R = bb['R']
            chk.expect_term(R, [want_t], 'C20.2b', 'R15', site, f'{ctype}: {show(R)[:120]}', f'{ctype} = ' + ('row sum' if ctype == 'linear' else 'sin of the row sum') + ' of the selected columns',
                            f'the built-in {ctype} combination must be {show(want_t)[:100]}; found {show(R)[:140]}')


def correlated(repo, chk):
    fn = repo.func(CC, f'{CLS}.generate_correlated')
    m = fn.module
    E = lambda s: expected_term(m, s)
    loops = [n for n in own_nodes(fn.node) if isinstance(n, ast.For)]
    if len(loops) != 1 or not isinstance(loops[0].target, ast.Name):
        chk.unsure('C20.3', 'R15', fn.site(), 'for t in transposed', 'source loop not found')
        return
    lp = loops[0]
    it = term_of(fn, lp.iter, inline=True)
    chk.expect(it in (E('numpy.transpose(X[:, feature_indices])'), E('X[:, feature_indices].T')), 'C20.3a', 'R13', fn.site(lp), ast.unparse(lp.iter), 'one correlated feature per selected source column', 'the loop must range over the selected source columns')
    # assignments inside the loop, inlined by hand (all single-definition per iteration)
    env = {}
    from ..terms import Canon, Scope
    # loop invariants bound once before the loop (the angle, its cotangent) are part of the expression
    for s in fn.node.body:
        if s is lp:
            break
        if isinstance(s, ast.Assign) and len(s.targets) == 1 and isinstance(s.targets[0], ast.Name) and not any(isinstance(x, ast.Name) and x.id == s.targets[0].id for x in ast.walk(s.value)) \
                and sum(1 for n_ in own_nodes(fn.node) if isinstance(n_, ast.Name) and n_.id == s.targets[0].id and isinstance(n_.ctx, ast.Store)) == 1:
            cn = Canon(m, Scope(None), inline=False, bound=dict(env))
            env[s.targets[0].id] = cn.t(s.value)
    for s in lp.body:
        if isinstance(s, ast.Assign) and len(s.targets) == 1 and isinstance(s.targets[0], ast.Name):
            cn = Canon(m, Scope(None), inline=False, bound=dict(env))
            env[s.targets[0].id] = cn.t(s.value)
    t = lp.target.id
    want_env = {}
    order = [('theta', 'numpy.arccos(r)'),
             ('t_standard', f'({t} - numpy.mean({t})) / (numpy.std({t}) + 1e-10)'),
             ('rand0', 'numpy.random.normal(0, 1, len(t_standard))'),
             ('rand', '(rand0 - numpy.mean(rand0)) / (numpy.std(rand0) + 1e-10)'),
             ('M', 'numpy.column_stack((t_standard, rand))'),
             ('M_centred', 'M - numpy.mean(M, axis=0)'),
             ('Id', f'numpy.eye(len({t}))'),
             ('Q', "scipy.linalg.qr(M_centred[:, [0]], mode='economic')[0]"),
             ('P', 'numpy.dot(Q, Q.T)'),
             ('orthogonal_projection', 'numpy.dot(Id - P, M_centred[:, 1])'),
             ('M_orthogonal', 'numpy.column_stack((M_centred[:, 0], orthogonal_projection))'),
             ('Y', 'numpy.dot(M_orthogonal, numpy.diag(1 / numpy.sqrt(numpy.sum(M_orthogonal ** 2, axis=0))))'),
             ('corr', 'Y[:, 1] + (1 / numpy.tan(theta)) * Y[:, 0]')]
    for name, src in order:
        cn = Canon(m, Scope(None), inline=False, bound=dict(want_env))
        want_env[name] = cn.t(ast.parse(src, mode='eval').body)
    # `rand` is defined twice in the source (draw, then standardise): our env keeps the final one, which is what we compare
    got = env.get('corr')
    app = [c for c in ast.walk(lp) if isinstance(c, ast.Call) and isinstance(c.func, ast.Attribute) and c.func.attr == 'append']
    appended = app[0].args[0].id if app and isinstance(app[0].args[0], ast.Name) else None
    got = env.get(appended) if appended else None
    if got is None and app and not isinstance(app[0].args[0], ast.Name):
        got = Canon(m, Scope(None), inline=False, bound=dict(env)).t(app[0].args[0])       # the expression is appended directly
        appended = ast.unparse(app[0].args[0])[:40]
    ok = got is not None and got == want_env['corr']
    why = ''
    if not ok and got is not None:
        # name the first intermediate that differs
        for name, _ in order:
            g2 = env.get(name if name != 'rand0' else None)
            if name in env and env[name] != want_env[name]:
                why = f' (first difference at `{name}`: {show(env[name])[:140]})'
                break
    wrong_angle = [c for c in calls(fn) if (m.dotted(c.func) or '') in ('numpy.arcsin', 'numpy.arctan', 'math.asin', 'math.atan', 'numpy.arccosh')]
    for c in wrong_angle:
        chk.bad('C20.3b', 'R8', fn.site(c), ast.unparse(c)[:100], 'the mixing coefficient must be 1/tan(arccos(r)) (the angle whose cosine is r): with another inverse function the generated feature does not have correlation r with its source')
    chk.expect(ok, 'C20.3b', 'R15', fn.site(app[0]) if app else fn.site(lp), f'{appended} = Y[:, 1] + (1 / np.tan(np.arccos(r))) * Y[:, 0]', 'correlated feature = unit(orthogonalised noise) + cot(arccos r) * unit(centred source): Pearson correlation r (sign included)',
               'the correlated feature must be unit(orthogonalised noise) + (1/tan(arccos(r))) * unit(centred source); a different coefficient (e.g. one that loses the sign of r) does not give correlation r' + why, soft=True)
    r = returns(fn)
    lst = app[0].func.value.id if app and isinstance(app[0].func.value, ast.Name) else 'correlated_features'
    tr = [n for n in own_nodes(fn.node) if isinstance(n, ast.Assign) and isinstance(n.targets[0], ast.Name) and n.targets[0].id == lst and n.lineno > lp.end_lineno]
    ok_r = bool(r) and term_of(fn, r[0].value, inline=False) == E(f'numpy.column_stack((X, {lst}))') and len(tr) == 1 and term_of(fn, tr[0].value, inline=False) in (E(f'numpy.transpose({lst})'), E(f'numpy.array({lst}).T'))
    if not ok_r:
        # the same decided on the returned value as one expression (locals substituted in program order, the loop that collects the features summarised)
        from ..match import run_paths
        from ..terms import pattern, unify
        ps = run_paths(fn, None, None, max_forks=3)
        good = [res for _a, res in (ps or []) if res.unknown is None and res.returned is not None]
        if good and len(good) == len(ps or []):
            rts = {term_of(fn, g.returned, inline=False) for g in good}
            pats = [pattern(m, src, ['L']) for src in ('numpy.column_stack((X, numpy.transpose(L)))', 'numpy.column_stack((X, numpy.array(L).T))', 'numpy.hstack((X, numpy.transpose(L)))', 'numpy.hstack((X, numpy.array(L).T))',
                                                     'numpy.concatenate((X, numpy.transpose(L)), axis=1)', 'numpy.column_stack((X, numpy.column_stack(L)))', 'numpy.column_stack([X, numpy.transpose(L)])')]
            if all(any(unify(p_, t_) is not None for p_ in pats) for t_ in rts):
                ok_r = True
            else:
                t_ = sorted(rts, key=repr)[0]
                chk.expect_term(t_, [pattern(m, 'numpy.column_stack((X, numpy.transpose(numpy.array([f(c) for c in S]))))')], 'C20.3c', 'R15', fn.site(r[0]) if r else fn.site(), show(t_)[:160], '',
                                f'correlated features must be appended to X as columns (X first, one new column per source column); found {show(t_)[:200]}')
                ok_r = None
        else:
            chk.unsure('C20.3c', 'R15', fn.site(r[0]) if r else fn.site(), ast.unparse(r[0])[:100] if r else '', 'the value returned by generate_correlated could not be evaluated as one expression')
            ok_r = None
    if ok_r is not None:
        chk.expect(ok_r, 'C20.3c', 'R15', fn.site(r[0]) if r else fn.site(), ast.unparse(r[0]) if r else '', 'the new features are appended as columns', 'correlated features must be appended to X as columns')


def column_norms(repo, chk):
    """C20.3e - the orthogonal components are normalised COLUMN by column: a norm taken over the whole matrix (np.linalg.norm(M) without axis) scales all
    columns by one number, so the combination r*x + sqrt(1 - r^2)*y no longer has correlation r."""
    fn = repo.func(CC, f'{CLS}.generate_correlated')
    m = fn.module
    for c in own_nodes(fn.node):
        if isinstance(c, ast.Call) and (m.dotted(c.func) or '') == 'numpy.linalg.norm' and len(c.args) == 1 and not any(k.arg == 'axis' for k in c.keywords):
            chk.bad('C20.3e', 'R15', fn.site(c), ast.unparse(c)[:80], 'the norm is taken over the whole matrix (no axis): the orthogonal components are not normalised column by column, so the generated feature does not '
                    'have Pearson correlation r with its source')
            return
    chk.ok('C20.3e', 'R15', fn.site(), 'norms in generate_correlated', 'no whole-matrix norm stands in for the per-column normalisation')


def labels(repo, chk):
    fn = repo.func(CC, f'{CLS}.generate_labels')
    m = fn.module
    pcs = [c for c in calls(fn, dotted='numpy.percentile')]
    ok_p = len(pcs) == 3 and all(ast.unparse(c.args[0]) == 'decision_boundary' for c in pcs)
    chk.expect(ok_p, 'C20.4a', 'R15', fn.site(pcs[0]) if pcs else fn.site(), f'{len(pcs)} np.percentile(decision_boundary, ...) cut-point computations', 'cut points are percentiles of the decision values', 'label cut points must be np.percentile of the decision values', soft=True)
    steps = []
    # names that hold the decision values: bound to <decision function>(X)
    dec_names = {n.targets[0].id for n in own_nodes(fn.node) if isinstance(n, ast.Assign) and isinstance(n.targets[0], ast.Name) and isinstance(n.value, ast.Call) and isinstance(n.value.func, ast.Name)
                 and n.value.func.id in fn.params and len(n.value.args) == 1}
    label_names = {n.targets[0].id for n in own_nodes(fn.node) if isinstance(n, ast.Assign) and isinstance(n.targets[0], ast.Name) and isinstance(n.value, ast.Call) and (m.dotted(n.value.func) or '') in ('numpy.zeros_like', 'numpy.zeros')}

    def is_indicator(v):
        """<decision values> > <cut point>   or   np.where(<decision values> > <cut point>, 1, 0)"""
        if isinstance(v, ast.Call) and m.dotted(v.func) == 'numpy.where' and len(v.args) == 3 and isinstance(v.args[1], ast.Constant) and v.args[1].value == 1 and isinstance(v.args[2], ast.Constant) and v.args[2].value == 0:
            v = v.args[0]
        return isinstance(v, ast.Compare) and len(v.ops) == 1 and ((isinstance(v.ops[0], ast.Gt) and isinstance(v.left, ast.Name) and v.left.id in dec_names and isinstance(v.comparators[0], (ast.Name, ast.Subscript)))
                                                                 or (isinstance(v.ops[0], ast.Lt) and isinstance(v.comparators[0], ast.Name) and v.comparators[0].id in dec_names and isinstance(v.left, (ast.Name, ast.Subscript))))
    for n in own_nodes(fn.node):
        if isinstance(n, ast.AugAssign) and isinstance(n.target, ast.Name) and n.target.id in label_names and isinstance(n.op, ast.Add):
            steps.append((n, ast.unparse(n.value), is_indicator(n.value)))
        if isinstance(n, ast.Assign) and isinstance(n.targets[0], ast.Name) and isinstance(n.value, ast.Call) and m.dotted(n.value.func) == 'numpy.where' and len(n.value.args) == 3 and any(isinstance(x, ast.Name) and x.id in dec_names for x in ast.walk(n.value.args[0])):
            steps.append((n, ast.unparse(n.value), is_indicator(n.value)))
    bad = [s_ for s_ in steps if not s_[2]]
    chk.expect(len(steps) == 3 and not bad, 'C20.4b', 'R15', fn.site(bad[0][0]) if bad else fn.site(), '; '.join(s[1] for s in steps), 'label = number of cut points the decision value exceeds (monotone step function)',
               f'labels must be sums of indicators (decision > cut point); found {[s[1] for s in bad] or len(steps)}', soft=True)
    # the cut points are the cumulative requested shares as percentages, exactly: a floor division / rounding in what reaches np.percentile moves them
    from .common import value_origins
    rounded = None
    for c in pcs:
        if len(c.args) < 2:
            continue
        for g, e in value_origins(m, fn.node, c.args[1], limit=80):
            if isinstance(e, ast.BinOp) and isinstance(e.op, ast.FloorDiv):
                rounded = (e, 'floor division')
            elif isinstance(e, ast.Call) and isinstance(e.func, ast.Name) and e.func.id in ('int', 'round') and e.args and not isinstance(e.args[0], ast.Constant):
                rounded = (e, f'{e.func.id}()')
            elif isinstance(e, ast.Call) and (m.dotted(e.func) or '') in ('numpy.floor', 'numpy.ceil', 'numpy.round', 'numpy.rint', 'math.floor', 'math.ceil'):
                rounded = (e, m.dotted(e.func))
            if rounded:
                break
        if rounded:
            break
    if rounded:
        chk.bad('C20.4e', 'R15', m.relpath + f':{rounded[0].lineno} generate_labels', ast.unparse(rounded[0])[:80], f'the percentiles at which the decision values are cut are computed with {rounded[1]}: the cut points are no longer the '
                'cumulative requested shares (e.g. 100 // 3 = 33 for three classes: 33 / 33 / 34 % instead of thirds), so the class proportions do not match the requested distribution')
    elif pcs:
        chk.ok('C20.4e', 'R15', fn.site(pcs[0]), f'{len(pcs)} percentile computations', 'nothing that reaches the percentile cut points is floored or rounded')
    # the equal-shares rule (p := 1 / n) is for MORE than two classes; two classes are cut at the requested share p
    nparam = next((q for q in fn.params if q == 'n'), None)
    pparam = next((q for q in fn.params if q == 'p'), None)
    if nparam and pparam:
        share = [n_ for n_ in own_nodes(fn.node) if isinstance(n_, ast.Assign) and len(n_.targets) == 1 and isinstance(n_.targets[0], ast.Name) and n_.targets[0].id == pparam
                 and term_of(fn, n_.value, inline=False) in (expected_term(m, f'1 / {nparam}'), expected_term(m, f'1.0 / {nparam}'))]
        par_l = parents(fn.node)
        for sh in share[:1]:
            tests = []
            cur, child = par_l.get(sh), sh
            while cur is not None and cur is not fn.node:
                if isinstance(cur, ast.If):
                    tt = term_of(fn, cur.test, inline=False)
                    in_body = any(child is b for b in cur.body)
                    if isinstance(tt, tuple) and tt[0] == 'cmp' and ('name', nparam) in (tt[2], tt[3]) and any(isinstance(x, tuple) and x[0] == 'num' for x in (tt[2], tt[3])):
                        tests.append((cur, tt if in_body else Canon(m, Scope(None))._not(tt)))
                child, cur = cur, par_l.get(cur)
            good = (expected_term(m, f'{nparam} > 2'), expected_term(m, f'{nparam} >= 3'), expected_term(m, f'2 < {nparam}'), expected_term(m, f'3 <= {nparam}'))
            weak = (expected_term(m, f'{nparam} >= 2'), expected_term(m, f'{nparam} > 1'), expected_term(m, f'2 <= {nparam}'), expected_term(m, f'1 < {nparam}'))
            if any(t_ in good for _, t_ in tests):
                chk.ok('C20.4d', 'R14', fn.site(tests[0][0]), ast.unparse(tests[0][0].test), 'the equal-shares rule p = 1/n applies to more than two classes only')
            elif any(t_ in weak for _, t_ in tests):
                g_ = next(c_ for c_, t_ in tests if t_ in weak)
                chk.bad('C20.4d', 'R14', fn.site(g_), ast.unparse(g_.test), f'the equal-shares branch (which overwrites a scalar `{pparam}` by 1/{nparam}) is taken for {nparam} == 2 as well: two classes with a requested share '
                        f'`{pparam}` other than 0.5 are cut at 50%, so the class proportions do not match the requested distribution')
            else:
                chk.unsure('C20.4d', 'R14', fn.site(sh), ast.unparse(sh), f'the condition under which `{pparam}` is replaced by 1/{nparam} is not a recognised test of the number of classes')
    # the built-in decision function of each class relation, looked up on the path where none is passed and applied to the data
    from ..match import run_paths, PathEval
    E = lambda s_: expected_term(m, s_)
    first_use = next((i for i, st in enumerate(fn.node.body) if any(isinstance(c, ast.Call) and isinstance(c.func, ast.Name) and c.func.id == 'decision_function' for c in ast.walk(st))), None)
    want = {'linear': E('numpy.sum(2 * X + 3, axis=1)'), 'nonlinear': E('numpy.sum(k * numpy.sin(X) + k * numpy.cos(X), axis=1)')}
    none_atom = E('decision_function is None')
    for rel, want_t in want.items():
        if first_use is None:
            chk.unsure('C20.4c', 'R15', fn.site(), f'class_relation = {rel!r}', 'no statement applies the decision function')
            break
        paths = run_paths(fn, lambda e: isinstance(e, ast.Name) and e.id == 'class_relation', rel, max_forks=6, body=fn.node.body[:first_use], eval_closures=True)
        _cn = Canon(m, Scope(None))
        sel = [(a_, res) for a_, res in (paths or []) if res.raised is None and any((term_of(fn, t, inline=False) == none_atom and v) or (_cn._not(term_of(fn, t, inline=False)) == none_atom and not v) for t, v in res.assumed)]
        if not sel or any(res.unknown is not None for _, res in sel):
            chk.unsure('C20.4c', 'R15', fn.site(), f'class_relation = {rel!r}', 'the statements that choose the built-in decision function could not be evaluated')
            continue
        got = set()
        for _, res in sel:
            pe = PathEval(fn, lambda e: isinstance(e, ast.Name) and e.id == 'class_relation', rel)
            pe.env.update({k: v for k, v in (res.env or {}).items()})
            pe.res = res
            applied = pe.subst(ast.parse('decision_function(X)', mode='eval').body)
            pe.eval_closures = True
            applied = pe._eval_local_call(applied)
            got.add(term_of(fn, applied, inline=False))
        if len(got) != 1:
            chk.unsure('C20.4c', 'R15', fn.site(), f'class_relation = {rel!r}', 'different decision functions on different paths')
            continue
        g = got.pop()
        chk.expect_term(g, [want_t], 'C20.4c', 'R15', fn.site(), f'{rel}: {show(g)[:120]}', f'built-in {rel} decision function as documented', f'the built-in {rel} decision function must be {show(want_t)[:100]}; found {show(g)[:140]}')


def _fresh(expr, X, m):
    """ownership of an array expression relative to parameter X: 'fresh' | 'alias' | 'unknown'"""
    if isinstance(expr, ast.Call):
        d = m.dotted(expr.func) or ''
        if d in ('numpy.copy', 'numpy.array', 'copy.deepcopy', 'copy.copy'):
            return 'fresh'
        if d in ('numpy.asarray', 'numpy.asanyarray', 'numpy.ascontiguousarray'):
            return 'alias'      # no copy when dtype / layout already match
        if isinstance(expr.func, ast.Attribute) and expr.func.attr == 'copy':
            return 'fresh'
        if isinstance(expr.func, ast.Attribute) and expr.func.attr == 'astype':
            cp = next((k.value for k in expr.keywords if k.arg == 'copy'), None)
            return 'alias' if isinstance(cp, ast.Constant) and cp.value is False else 'fresh'
    if isinstance(expr, ast.Subscript) and isinstance(expr.value, ast.Name) and expr.value.id == X:
        # fancy indexing with an array copies; slices are views
        if isinstance(expr.slice, ast.Name):
            return 'fresh-if-array:' + expr.slice.id
        return 'alias'
    if isinstance(expr, ast.Name) and expr.id == X:
        return 'alias'
    return 'unknown'


def noise(repo, chk):
    fn = repo.func(CC, f'{CLS}.generate_noise')
    m = fn.module
    X, y = [p for p in fn.params if p != 'self'][:2]
    par = parents(fn.node)
    # ownership: names -> status
    own = {X: 'alias'}
    stmts = sorted([n for n in own_nodes(fn.node) if isinstance(n, (ast.Assign, ast.For))], key=lambda s: s.lineno)
    arrays_idx = {n.targets[0].id for n in stmts if isinstance(n, ast.Assign) and isinstance(n.targets[0], ast.Name) and isinstance(n.value, ast.Call) and isinstance(n.value.func, ast.Attribute) and n.value.func.attr == 'argsort'}
    verdicts = []
    blocks = {}      # name -> (parent block id of its last assignment)
    _own_set = own.__setitem__

    def setown(name, status, stmt):
        blk = id(par.get(stmt))
        prev = blocks.get(name)
        if prev is not None and _sibling_branches(par, prev[2], stmt):
            # assigned in alternative branches of one if/else: either may reach the later write -> keep the worse status
            status = 'alias' if 'alias' in (status, own.get(name)) else status
        own[name] = status
        blocks[name] = (blk, status, stmt)
    for s in stmts:
        if isinstance(s, ast.Assign) and isinstance(s.targets[0], ast.Subscript) and isinstance(s.targets[0].value, ast.Name) and s.targets[0].value.id in own:
            verdicts.append((s, s.targets[0].value.id, own[s.targets[0].value.id]))
        if isinstance(s, ast.Assign) and len(s.targets) == 1 and isinstance(s.targets[0], ast.Name):
            v = s.value
            name = s.targets[0].id
            def status_of(e):
                """ownership of an array expression: transposes and slices are views; fancy indexing by an index array and copies are fresh"""
                if isinstance(e, ast.Name):
                    return own.get(e.id)
                if isinstance(e, ast.Attribute) and e.attr == 'T':
                    return status_of(e.value)
                if isinstance(e, ast.Call) and isinstance(e.func, ast.Attribute) and e.func.attr in ('transpose', 'view', 'reshape', 'ravel') :
                    return status_of(e.func.value)
                if isinstance(e, ast.Subscript) and isinstance(e.value, (ast.Name, ast.Attribute, ast.Subscript, ast.Call)):
                    inner = status_of(e.value) if not isinstance(e.value, ast.Name) else own.get(e.value.id)
                    if isinstance(e.slice, ast.Name) and e.slice.id in arrays_idx:
                        return 'fresh' if inner is not None else None
                    return inner
                st0 = _fresh(e, X, m)
                if st0.startswith('fresh-if-array:'):
                    return 'fresh' if st0.split(':')[1] in arrays_idx else 'alias'
                return st0 if st0 != 'unknown' else None
            composed = isinstance(v, ast.Attribute) and v.attr == 'T' and not isinstance(v.value, ast.Name)
            if composed and status_of(v) is not None:
                setown(name, status_of(v), s)
            elif isinstance(v, ast.Attribute) and v.attr == 'T' and isinstance(v.value, ast.Name) and v.value.id in own:
                setown(name, own[v.value.id], s)
            elif isinstance(v, ast.Subscript) and isinstance(v.value, ast.Name) and v.value.id in own and v.value.id != X:
                setown(name, own[v.value.id] if not isinstance(v.slice, ast.Name) else 'fresh', s)
            else:
                st = _fresh(v, X, m)
                if st.startswith('fresh-if-array:'):
                    st = 'fresh' if st.split(':')[1] in arrays_idx else 'alias'
                if st != 'unknown':
                    setown(name, st, s)
                elif isinstance(v, ast.Name) and v.id in own:
                    setown(name, own[v.id], s)
                elif isinstance(v, ast.IfExp):
                    sts = [_fresh(b, X, m) for b in (v.body, v.orelse)]
                    setown(name, 'alias' if any(x != 'fresh' for x in sts) else 'fresh', s)
        if isinstance(s, ast.For) and isinstance(s.target, ast.Name) and isinstance(s.iter, ast.Name) and s.iter.id in own:
            own[s.target.id] = own[s.iter.id]      # rows of an array are views of it
    writes = [n for n in own_nodes(fn.node) if isinstance(n, ast.Assign) and isinstance(n.targets[0], ast.Subscript) and isinstance(n.targets[0].value, ast.Name)]
    n_w = 0
    for wnode, base, status in verdicts:
        n_w += 1
        chk.expect(status == 'fresh', 'C20.5a', 'R11', fn.site(wnode), f'{ast.unparse(wnode)}  ({base}: {status})', 'cells are written into a fresh copy, never into the caller\'s array',
                   f'`{base}` can alias the input array X (no copy is made on every input, e.g. np.asarray does not copy an array that already has the requested dtype): noise is written into the caller\'s data set and a repeated call accumulates markers')
    chk.require_count('cell stores in generate_noise', n_w, 2)
    # k = int(n * p), distinct cells
    pname = [q for q in fn.params if q != 'self'][2]
    widths = {n.targets[0].id for n in own_nodes(fn.node) if isinstance(n, ast.Assign) and isinstance(n.targets[0], ast.Name) and ast.unparse(n.value).endswith('.shape[1]')}

    def _is_k(v):
        return isinstance(v, ast.Call) and isinstance(v.func, ast.Name) and v.func.id == 'int' and len(v.args) == 1 and isinstance(v.args[0], ast.BinOp) and isinstance(v.args[0].op, ast.Mult) \
            and {type(v.args[0].left), type(v.args[0].right)} == {ast.Name} and {v.args[0].left.id, v.args[0].right.id} & widths and pname in (v.args[0].left.id, v.args[0].right.id)
    ks = [n for n in own_nodes(fn.node) if isinstance(n, ast.Assign) and isinstance(n.targets[0], ast.Name) and _is_k(n.value)]
    knames = {k.targets[0].id for k in ks}
    # a count of cells that is rounded to nearest / up instead of down can exceed floor(p * n): decided positively
    def _rounds_up(v):
        return [x for x in ast.walk(v) if isinstance(x, ast.Call) and ((isinstance(x.func, ast.Name) and x.func.id == 'round') or (m.dotted(x.func) or '') in ('numpy.round', 'numpy.rint', 'numpy.ceil', 'math.ceil', 'numpy.around'))
                and any(isinstance(y, ast.Name) and y.id == pname for y in ast.walk(x))]
    for n_ in own_nodes(fn.node):
        if isinstance(n_, ast.Assign) and isinstance(n_.targets[0], ast.Name) and _rounds_up(n_.value) and any(isinstance(y, ast.Name) and y.id in widths for y in ast.walk(n_.value)):
            chk.bad('C20.5b', 'R15', fn.site(n_), ast.unparse(n_)[:100], 'the number of cells noise is applied to is p * n rounded to nearest / up: whenever the fractional part of p * n is at least one half it is floor(p * n) + 1, '
                    'one cell more per feature than the at most floor(p * n) the noise may change')
    chk.expect(len(ks) == 2, 'C20.5b', 'R15', fn.site(ks[0]) if ks else fn.site(), f'{[ast.unparse(k) for k in ks]}', 'number of noisy cells per feature is floor(n * p)', 'the number of altered cells per feature must be int(n * p) for both noise types', soft=True)
    ch = [c for c in calls(fn, dotted='numpy.random.choice') if len(c.args) >= 2 and isinstance(c.args[0], ast.Name) and c.args[0].id in widths]
    ok_ch = len(ch) == 2 and all(any(k.arg == 'replace' and isinstance(k.value, ast.Constant) and k.value.value is False for k in c.keywords) and ast.unparse(c.args[1]) in knames for c in ch)
    chk.expect(ok_ch, 'C20.5c', 'R15', fn.site(ch[0]) if ch else fn.site(), '; '.join(ast.unparse(c) for c in ch), 'cells are chosen without replacement (distinct cells: exactly k markers, at most k changes)', 'cells must be chosen by np.random.choice(n, k, replace=False)', soft=True)
    # replacement values originate from np.unique of the same feature
    rowvars = {l.target.id for l in own_nodes(fn.node) if isinstance(l, ast.For) and isinstance(l.target, ast.Name) and isinstance(l.iter, ast.Name) and l.iter.id in own}
    us = [c for c in calls(fn, dotted='numpy.unique') if c.args and isinstance(c.args[0], ast.Subscript) and isinstance(c.args[0].value, ast.Name) and c.args[0].value.id in rowvars]
    vals = [c for c in calls(fn, dotted='numpy.random.choice') if len(c.args) == 1 and isinstance(c.args[0], ast.Call) and isinstance(c.args[0].func, ast.Name) and c.args[0].func.id == 'list']
    # origin: every value that is drawn comes (through sets / unions / per-label dictionaries) from np.unique of the feature being altered
    tainted = set()
    changed = True
    while changed:
        changed = False
        for n in own_nodes(fn.node):
            tg = None
            if isinstance(n, ast.Assign) and len(n.targets) == 1:
                tg = n.targets[0]
            elif isinstance(n, ast.AugAssign):
                tg = n.target
            if tg is None:
                continue
            base = tg
            while isinstance(base, (ast.Subscript, ast.Attribute)):
                base = base.value
            if not isinstance(base, ast.Name) or base.id in tainted:
                continue
            srcs = {x.id for x in ast.walk(n.value) if isinstance(x, ast.Name)}
            if any(c in us for c in ast.walk(n.value)) or srcs & tainted:
                tainted.add(base.id)
                changed = True
    draws_ok = bool(vals) and all({x.id for x in ast.walk(c.args[0]) if isinstance(x, ast.Name)} - {'list', 'sorted', 'tuple'} <= tainted and ({x.id for x in ast.walk(c.args[0]) if isinstance(x, ast.Name)} & tainted) for c in vals)
    chk.expect(len(us) >= 1 and draws_ok, 'C20.5d', 'origin', fn.site(us[0]) if us else fn.site(), f'{len(us)} np.unique(feature[...]) domains; {len(vals)} draws from them', 'replacement values come from the feature\'s own observed values', 'replacement values must be drawn from np.unique of the same feature', soft=True)
    # missing: marker written
    mparam = [q for q in fn.params if q != 'self'][4] if len([q for q in fn.params if q != 'self']) > 4 else 'missing_val'
    mk = [w for w in writes if ast.unparse(w.value) == mparam]
    chk.expect(len(mk) == 1, 'C20.5e', 'R15', fn.site(mk[0]) if mk else fn.site(), ast.unparse(mk[0]) if mk else 'feature[ix] = missing_val', 'missing-type noise writes the marker', 'missing-type noise must write missing_val into the chosen cells')


def downsample(repo, chk):
    fn = repo.func(CC, f'{CLS}.downsample_dataset')
    m = fn.module
    E = lambda s: expected_term(m, s)
    Xp, yp, np_, seedp = [q for q in fn.params if q != 'self'][:4]
    par = parents(fn.node)
    loops = [n for n in own_nodes(fn.node) if isinstance(n, ast.For) and isinstance(n.target, ast.Name) and isinstance(n.iter, ast.Name)]
    cls_loop = None
    for lp in loops:
        d = [n for n in own_nodes(fn.node) if isinstance(n, ast.Assign) and isinstance(n.targets[0], ast.Tuple) and any(isinstance(e, ast.Name) and e.id == lp.iter.id for e in n.targets[0].elts) and 'np.unique' in ast.unparse(n.value) and yp in ast.unparse(n.value)]
        if d and isinstance(d[0].targets[0].elts[0], ast.Name) and d[0].targets[0].elts[0].id == lp.iter.id:
            cls_loop = lp
    chk.expect(cls_loop is not None, 'C20.6d', 'R13', fn.site(cls_loop) if cls_loop is not None else fn.site(), 'for label in values (np.unique(y))', 'every class is sampled', 'every class of y must be sampled (loop over the values of np.unique(y))')
    if cls_loop is None:
        return
    label = cls_loop.target.id
    lcs = [n for n in ast.walk(cls_loop) if isinstance(n, ast.ListComp)]
    ok_f = False
    cand_name = None
    for lc in lcs:
        g = lc.generators[0]
        # [row for row, row_label in zip(X, y) if row_label == label]
        if isinstance(g.target, ast.Tuple) and len(g.target.elts) == 2 and all(isinstance(e_, ast.Name) for e_ in g.target.elts) and len(g.ifs) == 1 and len(lc.generators) == 1:
            r_, l_ = g.target.elts[0].id, g.target.elts[1].id
            if isinstance(lc.elt, ast.Name) and lc.elt.id == r_ and term_of(fn, g.iter, inline=False) == E(f'zip({Xp}, {yp})') and term_of(fn, g.ifs[0], inline=False) in (E(f'{l_} == {label}'), E(f'{label} == {l_}')):
                ok_f = True
                st = par.get(lc)
                cand_name = st.targets[0].id if isinstance(st, ast.Assign) and isinstance(st.targets[0], ast.Name) else None
        if isinstance(g.target, ast.Name) and len(g.ifs) == 1:
            i = g.target.id
            if ast.unparse(lc.elt) == f'{Xp}[{i}]' and term_of(fn, g.iter, inline=False) in (E(f'range(len({yp}))'), E(f'range(len({Xp}))')) and term_of(fn, g.ifs[0], inline=False) == E(f'{yp}[{i}] == {label}'):
                ok_f = True
                st = par.get(lc)
                cand_name = st.targets[0].id if isinstance(st, ast.Assign) and isinstance(st.targets[0], ast.Name) else None
    mask_wrong = None
    if not ok_f:
        # the same selection written as a boolean mask / index array:  X[y == label], X[np.where(y == label)], X[np.flatnonzero(y == label)]
        for n_ in ast.walk(cls_loop):
            if isinstance(n_, ast.Assign) and len(n_.targets) == 1 and isinstance(n_.targets[0], ast.Name) and isinstance(n_.value, ast.Subscript) and isinstance(n_.value.value, ast.Name) and n_.value.value.id == Xp:
                sl = n_.value.slice
                if isinstance(sl, ast.Call) and (m.dotted(sl.func) or '') in ('numpy.where', 'numpy.flatnonzero', 'numpy.nonzero') and len(sl.args) == 1:
                    sl = sl.args[0]
                elif isinstance(sl, ast.Subscript) and isinstance(sl.value, ast.Call) and (m.dotted(sl.value.func) or '') in ('numpy.where', 'numpy.nonzero') and len(sl.value.args) == 1:
                    sl = sl.value.args[0]
                t_ = term_of(fn, sl, inline=False)
                if t_ in (E(f'{yp} == {label}'), E(f'{label} == {yp}'), E(f'numpy.equal({yp}, {label})')):
                    ok_f = True
                    cand_name = n_.targets[0].id
                elif isinstance(t_, tuple) and t_[0] == 'cmp' and t_[1] != '==' and {t_[2], t_[3]} == {('name', yp), ('name', label)}:
                    mask_wrong = (n_, t_[1])
    if mask_wrong is not None:
        chk.bad('C20.6a', 'R15', fn.site(mask_wrong[0]), ast.unparse(mask_wrong[0])[:100], f'the candidates of a class are selected with `{mask_wrong[1]}` instead of `==`: rows of other classes are drawn for the class')
    else:
      chk.expect(ok_f, 'C20.6a', 'R15', fn.site(lcs[0]) if lcs else fn.site(cls_loop), ast.unparse(lcs[0]) if lcs else '', 'candidates of a class are exactly the rows with that label', f'per class, candidates must be [X[i] for i in range(len(y)) if y[i] == {label}]', soft=True)
    rs = [c for c in ast.walk(cls_loop) if isinstance(c, ast.Call) and m.dotted(c.func) == 'sklearn.utils.resample']
    kw = {k.arg: ast.unparse(k.value) for k in rs[0].keywords} if rs else {}
    ok_r = len(rs) == 1 and rs[0].args and ast.unparse(rs[0].args[0]) == cand_name and kw.get('n_samples') == np_ and kw.get('random_state') == seedp
    chk.expect(ok_r, 'C20.6b', 'R15', fn.site(rs[0]) if rs else fn.site(), ast.unparse(rs[0]).replace('\n', ' ')[:120] if rs else '', 'n rows are drawn from the class, reproducibly', 'resample must draw n_samples=n rows from the class candidates with random_state=seed', soft=True)
    rep_forms = (E(f'[{label}] * {np_}'), E(f'{np_} * [{label}]'), E(f'numpy.full({np_}, {label})'), E(f'numpy.repeat({label}, {np_})'))
    ys = [n for n in ast.walk(cls_loop) if isinstance(n, ast.Assign) and term_of(fn, n.value, inline=False) in rep_forms]
    # the n labels may also be written where they are appended (np.concatenate((acc, [label] * n)))
    ys_inline = [x for x in ast.walk(cls_loop) if isinstance(x, (ast.BinOp, ast.Call)) and term_of(fn, x, inline=False) in rep_forms] if not ys else []
    # all classes at once, outside the loop: np.repeat(<the class values>, n) - every value n times, in the order of the values
    vals_name = cls_loop.iter.id
    ys_all = [x for x in own_nodes(fn.node) if isinstance(x, ast.Call) and term_of(fn, x, inline=False) in (E(f'numpy.repeat({vals_name}, {np_})'),) and not any(x is y_ for y_ in ast.walk(cls_loop))]
    rep_other = [x for x in own_nodes(fn.node) if isinstance(x, ast.Call) and (m.dotted(x.func) or '') in ('numpy.repeat', 'numpy.tile') and x not in ys_all and not any(x is y_ for y_ in ast.walk(cls_loop))
                 and any(isinstance(z, ast.Call) and (m.dotted(z.func) or ast.unparse(z.func)) in ('numpy.arange', 'range', 'len') for z in ast.walk(x))]
    if not ys and not ys_inline and not ys_all and rep_other:
        chk.bad('C20.6c', 'R15', fn.site(rep_other[0]), ast.unparse(rep_other[0])[:100], f'the labels of the down-sampled rows are built from class POSITIONS / counts, not from the class values `{vals_name}` found in y: '
                'whenever the labels are not exactly 0..k-1 the returned labels are not those of the rows')
    elif not ys and not ys_inline and len(ys_all) == 1:
        chk.ok('C20.6c', 'R15', fn.site(ys_all[0]), ast.unparse(ys_all[0])[:80], 'n labels of every class, in the order of the classes')
    else:
      chk.expect(len(ys) == 1 or (not ys and len(ys_inline) == 1), 'C20.6c', 'R15', fn.site(ys[0]) if ys else fn.site(cls_loop), f'[{label}] * {np_}', 'n labels of that class', f'labels of the down-sampled rows must be [{label}] * {np_} for every class', soft=True)
    # accumulation and result
    r = returns(fn)
    ok_ret = False
    if len(r) == 1 and isinstance(r[0].value, ast.Tuple) and len(r[0].value.elts) == 2 and all(isinstance(e, ast.Name) for e in r[0].value.elts):
        xa, ya = [e.id for e in r[0].value.elts]
        res_name = None
        if rs:
            st = par.get(rs[0])
            res_name = st.targets[0].id if isinstance(st, ast.Assign) and isinstance(st.targets[0], ast.Name) else None
        coll = [c for c in ast.walk(cls_loop) if isinstance(c, ast.Call) and isinstance(c.func, ast.Attribute) and c.func.attr == 'append' and c.args and ast.unparse(c.args[0]) == res_name and isinstance(c.func.value, ast.Name)]
        lst = coll[0].func.value.id if coll else None
        xdefs = [n for n in own_nodes(fn.node) if isinstance(n, ast.Assign) and isinstance(n.targets[0], ast.Name) and n.targets[0].id == xa and lst and f'({lst}' in ast.unparse(n.value) and ('concatenate' in ast.unparse(n.value) or 'vstack' in ast.unparse(n.value))]
        yacc = [n for n in ast.walk(cls_loop) if isinstance(n, ast.Assign) and isinstance(n.targets[0], ast.Name) and n.targets[0].id == ya and ya in ast.unparse(n.value) and 'concatenate' in ast.unparse(n.value)
                and ((ys and ys[0].targets[0].id in ast.unparse(n.value)) or (ys_inline and any(x is ys_inline[0] for x in ast.walk(n.value))))]
        y_all = [n for n in own_nodes(fn.node) if isinstance(n, ast.Assign) and isinstance(n.targets[0], ast.Name) and n.targets[0].id == ya and ys_all and any(x is ys_all[0] for x in ast.walk(n.value))
                 and not any(n is y_ for y_ in ast.walk(cls_loop))] if not yacc else []
        ok_ret = bool(coll) and bool(xdefs) and (bool(yacc) or bool(y_all))
    chk.expect(ok_ret, 'C20.6f', 'R6', fn.site(r[0]) if r else fn.site(), ast.unparse(r[0]) if r else '', 'returns (concatenated per-class rows, concatenated per-class labels)', 'downsample_dataset must return (rows of all classes concatenated, labels of all classes concatenated) in this order', soft=True)
    g = [n for n in own_nodes(fn.node) if isinstance(n, ast.If) and any(isinstance(x, ast.Raise) for x in n.body) and np_ in ast.unparse(n.test) and
         any(isinstance(x, tuple) and x[:2] in (('call', ('name', 'min')), ('call', ('lib', 'numpy.min'))) for x in walk_term(term_of(fn, n.test, {np_: ('role', 'n')}, inline=True)))]
    cname = None
    for n in own_nodes(fn.node):
        if isinstance(n, ast.Assign) and isinstance(n.targets[0], ast.Tuple) and 'np.unique' in ast.unparse(n.value) and len(n.targets[0].elts) == 2 and isinstance(n.targets[0].elts[1], ast.Name):
            cname = n.targets[0].elts[1].id
    EB = lambda src: term_of(fn, ast.parse(src, mode='eval').body, {np_: ('role', 'n')}, inline=True)
    chk.expect(len(g) == 1 and (term_of(fn, g[0].test, inline=False) == E(f'{np_} > min({cname})') or term_of(fn, g[0].test, {np_: ('role', 'n')}, inline=True) in (EB(f'{np_} > min({cname})'), EB(f'{np_} > np.min({cname})'))), 'C20.6e', 'R14', fn.site(g[0]) if g else fn.site(), ast.unparse(g[0].test) if g else '', 'n larger than the minority class is rejected', 'n > min(counts) must be rejected', soft=True)


def _sibling_branches(par, a, b):
    """a and b sit in different branches (body / orelse) of the same if statement chain"""
    def chain(n):
        out = []
        cur = par.get(n)
        child = n
        while cur is not None:
            if isinstance(cur, ast.If):
                out.append((id(cur), 'body' if any(child is x for x in cur.body) else 'orelse'))
            child, cur = cur, par.get(cur)
        return out
    ca, cb = dict(chain(a)), dict(chain(b))
    return any(k in cb and cb[k] != v for k, v in ca.items())


# -- 6 the combiners shipped with the generator ---------------------------------------------------------------
COMBINERS = {'_xor': 'xor', '_and': 'and', '_or': 'or'}
UFUNC = {'np.bitwise_xor': 'xor', 'np.bitwise_and': 'and', 'np.bitwise_or': 'or', 'numpy.bitwise_xor': 'xor', 'numpy.bitwise_and': 'and', 'numpy.bitwise_or': 'or',
         'operator.xor': 'xor', 'operator.and_': 'and', 'operator.or_': 'or', 'np.logical_xor': 'lxor', 'np.logical_and': 'land', 'np.logical_or': 'lor'}
BINOP = {ast.BitXor: 'xor', ast.BitAnd: 'and', ast.BitOr: 'or'}
IDENTITY = {'xor': 'zero', 'or': 'zero', 'and': 'allones'}
ABSORBING = {'and': 'zero', 'or': 'allones'}


class _NoFold(Exception):
    pass


class _FoldEval:
    """Abstract evaluation of a combiner for a fixed number k of source columns: the array of columns is the list [c0..ck-1]; transposition, np.array
    and astype(int) are transparent; the result is an expression tree over the bitwise operators whose leaves are columns or constant arrays."""

    def __init__(self, fn, k):
        self.fn, self.m, self.k = fn, fn.module, k
        self.env = {}
        p = [a for a in fn.params if a != 'self']
        if len(p) != 1:
            raise _NoFold('the combiner does not take exactly one argument')
        self.env[p[0]] = ('cols', list(range(k)))
        self.steps = 0

    def ufunc(self, e):
        if isinstance(e, ast.Name) and e.id in self.env and self.env[e.id][0] == 'ufunc':
            return self.env[e.id][1]
        d = self.m.dotted(e) if isinstance(e, (ast.Name, ast.Attribute)) else None
        src = ast.unparse(e)
        for k in (d, src, (d or '').replace('numpy.', 'np.')):
            if k in UFUNC:
                return UFUNC[k]
        return None

    def ev(self, e):
        if isinstance(e, ast.Constant):
            return ('const', e.value)
        if isinstance(e, ast.Name):
            if e.id in self.env:
                return self.env[e.id]
            u = self.ufunc(e)
            if u:
                return ('ufunc', u)
            raise _NoFold(f'unbound name {e.id}')
        if isinstance(e, ast.Attribute):
            u = self.ufunc(e)
            if u:
                return ('ufunc', u)
            if e.attr == 'T':
                return self.ev(e.value)
            raise _NoFold(ast.unparse(e))
        if isinstance(e, ast.UnaryOp) and isinstance(e.op, ast.USub) and isinstance(e.operand, ast.Constant):
            return ('const', -e.operand.value)
        if isinstance(e, ast.UnaryOp) and isinstance(e.op, ast.Invert):
            v = self.ev(e.operand)
            if v == ('const', 0) or v == ('leaf', 'zero'):
                return ('leaf', 'allones')
            raise _NoFold(ast.unparse(e))
        if isinstance(e, ast.BinOp):
            if type(e.op) in BINOP:
                return self.apply(BINOP[type(e.op)], self.ev(e.left), self.ev(e.right))
            a, b = self.ev(e.left), self.ev(e.right)
            if a[0] == 'const' and b[0] == 'const' and isinstance(e.op, (ast.Add, ast.Sub)):
                return ('const', a[1] + b[1] if isinstance(e.op, ast.Add) else a[1] - b[1])
            raise _NoFold(ast.unparse(e))
        if isinstance(e, ast.Subscript):
            v = self.ev(e.value)
            if v[0] != 'cols':
                raise _NoFold(ast.unparse(e))
            if isinstance(e.slice, ast.Slice):
                lo = self.ev(e.slice.lower)[1] if e.slice.lower is not None else None
                hi = self.ev(e.slice.upper)[1] if e.slice.upper is not None else None
                st = self.ev(e.slice.step)[1] if e.slice.step is not None else None
                return ('cols', v[1][slice(lo, hi, st)])
            i = self.ev(e.slice)
            if i[0] != 'const' or not isinstance(i[1], int):
                raise _NoFold(ast.unparse(e))
            try:
                return ('col', v[1][i[1]])
            except IndexError:
                raise _NoFold(f'index {i[1]} outside the {self.k} columns')
        if isinstance(e, ast.Compare) and len(e.ops) == 1:
            a, b = self.ev(e.left), self.ev(e.comparators[0])
            if a[0] == 'const' and b[0] == 'const':
                import operator as _o
                f = {ast.Gt: _o.gt, ast.GtE: _o.ge, ast.Lt: _o.lt, ast.LtE: _o.le, ast.Eq: _o.eq, ast.NotEq: _o.ne}.get(type(e.ops[0]))
                if f:
                    return ('const', f(a[1], b[1]))
            raise _NoFold(ast.unparse(e))
        if isinstance(e, ast.Call):
            f = e.func
            d = self.m.dotted(f) if isinstance(f, (ast.Name, ast.Attribute)) else None
            d = (d or '').replace('numpy.', 'np.')
            if isinstance(f, ast.Name) and f.id == 'len' and len(e.args) == 1:
                v = self.ev(e.args[0])
                if v[0] == 'cols':
                    return ('const', len(v[1]))
            if isinstance(f, ast.Name) and f.id == 'range':
                a = [self.ev(x) for x in e.args]
                if all(x[0] == 'const' for x in a):
                    return ('range', list(range(*[x[1] for x in a])))
            if d in ('np.array', 'np.asarray', 'np.transpose', 'np.stack', 'np.column_stack', 'list', 'tuple', 'iter') and e.args:
                v = self.ev(e.args[0])
                if v[0] == 'cols':
                    return v
            if isinstance(f, ast.Attribute) and f.attr in ('astype', 'transpose', 'copy', 'tolist') :
                v = self.ev(f.value)
                if f.attr == 'astype' and not (e.args and ast.unparse(e.args[0]) in ('int', 'np.int64', 'np.int32', "'int'", "'int64'")):
                    raise _NoFold(ast.unparse(e))
                return v
            if d in ('np.zeros_like', 'np.zeros'):
                return ('leaf', 'zero')
            if d in ('np.ones_like', 'np.ones'):
                return ('leaf', 'one')
            if d in ('np.full_like', 'np.full') and len(e.args) >= 2:
                c = self.ev(e.args[1])
                return ('leaf', {0: 'zero', -1: 'allones'}.get(c[1], 'one')) if c[0] == 'const' else ('leaf', 'one')
            u = self.ufunc(f)
            if u and len(e.args) == 2:
                return self.apply(u, self.ev(e.args[0]), self.ev(e.args[1]))
            # ufunc.reduce(cols[, axis=0]) / functools.reduce(ufunc, cols[, init])
            if isinstance(f, ast.Attribute) and f.attr == 'reduce' and self.ufunc(f.value) and e.args:
                v = self.ev(e.args[0])
                ax = next((k.value for k in e.keywords if k.arg == 'axis'), e.args[1] if len(e.args) > 1 else None)
                if v[0] == 'cols' and (ax is None or (isinstance(ax, ast.Constant) and ax.value == 0)):
                    return self.fold(self.ufunc(f.value), [('col', i) for i in v[1]])
                raise _NoFold(ast.unparse(e))
            if d in ('functools.reduce', 'reduce') and len(e.args) >= 2:
                u = self.ev(e.args[0])
                v = self.ev(e.args[1])
                if u[0] == 'ufunc' and v[0] == 'cols':
                    items = [('col', i) for i in v[1]]
                    if len(e.args) > 2:
                        items = [self.ev(e.args[2])] + items
                    return self.fold(u[1], items)
            raise _NoFold(ast.unparse(e)[:80])
        if isinstance(e, ast.Lambda):
            raise _NoFold('lambda')
        raise _NoFold(ast.unparse(e)[:80])

    def fold(self, op, items):
        if not items:
            raise _NoFold('fold of nothing')
        out = items[0]
        for x in items[1:]:
            out = self.apply(op, out, x)
        return out

    def apply(self, op, a, b):
        for x in (a, b):
            if x[0] not in ('col', 'leaf', 'op'):
                if x[0] == 'const' and x[1] in (0, -1):
                    continue
                raise _NoFold(f'operand {x}')
        conv = lambda x: ('leaf', 'zero' if x[1] == 0 else 'allones') if x[0] == 'const' else x
        return ('op', op, conv(a), conv(b))

    def run(self, body):
        for st in body:
            self.steps += 1
            if self.steps > 400:
                raise _NoFold('too many steps')
            if isinstance(st, ast.Expr) and isinstance(st.value, ast.Constant):
                continue
            if isinstance(st, ast.Assign) and len(st.targets) == 1 and isinstance(st.targets[0], ast.Name):
                self.env[st.targets[0].id] = self.ev(st.value)
            elif isinstance(st, ast.AugAssign) and isinstance(st.target, ast.Name) and type(st.op) in BINOP:
                self.env[st.target.id] = self.apply(BINOP[type(st.op)], self.ev(st.target), self.ev(st.value))
            elif isinstance(st, ast.If):
                t = self.ev(st.test)
                if t[0] != 'const':
                    raise _NoFold(ast.unparse(st.test))
                r = self.run(st.body if t[1] else st.orelse)
                if r is not None:
                    return r
            elif isinstance(st, ast.For) and isinstance(st.target, ast.Name) and not st.orelse:
                it = self.ev(st.iter)
                if it[0] == 'range':
                    vals = [('const', i) for i in it[1]]
                elif it[0] == 'cols':
                    vals = [('col', i) for i in it[1]]
                else:
                    raise _NoFold(ast.unparse(st.iter))
                for v in vals:
                    self.env[st.target.id] = v
                    r = self.run(st.body)
                    if r is not None:
                        return r
            elif isinstance(st, ast.Return):
                return self.ev(st.value)
            elif isinstance(st, ast.Pass):
                continue
            else:
                raise _NoFold(ast.unparse(st)[:80])
        return None


def _fold_leaves(t, op, out):
    if t[0] == 'op':
        if t[1] != op:
            out.append(('wrongop', t[1]))
            return
        _fold_leaves(t[2], op, out)
        _fold_leaves(t[3], op, out)
    else:
        out.append(t)


def combiners(repo, chk):
    """C20.6 - `_xor`, `_and`, `_or` (the functions generate_combinations is documented to be used with) combine ALL source columns with the operator
    of their name.  Each is evaluated abstractly for k = 2, 3, 4 source columns: the result must be the fold of that operator over exactly the
    columns c0..ck-1 (modulo associativity / commutativity, identities dropped, x^x = 0, x&x = x|x = x)."""
    m = repo.mod(CC)
    for name, op in COMBINERS.items():
        fn = m.funcs.get(f'{CLS}.{name}')
        if fn is None:
            chk.unsure('C20.6', 'R15', 'outrank/algorithms/synthetic_data_generators/cc_generator.py', name, f'the combiner {name} was not found')
            continue
        verdict = None
        for k in (2, 3, 4):
            try:
                t = _FoldEval(fn, k).run(fn.node.body)
            except _NoFold as e:
                verdict = ('unsure', f'for {k} columns the combiner is written with a construct outside the fold vocabulary: {e}')
                break
            except RecursionError:
                verdict = ('unsure', 'evaluation too deep')
                break
            if t is None or t[0] not in ('op', 'col'):
                verdict = ('unsure', f'for {k} columns the result is not an expression over the columns: {t}')
                break
            leaves = []
            _fold_leaves(t, op, leaves)
            wrong = [x for x in leaves if x[0] == 'wrongop']
            if wrong:
                verdict = ('bad', f'{name} combines columns with the operator {wrong[0][1]!r}; its name and documentation say {op!r}')
                break
            consts = [x[1] for x in leaves if x[0] == 'leaf']
            cols = [x[1] for x in leaves if x[0] == 'col']
            absorbing = [c for c in consts if c == ABSORBING.get(op)]
            foreign = [c for c in consts if c != IDENTITY[op] and c != ABSORBING.get(op)]
            if absorbing:
                verdict = ('bad', f'for {k} columns the fold of {op!r} includes the constant {absorbing[0]!r} array, which absorbs every operand: the result is that constant whatever the sources hold')
                break
            if foreign:
                verdict = ('bad', f'for {k} columns the fold of {op!r} includes a constant {foreign[0]!r} array that is not the identity of the operator: the result is not the {op} of the sources')
                break
            if op == 'xor':
                eff = sorted(c for c in set(cols) if cols.count(c) % 2 == 1)
            else:
                eff = sorted(set(cols))
            if eff != list(range(k)):
                missing = sorted(set(range(k)) - set(eff))
                verdict = ('bad', f'for {k} source columns the result is the {op} of columns {eff} only: column(s) {missing} do not take part' + (' (or cancel out)' if op == 'xor' and set(missing) <= set(cols) else ''))
                break
        site = fn.site()
        if verdict is None:
            chk.ok('C20.6', 'R15', site, f'{name}: fold of {op} over all columns (k = 2, 3, 4)', 'every source column takes part exactly once (up to the algebra of the operator), no foreign constant')
        elif verdict[0] == 'bad':
            chk.bad('C20.6', 'R15', site, name, verdict[1])
        else:
            chk.unsure('C20.6', 'R15', site, name, verdict[1])


def value_width(repo, chk):
    """C20.7 - labels, correlated features and user combinations are arithmetic on the generated codes (2*x+3 summed, products, bitwise folds): the
    arithmetic is exact only while the data set keeps a wide integer type.  A cast of the data to int8 / int16 anywhere in the generator makes
    that arithmetic wrap for ordinary cardinalities."""
    from .common import narrowing_casts
    m = repo.mod(CC)
    funcs = [f for q, f in m.funcs.items() if q.startswith(CLS + '.')]
    narrowing_casts(chk, 'C20.7', funcs, 'generated data is', 'sums and products computed from the codes by generate_labels / generate_combinations wrap around in that type, so labels are not a monotone function '
                    'of the decision value and combinations are not the stated function of their sources', m.relpath)
