"""C01 - the plain estimator equals the plug-in Shannon mutual information.

Decided for the path r = 1, cardinality_correction = False through mutual_info_estimator_numba -> compute_entropies ->
compute_conditional_entropy, numba_unique (R9, probability kinds):
 1 numba_unique is a histogram of its argument
 2 every division forms a proper probability Cnt(Y=k)/N, Cnt(X=v)/N, Cnt(Y=c & X=v)/Cnt(X=v)
 3 every log is np.log (nats) of a probability; each product contains that probability once and, for the conditional
   term, the stratum weight P(X=v) once
 4 reductions range over complete domains; the only skip guards are Cnt(X=v) == 1 and p != 0
 5 signs: the returned value is H(Y) - H(Y|X), multiplied by nothing but approximation_factor
 6 wiring of the internal call sites (argument kinds)
 7 loop-carried cursors (manual class index) are advanced on every path
The corollaries (symmetry, >= 0, 0 for a constant vector, <= min entropy, entropy on the diagonal) follow from the identity.
"""
from __future__ import annotations

from .kernel_rules import histogram, loop_cursors, sampling_guard, summary_obligations

EXPLANATION = ('Probability-kind inference (R9): an abstract interpreter over the four kernel functions assigns each value a kind (N, counts, strata, sub-vectors, joint counts, probabilities, '
               'logs, signed reductions over index domains with the guards in force) and summarises the value returned on the plain path as a signed sum of p*log p contributions, which is compared '
               'with H(Y) - sum_v P(X=v) H(Y|X=v). Structural check that numba_unique is a histogram; CFG rule that loop-carried cursors advance on every path. '
               'Decides the formula as a term; numerical agreement up to float32 rounding (fastmath) is not decided.')
TRUSTED_BASE = ['numba: prange without parallel=True is range; np.nonzero returns ascending positions; np.where(cond)[0] are the positions where cond holds',
                'I(Y;X) = H(Y) - sum_v P(X=v) H(Y | X=v) (definition), in nats with the natural logarithm']
ASSUMPTIONS = ['codes are non-negative integers (statement); floating-point rounding is outside the claim']


def run(repo, chk, tier):
    histogram(repo, chk, 'C01.1')
    summary_obligations(repo, chk, False, 'C01', {'badratio', 'badlog', 'badindex', 'badrange', 'badcount', 'badstore', 'badinit'})
    loop_cursors(repo, chk, 'C01.7')
    sampling_guard(repo, chk, 'C01.8')
    from .kernel_rules import compile_options
    compile_options(repo, chk, 'C01.9')
    from .kernel_rules import narrow_kernel_storage
    narrow_kernel_storage(repo, chk, 'C01.10')
