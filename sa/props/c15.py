"""C15 - frequency sketches err on one side only.

 1 _add and query address the same cell: same hash function on (x, seeds[i], width), through the self -> static-method binding
 2 both range over all of range(depth); exactly one cell per row incremented, by delta; matrix zero-initialised; only _add writes it
 3 query reduces with the builtin min over all rows
 4 bounded counter: every mutation in add() dominated by len(counter) < bound (strict), +1 on key val; writers of default_counter
"""
from __future__ import annotations

import ast

from ..cfg import CFG
from ..match import bind_args, calls, expected_term, term_of
from ..model import own_nodes
from ..terms import Canon, Scope, show

EXPLANATION = ('Sibling agreement (R6) of the cell address computed by CountMinSketch._add and .query after binding the static method\'s parameters to the arguments passed by add(); '
               'loop-domain and increment obligations on the update; reduction obligation (builtin min over range(depth)) on the query; who-may-write (R2) for the count matrix and the counter; '
               'guard-dominance (R3) with comparison normal form (R14) for the bounded counter. From these follow: row sum = total weight, estimate >= true weight, estimate <= total, '
               'tracked keys <= bound, no over-count. Decides the mechanism, not behaviour on actual streams.')
TRUSTED_BASE = ['numba: prange without parallel=True is range; hash() of a value is stable within a process',
                'collections.Counter[key] += 1 creates the key with count 1 or increments it by exactly 1']
ASSUMPTIONS = ['weights are non-negative (premise of the statement); total weight < 2**31 (int32 cells)']

CMS = 'outrank.algorithms.sketches.counting_cms'
CNT = 'outrank.algorithms.sketches.counting_counters_ordinary'


def run(repo, chk, tier):
    cms(repo, chk)
    counter(repo, chk)


def _loop_over_depth(fn, depth_term, bound):
    """loops / comprehension generators iterating range(depth) or prange(depth): returns list of (node, target name, iter term ok)"""
    out = []
    for n in own_nodes(fn.node):
        if isinstance(n, ast.For) and isinstance(n.target, ast.Name):
            out.append((n, n.target.id, n.iter))
        if isinstance(n, ast.comprehension) and isinstance(n.target, ast.Name):
            out.append((n, n.target.id, n.iter))
    return out


def cms(repo, chk):
    m = repo.mod(CMS)
    add_s = repo.func(CMS, 'CountMinSketch._add')
    add = repo.func(CMS, 'CountMinSketch.add')
    query = repo.func(CMS, 'CountMinSketch.query')
    init = repo.func(CMS, 'CountMinSketch.__init__')
    hashf = repo.func(CMS, 'cms_hash')

    # binding of _add's parameters at the call site in add()
    # (the update routine may be called as CountMinSketch._add / self._add or, when it lives at module level, by its own name)
    own_names = {q for q, f in m.funcs.items() if f.node is add_s.node and '.' not in q}
    cs = [c for c in calls(add) if (isinstance(c.func, ast.Attribute) and c.func.attr == '_add') or (isinstance(c.func, ast.Name) and c.func.id in own_names)]
    if len(cs) != 1:
        chk.unsure('C15.1', 'R6', add.site(), 'CountMinSketch._add(...)', f'{len(cs)} calls of _add in add(), expected 1')
        return
    ba = bind_args(cs[0], add_s)
    p = add_s.params   # M, x, depth, width, hash_seeds, delta
    item = [q for q in add.params if q != 'self'][0]
    want = {p[0]: 'self.M', p[1]: item, p[2]: 'self.depth', p[3]: 'self.width', p[4]: 'self.hash_seeds'}
    wrong = [k for k, v in want.items() if k not in ba or ast.unparse(ba[k]) != v]
    chk.expect(not wrong, 'C15.1a', 'R6', add.site(cs[0]), ast.unparse(cs[0]), 'add() hands matrix, item, depth, width and seeds of this sketch to _add in their roles',
               f'parameter(s) {wrong} of _add do not receive the corresponding attribute of the sketch')
    dpar = p[5] if len(p) > 5 else None
    dadd = [q for q in add.params if q != 'self'][1] if len([q for q in add.params if q != 'self']) > 1 else None
    ok_delta = dpar is not None and dadd is not None and isinstance(ba.get(dpar), ast.Name) and ba[dpar].id == dadd
    chk.expect(ok_delta, 'C15.1b', 'R6', add.site(cs[0]), ast.unparse(cs[0]), 'the weight given to add() reaches _add', 'the weight (delta) passed to add() is not forwarded to _add: weighted updates are lost')

    # update: for i in prange(depth): location = cms_hash(x, hash_seeds[i], width); M[i, location] += delta
    loops = [n for n in own_nodes(add_s.node) if isinstance(n, ast.For)]
    augs = [n for n in own_nodes(add_s.node) if isinstance(n, (ast.AugAssign, ast.Assign)) and isinstance((n.target if isinstance(n, ast.AugAssign) else n.targets[0]), ast.Subscript)]
    if len(loops) != 1 or len(augs) != 1:
        chk.unsure('C15.2', 'R13', add_s.site(), '_add body', f'expected one loop and one cell store, found {len(loops)} / {len(augs)}')
        return
    lp, st = loops[0], augs[0]
    bound_add = {p[0]: ('role', 'M'), p[1]: ('role', 'x'), p[2]: ('role', 'depth'), p[3]: ('role', 'width'), p[4]: ('role', 'seeds')}
    if dpar:
        bound_add[dpar] = ('role', 'delta')
    E = lambda s: expected_term(m, s, {k: ('role', k) for k in ('M', 'x', 'depth', 'width', 'seeds', 'delta', 'i')})
    it = term_of(add_s, lp.iter, bound_add)
    chk.expect_term(it, [E('range(depth)'), E('numba.prange(depth)'), E('range(0, depth)')], 'C15.2a', 'R13', add_s.site(lp), ast.unparse(lp.iter), 'update visits every row of the sketch',
                    f'the update loop must range over all of range(depth); found {show(it)[:80]}')
    if isinstance(lp.target, ast.Name):
        bound_add[lp.target.id] = ('role', 'i')
    tgt = st.target if isinstance(st, ast.AugAssign) else st.targets[0]
    cell = term_of(add_s, tgt, bound_add)
    hname = 'outrank.algorithms.sketches.counting_cms.cms_hash'
    cell_forms = [E(f'M[i, {hname}(x, seeds[i], width)]'), E(f'M[i][{hname}(x, seeds[i], width)]')]
    chk.expect_term(cell, cell_forms, 'C15.2b', 'R6', add_s.site(st), ast.unparse(tgt), 'cell = M[row, cms_hash(x, seed[row], width)]', f'update addresses {show(cell)[:140]}, not M[i, cms_hash(x, seeds[i], width)]')
    in_loop = any(x is st for x in ast.walk(lp))
    conditional = any(isinstance(x, (ast.If, ast.Try, ast.While)) for x in ast.walk(lp) if x is not lp)
    inc_ok = isinstance(st, ast.AugAssign) and isinstance(st.op, ast.Add) and term_of(add_s, st.value, bound_add) == ('role', 'delta')
    chk.expect(in_loop and not conditional and inc_ok, 'C15.2c', 'R13', add_s.site(st), ast.unparse(st), 'exactly one cell per row is incremented, by the weight delta, unconditionally',
               'each row must get exactly `+= delta` at one cell, unconditionally (conservation: row sum = total weight; never below the true weight)')

    # an item added without an explicit weight counts once
    # a weighted batch: every item of batch_add(items, delta) is added with that weight
    badd = repo.func(CMS, 'CountMinSketch.batch_add')
    bpar = [q for q in badd.params if q != 'self']
    bweight = bpar[1] if len(bpar) > 1 else None
    if bweight is not None and dadd is not None:
        aliases = {n.targets[0].id for n in own_nodes(badd.node) if isinstance(n, ast.Assign) and len(n.targets) == 1 and isinstance(n.targets[0], ast.Name) and isinstance(n.value, ast.Attribute)
                   and isinstance(n.value.value, ast.Name) and n.value.value.id == 'self' and n.value.attr == 'add'}
        adds_in_batch = [c for c in calls(badd) if (isinstance(c.func, ast.Attribute) and isinstance(c.func.value, ast.Name) and c.func.value.id == 'self' and c.func.attr == 'add') or (isinstance(c.func, ast.Name) and c.func.id in aliases)]
        for c in adds_in_batch:
            got = next((k.value for k in c.keywords if k.arg == dadd), c.args[1] if len(c.args) > 1 else None)
            if got is None:
                chk.bad('C15.1c', 'R6', badd.site(c), ast.unparse(c)[:100], f'batch_add receives a weight `{bweight}` but adds every item with the default weight: a weighted batch is counted with weight 1 per item, so estimates and row sums '
                        'fall below the true weight (or exceed it for weights below 1)')
            elif not (isinstance(got, ast.Name) and got.id == bweight):
                chk.unsure('C15.1c', 'R6', badd.site(c), ast.unparse(c)[:100], f'the weight handed to add() in batch_add is not the parameter `{bweight}` itself')
            else:
                chk.ok('C15.1c', 'R6', badd.site(c), ast.unparse(c)[:100], 'every item of a batch is added with the weight of the batch')
    # every update of the matrix goes through the one update routine (whose cell address is the hash query() reads): a second writer - a vectorised batch
    # update that addresses the cells itself - is a second implementation of the address, and that the two agree for every item is not decided here
    cls_methods = {q: f for q, f in repo.mod(CMS).funcs.items() if q.startswith('CountMinSketch.') and q.count('.') == 1}
    for q, f in sorted(cls_methods.items()):
        if f.name == '__init__':
            continue
        for n in own_nodes(f.node):
            w = None
            if isinstance(n, (ast.Assign, ast.AugAssign)):
                for t in (n.targets if isinstance(n, ast.Assign) else [n.target]):
                    b = t
                    while isinstance(b, ast.Subscript):
                        b = b.value
                    if b is not t and isinstance(b, ast.Attribute) and isinstance(b.value, ast.Name) and b.value.id == 'self' and b.attr == 'M':
                        w = n
            elif isinstance(n, ast.Call) and isinstance(n.func, ast.Attribute) and n.func.attr == 'at' and n.args:
                b = n.args[0]
                while isinstance(b, ast.Subscript):
                    b = b.value
                if isinstance(b, ast.Attribute) and isinstance(b.value, ast.Name) and b.value.id == 'self' and b.attr == 'M':
                    w = n
            if w is not None:
                chk.unsure('C15.2e', 'R2', f.site(w), ast.unparse(w)[:100], f'{f.name} writes cells of the matrix itself instead of going through the update routine of add(): the address it computes is a second '
                           'implementation of the hash that query() reads; that it is the same cell for every item (and every width / integer width of the intermediate sums) is not decided')
                break
    if not any(o.oid == 'C15.2e' for o in chk.obs):
        chk.ok('C15.2e', 'R2', repo.mod(CMS).relpath, f'{len(cls_methods)} method(s) of CountMinSketch', 'the matrix is written by the update routine of add() only')
    for f in (add_s, add, repo.func(CMS, 'CountMinSketch.batch_add')):
        dv = f.node.args.defaults
        pn = f.params
        dd = dict(zip(pn[len(pn) - len(dv):], dv))
        # the weight parameter by its role: the sixth parameter of the update routine, the second one (after the item) of add / batch_add
        role = pn[5] if f is add_s and len(pn) > 5 else (([q for q in pn if q != 'self'] + [None, None])[1])
        k = [x for x in dd if x == role]
        okd = bool(k) and isinstance(dd[k[0]], ast.Constant) and dd[k[0]].value == 1
        chk.expect(okd, 'C15.2f', 'R8', f.site(), f'{f.qualname}(..., {role}={ast.unparse(dd[k[0]]) if k else None})', 'default weight of an update is 1', 'the default weight (delta) of an update must be 1: otherwise add(x) accumulates a weight other than the one occurrence it stands for')
    # query
    qx = [q for q in query.params if q != 'self'][0]
    rets = [n for n in own_nodes(query.node) if isinstance(n, ast.Return)]
    if len(rets) != 1:
        chk.unsure('C15.3', 'R15', query.site(), 'query', 'expected a single return')
        return
    # path evaluation (a running-minimum loop is summarised as min(... for i in range(depth)))
    from ..match import run_paths
    qpaths = run_paths(query, None, None, max_forks=2)
    if qpaths and len(qpaths) == 1 and qpaths[0][1].unknown is None and qpaths[0][1].returned is not None:
        rt = term_of(query, qpaths[0][1].returned, {qx: ('role', 'x')}, inline=False)
    else:
        rt = term_of(query, rets[0].value, {qx: ('role', 'x')})
    Q = lambda s: expected_term(m, s, {'x': ('role', 'x')})
    forms = []
    for cellsrc in (f'self.M[i][{hname}(x, self.hash_seeds[i], self.width)]', f'self.M[i, {hname}(x, self.hash_seeds[i], self.width)]'):
        forms += [Q(f'min({cellsrc} for i in range(self.depth))'), Q(f'min([{cellsrc} for i in range(self.depth)])'), Q(f'numpy.min([{cellsrc} for i in range(self.depth)])')]
    forms += [Q(f'numpy.min(self.M[numpy.arange(self.depth), [{hname}(x, s, self.width) for s in self.hash_seeds]])'), Q(f'self.M[numpy.arange(self.depth), [{hname}(x, s, self.width) for s in self.hash_seeds]].min()'),
              Q(f'min(self.M[i][{hname}(x, s, self.width)] for i, s in enumerate(self.hash_seeds))'), Q(f'min([self.M[i][{hname}(x, s, self.width)] for i, s in enumerate(self.hash_seeds)])'),
              Q(f'min(self.M[i][{hname}(x, s, self.width)] for i, s in enumerate(self.hash_seeds[:self.depth]))'), Q(f'min([self.M[i][{hname}(x, s, self.width)] for i, s in enumerate(self.hash_seeds[:self.depth])])')]
    for cell in ('self.M[r][c]', 'self.M[r, c]'):
        for cols in (f'[{hname}(x, s, self.width) for s in self.hash_seeds]', f'[{hname}(x, self.hash_seeds[i], self.width) for i in range(self.depth)]'):
            forms += [Q(f'min({cell} for r, c in enumerate({cols}))'), Q(f'min([{cell} for r, c in enumerate({cols})])'), Q(f'numpy.min([{cell} for r, c in enumerate({cols})])')]
    if rt in forms:
        chk.ok('C15.3', 'R15', query.site(rets[0]), ast.unparse(rets[0]), 'estimate = min over all rows of the cell addressed exactly as in the update (same hash, seed, width)')
    else:
        why = 'query must be min over range(self.depth) of self.M[i][cms_hash(x, self.hash_seeds[i], self.width)]'
        txt = show(rt)
        if "'name', 'max'" in repr(rt) or 'numpy.max' in txt or 'mean' in txt or 'median' in txt or 'sum(' in txt:
            why = 'the estimate is not the row-wise minimum: it can exceed the true weight bound or fall below it - ' + why
        from ..terms import walk_term
        uses_hash = any(isinstance(x, tuple) and len(x) >= 2 and x[0] == 'call' and isinstance(x[1], tuple) and str(x[1][-1]).split('.')[-1] == str(hname).split('.')[-1] for x in walk_term(rt))
        # ... or through whatever package function the update itself addresses its cells with (a shared locations helper)
        upd_funcs = {m.dotted(c.func) for c in calls(add_s) if (m.dotted(c.func) or '').startswith('outrank.')}
        qry_funcs = {str(x[1][1]) for x in walk_term(rt) if isinstance(x, tuple) and len(x) >= 2 and x[0] == 'call' and isinstance(x[1], tuple) and x[1][0] == 'lib' and str(x[1][1]).startswith('outrank.')}
        if not uses_hash and (upd_funcs & qry_funcs):
            chk.unsure('C15.3', 'R15', query.site(rets[0]), ast.unparse(rets[0]), f'update and query both address their cells through {sorted(upd_funcs & qry_funcs)[0].split(".")[-1]}, which this rule does not analyse: '
                       'whether the query reads, in every row, exactly the cell the update writes is not decided')
        elif not uses_hash:
            # the update addresses its cells with the module's hash function; a query that computes the columns in another way (a vectorised
            # re-implementation, other arithmetic) reads cells the update may not have written
            chk.bad('C15.3', 'R15', query.site(rets[0]), ast.unparse(rets[0]), f'the query does not address its cells through {hname}, the function the update uses: a re-implementation of the hash (different integer width, '
                    f'wrap-around, operator order) can point at other cells, so the estimate can fall below the true weight - ' + why + f'; found {txt[:160]}')
        else:
            chk.expect_term(rt, forms, 'C15.3', 'R15', query.site(rets[0]), ast.unparse(rets[0]), '', why + f'; found {txt[:200]}')

    # hash function: (uint32(hash(x)) + seed) % width
    hp = hashf.params
    hr = [n for n in own_nodes(hashf.node) if isinstance(n, ast.Return)]
    if len(hr) == 1:
        ht = term_of(hashf, hr[0].value, {hp[0]: ('role', 'x'), hp[1]: ('role', 'seed'), hp[2]: ('role', 'width')})
        modw = ht[0] == '%' and ht[2] == ('role', 'width')
        uses = {'x': False, 'seed': False}
        from ..terms import walk_term
        for sub in walk_term(ht[1] if modw else ht):
            if sub == ('role', 'x'):
                uses['x'] = True
            if sub == ('role', 'seed'):
                uses['seed'] = True
        chk.expect(modw and all(uses.values()), 'C15.1c', 'intervals', hashf.site(hr[0]), ast.unparse(hr[0]), 'cell index is f(x, seed) % width, in [0, width)',
                   'the hash must be (a function of x and the row seed) % width: otherwise the index leaves [0, width) (kernel has no bounds check) or rows are not independent')
    else:
        chk.unsure('C15.1c', 'intervals', hashf.site(), 'cms_hash', 'expected a single return')

    # matrix: zero-initialised, written only in _add
    z = [n for n in own_nodes(init.node) if isinstance(n, ast.Assign) and any(isinstance(t, ast.Attribute) and t.attr == 'M' for t in n.targets)]
    zok = False
    zsrc = [n.value for n in z]
    # self.M = M  with  `if M is None: M = np.zeros(..)` before: the allocation is what the name was bound to
    for n in z:
        if isinstance(n.value, ast.Name):
            zsrc += [a.value for a in own_nodes(init.node) if isinstance(a, ast.Assign) and any(isinstance(t, ast.Name) and t.id == n.value.id for t in a.targets)]
    for v_ in zsrc:
        for c in ast.walk(v_):
            if isinstance(c, ast.Call) and m.dotted(c.func) == 'numpy.zeros':
                a0 = c.args[0] if c.args else None
                if isinstance(a0, ast.Tuple) and [ast.unparse(e) for e in a0.elts] == ['depth', 'width']:
                    zok = True
                dtk = next((k.value for k in c.keywords if k.arg == 'dtype'), None)
                if dtk is not None and ast.unparse(dtk).split('.')[-1].strip("'\"") in ('uint16', 'int16', 'uint8', 'int8', 'float16', 'float32', 'half', 'short', 'byte'):
                    chk.bad('C15.2f', 'R8', init.site(c), ast.unparse(c)[:100], f'the count matrix is allocated as {ast.unparse(dtk)}: a cell whose accumulated weight exceeds the range of that type wraps around, so the '
                            'estimate of a heavy item falls below its true weight and the row sums no longer equal the total')
    chk.expect(zok, 'C15.2d', 'R8', init.site(), ast.unparse(z[0]) if z else 'self.M = ...', 'matrix starts as zeros((depth, width))', 'the count matrix must start as np.zeros((depth, width))')
    writers = set()
    for f in m.funcs.values():
        if f.module.main_block is not None and any(x is f.node for x in ast.walk(f.module.main_block)):
            continue
        for n in own_nodes(f.node):
            tg = None
            if isinstance(n, ast.AugAssign):
                tg = n.target
            elif isinstance(n, ast.Assign):
                tg = n.targets[0]
            if isinstance(tg, ast.Subscript):
                base = tg.value
                while isinstance(base, ast.Subscript):
                    base = base.value
                if (isinstance(base, ast.Attribute) and base.attr == 'M') or (isinstance(base, ast.Name) and base.id == p[0] and f is add_s):
                    writers.add(f.qualname)
    chk.expect(writers == {'CountMinSketch._add'}, 'C15.2e', 'R2', m.relpath, f'writers of the count matrix: {sorted(writers)}', 'only _add writes cells of the matrix',
               f'cells of the count matrix are written outside _add: {sorted(writers - {"CountMinSketch._add"})}')


def counter(repo, chk):
    m = repo.mod(CNT)
    cls = 'PrimitiveConstrainedCounter'
    init = repo.func(CNT, f'{cls}.__init__')
    add = repo.func(CNT, f'{cls}.add')
    val = [q for q in add.params if q != 'self'][0]
    bparam = [q for q in init.params if q != 'self'][0]
    # attribute that holds the bound
    battr = None
    for n in init.node.body:
        if isinstance(n, ast.Assign) and isinstance(n.targets[0], ast.Attribute) and isinstance(n.value, ast.Name) and n.value.id == bparam:
            battr = n.targets[0].attr
    if battr is None:
        chk.bad('C15.4a', 'R8', init.site(), 'self.<bound> = bound', 'the constructor does not store its bound parameter unmodified')
        return
    chk.ok('C15.4a', 'R8', init.site(), f'self.{battr} = {bparam}', 'bound stored unmodified')
    vdefs = Scope(add).defs.get(val, [])
    chk.expect(len(vdefs) == 1, 'C15.4e', 'origin', add.site(), f'parameter {val} of add()', 'the counted key is the value passed in, unmodified',
               f'the parameter {val} is re-bound inside add() before it is counted: distinct items are merged onto one key (over-count) or counted under a key that never occurred')
    cfg = CFG(add.node)
    muts = []
    for n in own_nodes(add.node):
        if isinstance(n, (ast.AugAssign, ast.Assign)):
            tg = n.target if isinstance(n, ast.AugAssign) else n.targets[0]
            base = tg.value if isinstance(tg, ast.Subscript) else tg
            if isinstance(base, ast.Attribute) and base.attr == 'default_counter':
                muts.append(n)
        if isinstance(n, ast.Expr) and isinstance(n.value, ast.Call) and isinstance(n.value.func, ast.Attribute) and n.value.func.attr in ('update', 'subtract', 'setdefault', 'pop', 'clear') \
                and isinstance(n.value.func.value, ast.Attribute) and n.value.func.value.attr == 'default_counter':
            muts.append(n)
    if not muts:
        chk.bad('C15.4b', 'R3', add.site(), 'self.default_counter[val] += 1', 'add() no longer counts the value')
        return
    E = lambda s: expected_term(m, s)
    guard_forms = [E(f'len(self.default_counter) < self.{battr}')]
    for mu in muts:
        node = cfg.node_of(mu)
        ok_guard = False
        seen = []
        for g in cfg.nodes:
            if g.kind == 'branch' and g.test is not None and cfg.dominates(g.id, node.id):
                t = term_of(add, g.test)
                seen.append(show(t))
                if g.polarity and t in guard_forms:
                    ok_guard = True
                if g.polarity is False and t[0] == 'cmp' and t[1] == '<=' and ('cmp', '<', t[3], t[2]) in guard_forms:
                    ok_guard = True
                # key already tracked: counting an existing key cannot add a key
                if g.polarity and t == E(f'{val} in self.default_counter'):
                    ok_guard = True
        chk.expect(ok_guard, 'C15.4b', 'R3', add.site(mu), ast.unparse(mu), 'mutation dominated by len(counter) < bound (strict)',
                   f'every mutation of the counter must be dominated by `len(self.default_counter) < self.{battr}` (strict): otherwise more than bound distinct values are tracked; guards found: {seen or "none"}')
        inc_ok = isinstance(mu, ast.AugAssign) and isinstance(mu.op, ast.Add) and isinstance(mu.value, ast.Constant) and mu.value.value == 1 and isinstance(mu.target, ast.Subscript) \
            and isinstance(mu.target.slice, ast.Name) and mu.target.slice.id == val
        if isinstance(mu, ast.Expr) and mu.value.func.attr == 'update' and len(mu.value.args) == 1 and not mu.value.keywords:
            a0 = mu.value.args[0]
            # Counter.update(iterable) counts each element once: a one-element tuple / list of the value adds exactly 1 at that key
            inc_ok = isinstance(a0, (ast.Tuple, ast.List)) and len(a0.elts) == 1 and isinstance(a0.elts[0], ast.Name) and a0.elts[0].id == val
            inc_ok = inc_ok or (isinstance(a0, ast.Dict) and len(a0.keys) == 1 and isinstance(a0.keys[0], ast.Name) and a0.keys[0].id == val and isinstance(a0.values[0], ast.Constant) and a0.values[0].value == 1)
        chk.expect(inc_ok, 'C15.4c', 'R13', add.site(mu), ast.unparse(mu), 'the key val is incremented by exactly 1', 'the counter must be incremented by exactly 1 at key val (never over-counts, exact below the bound)')
    # writers of default_counter in the module
    writers = set()
    for f in m.funcs.values():
        for n in own_nodes(f.node):
            tg = None
            if isinstance(n, ast.AugAssign):
                tg = n.target
            elif isinstance(n, (ast.Assign, ast.AnnAssign)):
                tg = n.targets[0] if isinstance(n, ast.Assign) else n.target
            if isinstance(n, ast.Call) and isinstance(n.func, ast.Attribute) and n.func.attr in ('update', 'subtract', 'setdefault', 'pop', 'clear', 'popitem') and isinstance(n.func.value, ast.Attribute) and n.func.value.attr == 'default_counter':
                writers.add(f.qualname)
            if tg is None:
                continue
            base = tg.value if isinstance(tg, ast.Subscript) else tg
            if isinstance(base, ast.Attribute) and base.attr == 'default_counter':
                writers.add(f.qualname)
    # callers in the package feed the counter item by item (the statement's premise): no batch_add on the per-column counters
    nb = 0
    for mod in repo.modules.values():
        for f in mod.funcs.values():
            for c in calls(f, attr='batch_add'):
                if 'COUNTS' in ast.unparse(c.func.value) or 'counter' in ast.unparse(c.func.value).lower():
                    nb += 1
                    chk.bad('C15.4f', 'R6', f.site(c), ast.unparse(c)[:100], 'the bounded counter is fed a whole batch at once: batch_add tests the bound once per batch, so more than bound distinct values are tracked (and the count depends on the batch split); it must be fed item by item with add()')
    if nb == 0:
        chk.ok('C15.4f', 'R6', 'outrank', 'no batch_add call on the per-column bounded counters', 'the bounded counters are fed item by item')
    # the counters the pipeline creates carry the CONFIGURED bound: a construction that passes no bound silently takes the class default
    from .common import param_deps
    n_ctor = 0
    for mod in repo.modules.values():
        if mod.name.endswith('counting_counters_ordinary'):
            continue
        for f in mod.funcs.values():
            for c in calls(f):
                d = mod.dotted(c.func) or ''
                if d.split('.')[-1] != cls or not d.startswith('outrank.'):
                    continue
                n_ctor += 1
                bound_arg = c.args[0] if c.args else next((k.value for k in c.keywords if k.arg == 'bound'), None)
                cfg = [q for q in f.params if 'constraint' in q or 'bound' in q or q == 'args']
                if bound_arg is None and cfg:
                    chk.bad('C15.4g', 'R6', f.site(c), ast.unparse(c)[:100], f'{f.name} receives the configured bound (`{cfg[0]}`) but builds the counter without it: the class default applies, so the counter tracks more (or fewer) '
                            'distinct values than the configured bound')
                elif bound_arg is not None and cfg and not (param_deps(f, bound_arg) & set(cfg)) and not isinstance(bound_arg, ast.Constant):
                    chk.unsure('C15.4g', 'R6', f.site(c), ast.unparse(c)[:100], 'the bound handed to the counter is not visibly the configured one')
    if n_ctor and not any(o.oid == 'C15.4g' for o in chk.obs):
        chk.ok('C15.4g', 'R6', 'outrank', f'{n_ctor} construction(s) of {cls} in the pipeline', 'every counter the pipeline creates is given the configured bound')
    allowed = {f'{cls}.__init__', f'{cls}.add', f'{cls}.batch_add'}
    chk.expect(writers <= allowed and f'{cls}.add' in writers, 'C15.4d', 'R2', m.relpath, f'writers of default_counter: {sorted(writers)}', 'counter written only by __init__, add, batch_add',
               f'default_counter is written by {sorted(writers - allowed)} outside the allowed writers')
