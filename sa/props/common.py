"""Obligations shared between properties."""
from __future__ import annotations

import ast

from ..cfg import CFG
from ..match import calls, term_of
from ..model import own_nodes, parents
from ..terms import show

CR = 'outrank.core_ranking'


def streaming_loop(repo):
    """The function and the `for line in <stream>` loop that calls generic_line_parser."""
    fn = repo.func(CR, 'estimate_importances_minibatches')
    for n in own_nodes(fn.node):
        if isinstance(n, ast.For):
            cs = [c for c in ast.walk(n) if isinstance(c, ast.Call) and fn.module.dotted(c.func) == 'outrank.core_utils.generic_line_parser']
            if cs:
                return fn, n, cs[0]
    from ..model import AnalysisError
    raise AnalysisError('streaming loop (for line in stream: ... generic_line_parser(...)) not found in estimate_importances_minibatches')


def field_count_gate(repo, chk, oid):
    """A parsed row is appended to the batch buffer iff len(row) == len(column_descriptions); otherwise it is counted invalid.
    Decided on the path model of one loop iteration (StreamModel).  Returns the set of buffer names."""
    from ..terms import walk_term
    S = stream_model(repo)
    fn, loop, pcall = S.fn, S.loop, S.pcall
    header = S.header
    if S.paths is None:
        chk.unsure(oid, 'R3', fn.site(loop), 'streaming loop', 'too many tests in the loop body to evaluate one iteration path by path')
        return None
    # roles of the parser call
    pa = [ast.unparse(a) for a in pcall.args] + [f'{k.arg}={ast.unparse(k.value)}' for k in pcall.keywords]
    target = repo.func(CU_MOD, 'generic_line_parser')
    from ..match import bind_args
    ba = bind_args(pcall, target)
    tp = target.params
    ok_roles = len(tp) >= 5 and isinstance(ba.get(tp[0]), ast.Name) and ba[tp[0]].id == S.line and all(isinstance(ba.get(tp[i]), ast.Name) and ba[tp[i]].id in fn.params for i in (1, 2, 3, 4)) \
        and 'map' in ba[tp[3]].id and ba[tp[4]].id == header
    chk.expect(ok_roles, oid + 'p', 'R6', fn.site(pcall), ast.unparse(pcall)[:120], 'the parser receives (line, delimiter, args, namespace map, header) in their roles',
               'generic_line_parser must be called with the current line first, then the delimiter, args, the namespace map and the header')
    buffers = set()
    extra_skip = None
    gate_bad, gate_ok, unsure = [], 0, []
    inv_bad = None
    touched = None
    for p in S.paths:
        res = p.res
        if res.unknown is not None:
            unsure.append((res.unknown, 'statement outside the path vocabulary'))
            continue
        decisions = []
        for t, truth, node in p.tests:
            sd = S.subsampling_decision(t, truth)
            fd = S.field_count_decision(t, truth)
            decisions.append(('sub', sd[0]) if sd else (('fc', fd) if fd is not None else ('other', (t, truth, node))))
        reached = p.mentions(S.parse)
        others_before = []
        for d in decisions:
            if d[0] == 'fc':
                break
            if d[0] == 'other':
                others_before.append(d[1])
        fc = [d[1] for d in decisions if d[0] == 'fc']
        # the row as the parser returned it: tests / calls that look at a modified row
        for t, c in p.calls:
            if c['call'].func.attr in ('append', 'extend', 'insert', 'appendleft') if isinstance(c['call'].func, ast.Attribute) else False:
                a0 = t[2][0] if len(t) > 2 and t[2] else None
                if a0 is not None and a0 != S.parse and any(x == S.parse for x in walk_term(a0)) and not (a0[0] == 'call' and a0[1] in (('name', 'str'), ('name', 'repr'))):
                    touched = touched or c['node']
        for t, truth, node in p.tests:
            ln_mod = [x for x in walk_term(t) if isinstance(x, tuple) and x[:2] == ('call', ('name', 'len')) and x[2] and x[2][0] != S.parse and any(y == S.parse for y in walk_term(x[2][0]))]
            if ln_mod:
                touched = touched or node
        if not fc:
            # a path on which the field count is never tested
            if res.ended in ('continue', 'break') and not reached:
                subs = [d for d in decisions if d[0] == 'sub']
                if others_before or not (subs and subs[-1][1] == 'skip'):
                    extra_skip = extra_skip or (others_before[0][2] if others_before else loop)
                continue
            if res.ended in ('continue', 'break'):
                extra_skip = extra_skip or (others_before[0][2] if others_before else loop)
                continue
            appended = [c for t, c in p.calls if isinstance(c['call'].func, ast.Attribute) and c['call'].func.attr in ('append', 'extend', 'insert') and t[2] and t[2][0] == S.parse]
            if appended:
                gate_bad.append((appended[0]['node'], [ast.unparse(n)[:60] for _, _, n in p.tests]))
            continue
        if others_before and res.ended in ('continue', 'break') and not any(d[0] == 'fc' for d in decisions):
            extra_skip = extra_skip or others_before[0][2]
        valid = fc[0]
        appended = [c for t, c in p.calls if isinstance(c['call'].func, ast.Attribute) and c['call'].func.attr in ('append', 'extend', 'insert') and t[2] and t[2][0] == S.parse and isinstance(c['call'].func.value, ast.Name)]
        if valid:
            if len(appended) == 1:
                buffers.add(appended[0]['call'].func.value.id)
                gate_ok += 1
            elif not appended and res.ended not in ('continue', 'break'):
                unsure.append((p.tests[-1][2] if p.tests else loop, 'a well-formed row is not appended to a buffer on this path'))
            elif not appended:
                extra_skip = extra_skip or p.tests[-1][2]
        else:
            if appended:
                gate_bad.append((appended[0]['node'], [ast.unparse(n)[:60] for _, _, n in p.tests]))
            # counted as invalid: some plain counter is raised by exactly 1
            incs = [k for k, v in (res.env or {}).items() if v is not None and isinstance(v, ast.BinOp) and isinstance(v.op, ast.Add) and isinstance(v.left, ast.Name) and v.left.id == k and isinstance(v.right, ast.Constant) and v.right.value == 1
                    and not any(S.subsampling_decision(t, tr) and any(x == ('name', k) for x in walk_term(t)) for t, tr, _ in p.tests)]
            if not incs:
                inv_bad = inv_bad or (p.tests[-1][2] if p.tests else loop)
    chk.expect(extra_skip is None, oid + 's', 'R1', fn.site(extra_skip) if extra_skip is not None else fn.site(loop), f'{len(S.paths)} paths through one iteration', 'every selected line reaches the parser and the field-count test',
               'the streaming loop skips lines (continue/break) other than by the subsampling rule, e.g. a pre-check on the raw line: well-formed rows (such as CSV rows with quoted delimiters) never reach the parser and are dropped')
    chk.expect(touched is None, oid + 'r', 'origin', fn.site(touched) if touched is not None else fn.site(pcall), ast.unparse(touched)[:120] if touched is not None else 'row = generic_line_parser(...)',
               'the row is used exactly as the parser returned it (no padding, truncation or re-binding before the field-count test)',
               'the parsed row is modified (padded / truncated / re-bound) between the parser and the field-count test: a line with the wrong number of fields is accepted with shifted columns instead of being rejected as a whole')
    for node, why in unsure[:2]:
        chk.unsure(oid, 'R3', fn.site(node), ast.unparse(node)[:80] if isinstance(node, ast.AST) else 'streaming loop', why)
    for node, tests in gate_bad[:2]:
        chk.bad(oid, 'R3', fn.site(node), ast.unparse(node)[:100], f'a parsed row must be appended only when len(row) == len(column_descriptions); tests decided on this path: {tests or "none"} - a row with the wrong field count would be shifted into other columns')
    if not gate_bad and gate_ok:
        chk.ok(oid, 'R3', fn.site(pcall), f'{gate_ok} path(s) append the row, all under len(row) == len({header})', 'row enters the batch only under len(row) == len(header)')
    elif not gate_bad and not unsure:
        chk.bad(oid, 'R3', fn.site(loop), 'row appended to the batch buffer', 'parsed rows never reach the batch buffer')
    chk.expect(inv_bad is None, oid + 'c', 'R13', fn.site(inv_bad) if inv_bad is not None else fn.site(loop), 'invalid_lines += 1 on the rejecting path', 'rows with a wrong field count are counted', 'a row with a wrong field count must be counted as invalid (and skipped)')
    return buffers


# ---------------------------------------------------------------------------
# pair enumeration of get_combinations_from_columns (shared by C06 and C07)
# ---------------------------------------------------------------------------

class Contribution:
    def __init__(self, kind, colset=None, r=None, flt=None, text='', node=None):
        self.kind, self.colset, self.r, self.flt, self.text, self.node = kind, colset, r, flt, text, node

    def __repr__(self):
        parts = [self.kind]
        if self.colset is not None:
            parts.append(f'over {self.colset}')
        if self.r is not None:
            parts.append(f'r={self.r}')
        if self.flt:
            parts.append(f'filter {self.flt}')
        return ' '.join(parts)


class EnumAnalysis:
    """Symbolic walk of the enumeration function: per path, the list of contributions to the returned list."""

    def __init__(self, repo, fn):
        self.repo, self.fn, self.m = repo, fn, fn.module
        self.cols = fn.params[0]
        self.args = fn.params[1]
        self.paths = []     # (conds, contributions, return node)
        self.problems = []
        import copy
        self._walk(_append_loops_to_comprehensions(copy.deepcopy(fn.node.body)), {}, [], )

    # ---- column sets -------------------------------------------------------
    def colset(self, e, env):
        if isinstance(e, ast.Name):
            if e.id == self.cols:
                return 'ALL'
            if e.id in env and env[e.id][0] == 'set':
                return env[e.id][1]
            return None
        if isinstance(e, ast.Call) and isinstance(e.func, ast.Name) and e.func.id in ('sorted', 'list', 'tuple') and len(e.args) == 1:
            return self.colset(e.args[0], env)
        if isinstance(e, ast.BinOp) and isinstance(e.op, ast.Sub):
            l, r = self._unset(e.left, env), self._unset(e.right, env)
            if l == 'ALL' and r == 'REL':
                return 'NONREL'
            if l == 'ALL' and isinstance(r, str) and r.startswith('REL~'):
                return 'NONREL' + r[3:]
            return None
        if isinstance(e, ast.Call) and isinstance(e.func, ast.Attribute) and e.func.attr == 'difference' and len(e.args) == 1 and not e.keywords:
            l, r = self._unset(e.func.value, env), self._unset(e.args[0], env)
            if l == 'ALL' and r == 'REL':
                return 'NONREL'
            if l == 'ALL' and isinstance(r, str) and r.startswith('REL~'):
                return 'NONREL' + r[3:]
            return None
        if isinstance(e, ast.ListComp) and len(e.generators) == 1 and isinstance(e.elt, ast.Name) and isinstance(e.generators[0].target, ast.Name) and e.elt.id == e.generators[0].target.id:
            g = e.generators[0]
            base = self.colset(g.iter, env)
            if base == 'ALL' and len(g.ifs) == 1:
                t = g.ifs[0]
                neg = False
                if isinstance(t, ast.UnaryOp) and isinstance(t.op, ast.Not):
                    t, neg = t.operand, True
                # a one-line predicate of the module applied to the element: its returned test with the element substituted
                if isinstance(t, ast.Call) and isinstance(t.func, ast.Name) and t.func.id in self.m.funcs and len(t.args) == 1 and not t.keywords and isinstance(t.args[0], ast.Name) and t.args[0].id == g.target.id:
                    pf = self.m.funcs[t.func.id]
                    body = [b for b in pf.node.body if not (isinstance(b, ast.Expr) and isinstance(b.value, ast.Constant))]
                    if len(body) == 1 and isinstance(body[0], ast.Return) and body[0].value is not None and len(pf.params) == 1:
                        import copy
                        from ..terms import _NameSubst
                        t = _NameSubst({pf.params[0]: ast.Name(g.target.id, ast.Load())}).visit(copy.deepcopy(body[0].value))
                if isinstance(t, ast.Compare) and len(t.ops) == 1 and isinstance(self._const_str(t.left), str) and isinstance(t.comparators[0], ast.Name) and t.comparators[0].id == g.target.id:
                    kind = 'REL' if isinstance(t.ops[0], ast.In) else ('NONREL' if isinstance(t.ops[0], ast.NotIn) else None)
                    if kind and neg:
                        kind = {'REL': 'NONREL', 'NONREL': 'REL'}[kind]
                    if kind and self._const_str(t.left) != ' AND_REL ':
                        # a resolved, but different, marker: the set of columns containing that other substring
                        kind = f'{kind}~{self._const_str(t.left)!r}'
                    return kind
            if base is not None and not g.ifs:
                return base
        return None

    def _const_str(self, e):
        if isinstance(e, ast.Constant):
            return e.value
        if isinstance(e, ast.Name):
            vs = self.m.assigns.get(e.id, [])
            if len(vs) == 1 and isinstance(vs[0], ast.Constant) and not self.m.rebinds_global(e.id):
                return vs[0].value
        return None

    def _unset(self, e, env):
        if isinstance(e, ast.Call) and isinstance(e.func, ast.Name) and e.func.id == 'set' and len(e.args) == 1:
            return self.colset(e.args[0], env)
        return self.colset(e, env)

    # ---- contributions -----------------------------------------------------
    def _is_label(self, e):
        if isinstance(e, ast.Name) and e.id in getattr(self, 'label_names', ()):
            return True
        return isinstance(e, ast.Attribute) and e.attr == 'label_column' and isinstance(e.value, ast.Name) and e.value.id == self.args

    def contributions(self, e, env):
        """classify a list-valued expression"""
        # filter(lambda v: COND, ITER)  is  [v for v in ITER if COND]
        if isinstance(e, ast.Call) and isinstance(e.func, ast.Name) and e.func.id == 'filter' and len(e.args) == 2 and isinstance(e.args[0], ast.Lambda) and len(e.args[0].args.args) == 1 and not e.keywords:
            v = e.args[0].args.args[0].arg
            lc = ast.ListComp(elt=ast.Name(v, ast.Load()), generators=[ast.comprehension(target=ast.Name(v, ast.Store()), iter=e.args[1], ifs=[e.args[0].body], is_async=0)])
            ast.copy_location(lc, e)
            ast.fix_missing_locations(lc)
            return self.contributions(lc, env)
        # itertools.product(S, [x])  is  [(s, x) for s in S]   (and product([x], S) the mirrored pairs)
        if isinstance(e, ast.Call) and self.m.dotted(e.func) == 'itertools.product' and len(e.args) == 2 and not e.keywords and \
                any(isinstance(a, (ast.List, ast.Tuple)) and len(a.elts) == 1 for a in e.args) and not all(isinstance(a, (ast.List, ast.Tuple)) for a in e.args):
            one_first = isinstance(e.args[0], (ast.List, ast.Tuple)) and len(e.args[0].elts) == 1
            S_, one = (e.args[1], e.args[0].elts[0]) if one_first else (e.args[0], e.args[1].elts[0])
            var = ast.Name('__p', ast.Load())
            pair = ast.Tuple(elts=[one, var] if one_first else [var, one], ctx=ast.Load())
            lc = ast.ListComp(elt=pair, generators=[ast.comprehension(target=ast.Name('__p', ast.Store()), iter=S_, ifs=[], is_async=0)])
            ast.copy_location(lc, e)
            ast.fix_missing_locations(lc)
            return self.contributions(lc, env)
        if isinstance(e, ast.GeneratorExp):
            # a generator handed to extend / list(): the elements it yields are those of the comprehension
            lc = ast.copy_location(ast.ListComp(elt=e.elt, generators=e.generators), e)
            return self.contributions(lc, env)
        if isinstance(e, ast.Name) and e.id in env:
            k = env[e.id]
            if k[0] == 'list':
                return list(k[1])
            if k[0] == 'iter':
                return [k[1]]
        if isinstance(e, ast.Call) and isinstance(e.func, ast.Name) and e.func.id in ('list', 'tuple') and len(e.args) == 1:
            return self.contributions(e.args[0], env)
        if isinstance(e, ast.BinOp) and isinstance(e.op, ast.Add):
            return self.contributions(e.left, env) + self.contributions(e.right, env)
        if isinstance(e, (ast.List, ast.Tuple)) and not e.elts:
            return []
        if isinstance(e, ast.Call):
            d = self.m.dotted(e.func)
            if d in ('itertools.combinations_with_replacement', 'itertools.combinations', 'itertools.product', 'itertools.permutations') and e.args:
                cs = self.colset(e.args[0], env)
                r = None
                if len(e.args) > 1:
                    try:
                        from ..model import const_value
                        r = const_value(e.args[1])
                    except ValueError:
                        r = ast.unparse(e.args[1])
                for k in e.keywords:
                    if k.arg in ('r', 'repeat'):
                        r = ast.unparse(k.value)
                kind = {'itertools.combinations_with_replacement': 'cwr', 'itertools.combinations': 'comb', 'itertools.product': 'product', 'itertools.permutations': 'perm'}[d]
                return [Contribution(kind, cs or f'?{ast.unparse(e.args[0])}', r, None, ast.unparse(e), e)]
        # the upper triangle written out: [(a, b) for i, a in enumerate(L) for b in L[i:]]  (L[i + 1:] leaves out the diagonal)
        if isinstance(e, ast.ListComp) and len(e.generators) == 2 and isinstance(e.elt, ast.Tuple) and len(e.elt.elts) == 2 and not e.generators[0].ifs and not e.generators[1].ifs:
            g0, g1 = e.generators
            if (isinstance(g0.iter, ast.Call) and isinstance(g0.iter.func, ast.Name) and g0.iter.func.id == 'enumerate' and len(g0.iter.args) == 1 and not g0.iter.keywords and isinstance(g0.target, ast.Tuple)
                    and len(g0.target.elts) == 2 and all(isinstance(x, ast.Name) for x in g0.target.elts) and isinstance(g1.target, ast.Name) and isinstance(g1.iter, ast.Subscript) and isinstance(g1.iter.slice, ast.Slice)
                    and g1.iter.slice.upper is None and g1.iter.slice.step is None and ast.unparse(g1.iter.value) == ast.unparse(g0.iter.args[0])
                    and [x.id if isinstance(x, ast.Name) else None for x in e.elt.elts] == [g0.target.elts[1].id, g1.target.id]):
                i_ = g0.target.elts[0].id
                lo = g1.iter.slice.lower
                kind = None
                if isinstance(lo, ast.Name) and lo.id == i_:
                    kind = 'cwr'
                elif isinstance(lo, ast.BinOp) and isinstance(lo.op, ast.Add) and {ast.unparse(lo.left), ast.unparse(lo.right)} == {i_, '1'}:
                    kind = 'comb'
                base = g0.iter.args[0]
                cs = self.colset(base, env)
                if kind and cs is not None:
                    return [Contribution(kind, cs, 2, None, ast.unparse(e), e)]
        if isinstance(e, ast.ListComp) and len(e.generators) == 1:
            g = e.generators[0]
            # the same with the pair unpacked: [(a, b) for a, b in ENUM if a == label or b == label]
            if isinstance(e.elt, ast.Tuple) and isinstance(g.target, ast.Tuple) and len(e.elt.elts) == 2 and len(g.target.elts) == 2 and all(isinstance(x, ast.Name) for x in list(e.elt.elts) + list(g.target.elts)) \
                    and [x.id for x in e.elt.elts] == [x.id for x in g.target.elts]:
                inner = self.contributions(g.iter, env)
                if len(inner) == 1 and inner[0].kind != 'unknown':
                    flt = None
                    if g.ifs:
                        tv = tuple(x.id for x in g.target.elts)
                        flt = 'label-in-pair' if len(g.ifs) == 1 and self._is_label_in(g.ifs[0], tv) else 'other:' + ' and '.join(ast.unparse(i) for i in g.ifs)
                    c = inner[0]
                    return [Contribution(c.kind, c.colset, c.r, flt, ast.unparse(e), e)]
            # filter of an enumerator: [x for x in ENUM if <label in x>]
            if isinstance(e.elt, ast.Name) and isinstance(g.target, ast.Name) and e.elt.id == g.target.id:
                inner = self.contributions(g.iter, env)
                if len(inner) == 1 and inner[0].kind != 'unknown':
                    flt = None
                    if g.ifs:
                        if len(g.ifs) == 1 and self._is_label_in(g.ifs[0], g.target.id):
                            flt = 'label-in-pair'
                        else:
                            flt = 'other:' + ' and '.join(ast.unparse(i) for i in g.ifs)
                    c = inner[0]
                    return [Contribution(c.kind, c.colset, c.r, flt, ast.unparse(e), e)]
            # pairs built from a column loop
            if isinstance(e.elt, ast.Tuple) and len(e.elt.elts) == 2 and isinstance(g.target, ast.Name):
                a, b = e.elt.elts
                cs = self.colset(g.iter, env) or f'?{ast.unparse(g.iter)}'
                v = g.target.id
                flt = ' and '.join(ast.unparse(i) for i in g.ifs) or None
                if isinstance(a, ast.Name) and a.id == v and isinstance(b, ast.Name) and b.id == v:
                    return [Contribution('diag', cs, 2, flt, ast.unparse(e), e)]
                if isinstance(a, ast.Name) and a.id == v and self._is_label(b):
                    return [Contribution('with-label', cs, 2, flt, ast.unparse(e), e)]
                if isinstance(b, ast.Name) and b.id == v and self._is_label(a):
                    return [Contribution('label-with', cs, 2, flt, ast.unparse(e), e)]
        return [Contribution('unknown', None, None, None, ast.unparse(e)[:120], e)]

    def _is_label_in(self, t, var):
        # the pair may be unpacked: `first == label or second == label` over the two targets is `label in (first, second)`
        if isinstance(var, tuple):
            if isinstance(t, ast.BoolOp) and isinstance(t.op, ast.Or) and len(t.values) == 2:
                hit = set()
                for v in t.values:
                    if isinstance(v, ast.Compare) and len(v.ops) == 1 and isinstance(v.ops[0], ast.Eq):
                        a, b = v.left, v.comparators[0]
                        if self._is_label(b) and isinstance(a, ast.Name) and a.id in var:
                            hit.add(a.id)
                        elif self._is_label(a) and isinstance(b, ast.Name) and b.id in var:
                            hit.add(b.id)
                return hit == set(var)
            if isinstance(t, ast.Compare) and len(t.ops) == 1 and isinstance(t.ops[0], ast.In) and self._is_label(t.left) and isinstance(t.comparators[0], (ast.Tuple, ast.List)):
                return [x.id if isinstance(x, ast.Name) else None for x in t.comparators[0].elts] in (list(var), list(reversed(var)))
            return False
        return (isinstance(t, ast.Compare) and len(t.ops) == 1 and isinstance(t.ops[0], ast.In) and self._is_label(t.left)
                and isinstance(t.comparators[0], ast.Name) and t.comparators[0].id == var)

    # ---- walker ------------------------------------------------------------
    def _walk(self, body, env, conds):
        env = dict(env)
        for i, s in enumerate(body):
            if isinstance(s, ast.Expr) and isinstance(s.value, ast.Constant):
                continue
            if isinstance(s, ast.If):
                rest = body[i + 1:]
                for pol, blk in ((True, s.body), (False, s.orelse)):
                    self._walk(list(blk) + list(rest), env, conds + [(s.test, pol)])
                return
            if isinstance(s, ast.Return):
                cs = self.contributions(s.value, env) if s.value is not None else []
                self.paths.append((conds, cs, s))
                return
            if isinstance(s, ast.Assign) and len(s.targets) == 1 and isinstance(s.targets[0], ast.Name) and self._is_label(s.value):
                if not hasattr(self, 'label_names'):
                    self.label_names = set()
                self.label_names.add(s.targets[0].id)      # a local name for args.label_column
                continue
            if isinstance(s, ast.Assert):
                continue
            if isinstance(s, ast.Assign) and len(s.targets) == 1 and isinstance(s.targets[0], ast.Name):
                name = s.targets[0].id
                if name in getattr(self, 'label_names', ()):
                    self.label_names.discard(name)         # re-bound to something else
                cs = self.colset(s.value, env)
                if cs is not None and not (isinstance(s.value, ast.Call) and self.m.dotted(s.value.func, ) and str(self.m.dotted(s.value.func)).startswith('itertools.')):
                    env[name] = ('set', cs)
                    continue
                cons = self.contributions(s.value, env)
                if len(cons) == 1 and cons[0].kind != 'unknown' and isinstance(s.value, ast.Call) and str(self.m.dotted(s.value.func)).startswith('itertools.'):
                    env[name] = ('iter', cons[0])
                else:
                    env[name] = ('list', cons)
                continue
            if isinstance(s, ast.AugAssign) and isinstance(s.target, ast.Name) and isinstance(s.op, ast.Add) and s.target.id in env and env[s.target.id][0] == 'list':
                env[s.target.id] = ('list', list(env[s.target.id][1]) + self.contributions(s.value, env))
                continue
            if isinstance(s, ast.Expr) and isinstance(s.value, ast.Call) and isinstance(s.value.func, ast.Attribute) and s.value.func.attr in ('extend',) \
                    and isinstance(s.value.func.value, ast.Name) and s.value.func.value.id in env and env[s.value.func.value.id][0] == 'list':
                nm = s.value.func.value.id
                env[nm] = ('list', list(env[nm][1]) + self.contributions(s.value.args[0], env))
                continue
            if isinstance(s, ast.Assign) and isinstance(s.targets[0], ast.Attribute):
                continue   # args.combination_number_upper_bound = MAX_FEATURES_3MR (cap clamp)
            from ..match import is_noise_stmt
            if is_noise_stmt(s):
                continue
            self.problems.append((s, f'unrecognised statement in the enumeration: {ast.unparse(s)[:100]}'))
        self.paths.append((conds, [], None))


def _append_loops_to_comprehensions(body):
    """`acc = []` ... `for a in A: [for b in B:] [if c:] acc.append(e)`  ->  `acc = [e for a in A for b in B if c]` (or `acc += [...]` when acc is
    not empty any more): the loop form a generator takes when it is materialised.  Applied recursively to nested blocks."""
    def comp_of(loop, acc):
        gens = []
        cur = loop
        while True:
            if isinstance(cur, ast.For) and not cur.orelse and len(cur.body) == 1:
                gens.append(ast.comprehension(target=cur.target, iter=cur.iter, ifs=[], is_async=0))
                cur = cur.body[0]
                continue
            if isinstance(cur, ast.If) and not cur.orelse and len(cur.body) == 1 and gens:
                gens[-1].ifs.append(cur.test)
                cur = cur.body[0]
                continue
            break
        if gens and isinstance(cur, ast.Expr) and isinstance(cur.value, ast.Call) and isinstance(cur.value.func, ast.Attribute) and cur.value.func.attr == 'append' \
                and isinstance(cur.value.func.value, ast.Name) and cur.value.func.value.id == acc and len(cur.value.args) == 1:
            return ast.ListComp(elt=cur.value.args[0], generators=gens)
        return None
    out = []
    empty = set()         # names bound to [] and not yet filled
    for st in body:
        for f_ in ('body', 'orelse'):
            blk = getattr(st, f_, None)
            if isinstance(blk, list) and isinstance(st, (ast.If, ast.With, ast.Try)):
                setattr(st, f_, _append_loops_to_comprehensions(blk))
        if isinstance(st, ast.Assign) and len(st.targets) == 1 and isinstance(st.targets[0], ast.Name) and isinstance(st.value, ast.List) and not st.value.elts:
            empty.add(st.targets[0].id)
            out.append(st)
            continue
        if isinstance(st, ast.For):
            accs = {c.func.value.id for c in ast.walk(st) if isinstance(c, ast.Call) and isinstance(c.func, ast.Attribute) and c.func.attr == 'append' and isinstance(c.func.value, ast.Name)}
            if len(accs) == 1:
                acc = next(iter(accs))
                lc = comp_of(st, acc)
                if lc is not None:
                    if acc in empty:
                        new = ast.Assign(targets=[ast.Name(acc, ast.Store())], value=lc)
                        # the empty binding before it is superseded
                        out = [o for o in out if not (isinstance(o, ast.Assign) and len(o.targets) == 1 and isinstance(o.targets[0], ast.Name) and o.targets[0].id == acc and isinstance(o.value, ast.List) and not o.value.elts)]
                        empty.discard(acc)
                    else:
                        new = ast.AugAssign(target=ast.Name(acc, ast.Store()), op=ast.Add(), value=lc)
                    out.append(ast.fix_missing_locations(ast.copy_location(new, st)))
                    continue
        for x in ast.walk(st):
            if isinstance(x, ast.Name) and x.id in empty and not (isinstance(st, ast.Assign) and st.targets[0] is x):
                empty.discard(x.id)
        out.append(st)
    return out


def enumeration(repo):
    fn = repo.func(CR, 'get_combinations_from_columns')
    return fn, EnumAnalysis(repo, fn)


def path_mode(fn, conds):
    """classify a path of the enumeration by its branch conditions: ('3mr'|'plain', 'target-only'|'pairwise'|None)"""
    mode3 = None
    target = None
    for test, pol in conds:
        txt = ast.unparse(test)
        if "'3mr' in" in txt:
            mode3 = pol
        elif 'target_ranking_only' in txt and "'True'" in txt:
            if isinstance(test, ast.Compare) and isinstance(test.ops[0], ast.Eq):
                target = pol
            elif isinstance(test, ast.Compare) and isinstance(test.ops[0], ast.NotEq):
                target = not pol
    return ('3mr' if mode3 else 'plain' if mode3 is False else None, 'target-only' if target else 'pairwise' if target is False else None)


# ---------------------------------------------------------------------------------------------
# model of mixed_rank_graph: what is returned, per configuration path, written over the parameters
# ---------------------------------------------------------------------------------------------
IE_MOD = 'outrank.algorithms.importance_estimator'
POOL_METHODS = ('amap', 'map', 'imap', 'uimap', 'apipe', 'pipe', 'starmap')


def _heur_pred(e):
    return isinstance(e, ast.Attribute) and e.attr == 'heuristic'


class MRGPath:
    def __init__(self, model, heuristic, assume, res):
        self.model, self.heuristic, self.assume, self.res = model, heuristic, assume, res
        fn = model.fn
        self.rows_expr = None
        r = res.returned
        if isinstance(r, ast.Call) and r.args:
            self.rows_expr = r.args[0]
        elif isinstance(r, ast.Call):
            kw = [k.value for k in r.keywords if k.arg in ('triplet_scores', 'triplets', 'scores')]
            self.rows_expr = kw[0] if kw else None
        self.rows = term_of(fn, self.rows_expr, inline=False) if self.rows_expr is not None else None

    def assumed_empty(self, term) -> bool:
        """the path assumes that `term` (a list) is empty"""
        def unwrap(t):
            # list(x) / tuple(x) hold what x holds
            if isinstance(t, tuple) and len(t) == 4 and t[0] == 'call' and t[1] in (('name', 'list'), ('name', 'tuple')) and len(t[2]) == 1 and not t[3]:
                return unwrap(t[2][0])
            if isinstance(t, tuple):
                return tuple(unwrap(x) for x in t)
            return t
        term = unwrap(term)
        ln = ('call', ('name', 'len'), (term,), ())

        def same_emptiness(t):
            t = unwrap(t)
            # the mirrored list of `term` holds two rows per row of `term`: it is empty exactly when `term` is
            if isinstance(t, tuple) and t and self.model.mirrored(t) == term:
                return term
            if isinstance(t, tuple):
                return tuple(same_emptiness(x) for x in t)
            return t
        for test, truth in self.res.assumed:
            t = same_emptiness(term_of(self.model.fn, test, inline=False))
            empty_if_true = [('cmp', '==', ('num', 0), ln), ('cmp', '==', ln, ('num', 0)), ('cmp', '<', ln, ('num', 1)), ('cmp', '<=', ln, ('num', 0)), ('not', term)]
            empty_if_false = [('cmp', '!=', ('num', 0), ln), ('cmp', '!=', ln, ('num', 0)), ('cmp', '<', ('num', 0), ln), ('cmp', '<=', ('num', 1), ln), term, ln]
            if (truth and t in empty_if_true) or (not truth and t in empty_if_false):
                return True
        return False

    def describe(self):
        return f"heuristic {self.heuristic!r}" + (', ' + ', '.join(f'{ast.unparse(t)[:40]} is {v}' for t, v in self.assume) if self.assume else '')


class MRGModel:
    """Path evaluation of mixed_rank_graph for a few heuristic names: the rows handed to BatchRankingSummary as one expression over
    the parameters (loops that build lists are summarised as comprehensions, helper calls are expanded, locals substituted)."""

    def __init__(self, repo):
        from ..match import run_paths
        self.repo = repo
        self.fn = repo.func(CR, 'mixed_rank_graph')
        self.m = self.fn.module
        self.paths = []
        self.broken = None
        for h in ('Constant', 'MI-numba-randomized', 'MI', 'surrogate-SGD'):
            ps = run_paths(self.fn, _heur_pred, h, max_forks=4)
            if ps is None:
                self.broken = f'too many configuration tests to fork on for heuristic {h!r}'
                continue
            for assume, res in ps:
                self.paths.append(MRGPath(self, h, assume, res))

    # -- patterns -------------------------------------------------------------------------
    def pat(self, src, holes=()):
        from ..terms import pattern
        return pattern(self.m, src, holes)

    def mirrored(self, rows):
        """R when rows is the flat list of (t[1], t[0], t[2]) and t for every t of R (either order), else None"""
        from ..terms import unify
        for src in ('[x for t in R for x in ((t[1], t[0], t[2]), t)]', '[x for t in R for x in (t, (t[1], t[0], t[2]))]'):
            b = unify(self.pat(src, ['R']), rows)
            if b is not None:
                from ..terms import alpha_norm
                return alpha_norm(b['R'])      # the iterable of the outermost generator is closed: renumber its own comprehension variables
        return None

    def pool_results(self, term):
        """(pool method, worker term, combinations term) when term is the list of results of one pool submission, else None"""
        from ..terms import unify
        for meth in POOL_METHODS:
            for src in (f'P.{meth}(W, C).get()', f'P.{meth}(W, C)', f'list(P.{meth}(W, C))', f'list(P.{meth}(W, C).get())'):
                b = unify(self.pat(src, ['P', 'W', 'C']), term)
                if b is not None:
                    return meth, b['W'], b['C']
        return None

    def constant_rows(self, rows):
        """C when rows is [(c[0], c[1], 0.0) for c in C]"""
        from ..terms import unify
        b = unify(self.pat('[(c[0], c[1], 0.0) for c in C]', ['C']), rows)
        from ..terms import alpha_norm
        return alpha_norm(b['C']) if b is not None else None

    def sampled(self, comb_term):
        """candidate term when comb_term is prior_combinations_sample(<candidates>, args) (default counter), else None"""
        from ..terms import unify
        args = self.fn.params[1]
        # (the default counter may be passed explicitly: None selects it, and GLOBAL_PRIOR_COMB_COUNTS is it)
        for src in (f'{CR}.prior_combinations_sample(K, {args})', f'{CR}.prior_combinations_sample(K, {args}, GLOBAL_PRIOR_COMB_COUNTS)', f'{CR}.prior_combinations_sample(K, {args}, None)'):
            b = unify(self.pat(src, ['K']), comb_term)
            if b is not None:
                return b['K']
        return None

    # -- the worker ------------------------------------------------------------------------
    def submission(self, path):
        """the ast.Call that submits to the pool on this path (found in the returned expression), or None"""
        if path.rows_expr is None:
            return None
        for n in ast.walk(path.rows_expr):
            if isinstance(n, ast.Call) and isinstance(n.func, ast.Attribute) and n.func.attr in POOL_METHODS and len(n.args) >= 2:
                return n
        return None

    def worker_binding(self, path):
        """{parameter of get_importances_estimate_pairwise: ast expression over mixed_rank_graph's parameters}, plus '__elem__': the parameter
        that receives the mapped combination; None when the worker cannot be resolved"""
        from ..match import bind_args, _Subst
        import copy
        sub = self.submission(path)
        if sub is None:
            return None
        target = self.repo.func(IE_MOD, 'get_importances_estimate_pairwise')
        w = sub.args[0]
        env = path.res.env or {}

        def subst(e, drop=()):
            e2 = {k: v for k, v in env.items() if k not in drop}
            return ast.fix_missing_locations(_Subst(e2).visit(copy.deepcopy(e)))
        call, elem = None, None
        if isinstance(w, ast.Name):
            fdef = None
            for n in ast.walk(self.fn.node):
                if isinstance(n, ast.FunctionDef) and n.name == w.id and n is not self.fn.node:
                    fdef = n
            if fdef is None or len(fdef.args.args) != 1:
                return None
            body = [b for b in fdef.body if not (isinstance(b, ast.Expr) and isinstance(b.value, ast.Constant))]
            if len(body) != 1 or not isinstance(body[0], ast.Return) or not isinstance(body[0].value, ast.Call):
                return None
            call, elem = body[0].value, fdef.args.args[0].arg
            if self.m.dotted(call.func) != f'{IE_MOD}.get_importances_estimate_pairwise':
                return None
            ba = bind_args(call, target)
            out = {}
            for k, v in ba.items():
                if isinstance(v, ast.Name) and v.id == elem:
                    out['__elem__'] = k
                    out[k] = v
                else:
                    out[k] = subst(v, drop=(elem,))
            out['__site__'] = call
            return out
        if isinstance(w, ast.Lambda) and len(w.args.args) == 1 and isinstance(w.body, ast.Call) and self.m.dotted(w.body.func) == f'{IE_MOD}.get_importances_estimate_pairwise':
            elem = w.args.args[0].arg
            ba = bind_args(w.body, target)
            out = {k: v for k, v in ba.items()}
            for k, v in ba.items():
                if isinstance(v, ast.Name) and v.id == elem:
                    out['__elem__'] = k
            out['__site__'] = w.body
            return out
        if isinstance(w, ast.Call) and self.m.dotted(w.func) == 'functools.partial' and w.args and self.m.dotted(w.args[0]) == f'{IE_MOD}.get_importances_estimate_pairwise':
            fake = ast.Call(func=w.args[0], args=list(w.args[1:]), keywords=list(w.keywords))
            ba = bind_args(fake, target)
            free = [p for p in target.params if p not in ba]
            out = dict(ba)
            if free:
                out['__elem__'] = free[0]
            out['__site__'] = w
            return out
        return None


_MRG_CACHE = {}


def mrg_model(repo) -> MRGModel:
    k = id(repo)
    if k not in _MRG_CACHE:
        _MRG_CACHE.clear()
        _MRG_CACHE[k] = MRGModel(repo)
    return _MRG_CACHE[k]


def column_coding(repo, fn, frame_expr):
    """How the frame `frame_expr` (an expression over fn's parameters) codes the columns of fn's first parameter.
    Returns (kind, detail): kind in 'category' | 'factorize-sorted' | 'factorize' | 'unknown'."""
    from ..terms import pattern, unify
    m = fn.module
    F = fn.params[0]
    # helpers that are new with respect to the confirmed tree are evaluated (what they return, over their argument)
    try:
        from ..match import PathEval, PathResult
        pe = PathEval(fn, None, None)
        pe.res = PathResult()
        pe.eval_closures = True
        frame_expr = pe._eval_local_call(frame_expr)
    except Exception:
        pass
    t = term_of(fn, frame_expr, inline=False)

    def strip_defaults(x):
        # keyword arguments that restate a default of pandas.factorize
        if isinstance(x, tuple):
            x = tuple(strip_defaults(y) for y in x)
            if len(x) == 4 and x[0] == 'call' and (x[1] == ('lib', 'pandas.factorize') or (x[1][0] == 'attr' and x[1][2] == 'factorize')):
                kws = tuple(k for k in x[3] if k not in (('use_na_sentinel', ('bool', True)), ('sort', ('bool', False)), ('na_sentinel', ('num', -1))))
                return (x[0], x[1], x[2], kws)
        return x
    t = strip_defaults(t)
    ctor = None
    for src in ('pandas.DataFrame(D)', 'pandas.DataFrame(D, index=I)', 'pandas.DataFrame(data=D)', 'pandas.DataFrame(D, index=I, columns=Q)'):
        b = unify(pattern(m, src, ['D', 'I', 'Q']), t)
        if b is not None:
            ctor = b
            break
    if ctor is None or ctor['D'][0] != 'dictcomp' or len(ctor['D'][2]) != 1 or ctor['D'][2][0][1]:
        return 'unknown', f'not a frame built column by column from a dict comprehension: {show(t)[:120]}'
    if 'I' in ctor and ctor['I'] != pattern(m, f'{F}.index'):
        return 'unknown', 'index argument is not the index of the input frame'
    pair, gens = ctor['D'][1], ctor['D'][2]
    cols = gens[0][0]
    k = ('cvar', 0, 0)
    if pair[1] != k:
        return 'unknown', 'the key of the dict comprehension is not the column name itself'
    if cols not in (pattern(m, f'{F}.columns'), pattern(m, F), pattern(m, f'list({F}.columns)'), pattern(m, f'{F}.columns.tolist()'), pattern(m, f'{F}.keys()'), pattern(m, f'list({F})')):
        return 'unknown', f'the comprehension does not range over all columns of the input frame: {show(cols)[:80]}'
    v = pair[2]
    P = lambda src: pattern(m, src, [], {'k': k}) if False else __import__('sa.terms', fromlist=['Canon']).Canon(m, None, inline=False, bound={'k': k}).t(ast.parse(src, mode='eval').body)
    cat = [f"{F}.copy().astype('category')[k].cat.codes", f"{F}.astype('category')[k].cat.codes", f"{F}[k].astype('category').cat.codes", f"pandas.Categorical({F}[k]).codes", f"{F}.copy()[k].astype('category').cat.codes",
           f"{F}[k].astype('category').cat.codes.values", f"pandas.Categorical({F}[k].values).codes"]
    fs = [f"pandas.factorize({F}[k], sort=True)[0]", f"{F}[k].factorize(sort=True)[0]"]
    fu = [f"pandas.factorize({F}[k])[0]", f"{F}[k].factorize()[0]"]
    if v in [P(x) for x in cat]:
        return 'category', show(v)[:100]
    if v in [P(x) for x in fs]:
        return 'factorize-sorted', show(v)[:100]
    if v in [P(x) for x in fu]:
        return 'factorize', show(v)[:100]
    return 'unknown', f'column coding not recognised: {show(v)[:120]}'


# ---------------------------------------------------------------------------------------------
# model of the streaming loop of estimate_importances_minibatches: one iteration as a set of paths
# ---------------------------------------------------------------------------------------------
CU_MOD = 'outrank.core_utils'


class StreamPath:
    def __init__(self, model, assume, res):
        self.model, self.assume, self.res = model, assume, res
        fn = model.fn
        self.tests = [(term_of(fn, t, inline=True), v, t) for t, v in res.assumed]
        self.calls = [(term_of(fn, c['call'], inline=True), c) for c in res.calls]

    def describe(self):
        return ', '.join(f'{ast.unparse(t)[:50]} is {v}' for t, v in self.res.assumed) or '(no test)'

    def mentions(self, term):
        from ..terms import walk_term
        pools = [t for t, _, _ in self.tests] + [t for t, _ in self.calls] + [term_of(self.model.fn, v, inline=True) for v in (self.res.env or {}).values() if v is not None]
        return any(x == term for p in pools for x in walk_term(p))


class StreamModel:
    """One iteration of `for line in stream` evaluated path by path (every test forked, assignments substituted): which tests decide
    that a line is skipped, rejected, buffered, and when a batch is scored."""

    def __init__(self, repo):
        from ..match import run_paths, expected_term
        from ..terms import walk_term
        self.repo = repo
        self.fn, self.loop, self.pcall = streaming_loop(repo)
        fn, loop = self.fn, self.loop
        self.m = fn.module
        self.header = fn.params[1]
        self.args = 'args' if 'args' in fn.params else fn.params[5]
        E = lambda src: expected_term(self.m, src)
        self.E = E
        # the line variable and a possible enumerate counter
        self.line, self.enum_counter, self.enum_start = None, None, None
        it = loop.iter
        if isinstance(loop.target, ast.Name):
            self.line = loop.target.id
            self.stream = it
        elif isinstance(loop.target, ast.Tuple) and len(loop.target.elts) == 2 and all(isinstance(x, ast.Name) for x in loop.target.elts) and isinstance(it, ast.Call) and isinstance(it.func, ast.Name) and it.func.id == 'enumerate' and it.args:
            self.enum_counter, self.line = loop.target.elts[0].id, loop.target.elts[1].id
            self.stream = it.args[0]
            st = it.args[1] if len(it.args) > 1 else next((k.value for k in it.keywords if k.arg == 'start'), ast.Constant(0))
            self.enum_start = st.value if isinstance(st, ast.Constant) else None
        else:
            self.stream = it
        raw = run_paths(fn, None, None, 10, body=loop.body)
        self.paths = [StreamPath(self, a, r) for a, r in raw] if raw is not None else None
        self.parse = term_of(fn, self.pcall, inline=True)
        self.sub = E(f'{self.args}.subsampling')

    # -- classification of decided tests ---------------------------------------------------
    def subsampling_decision(self, t, truth):
        """('skip'|'keep', counter term) when t is a test of <counter> % args.subsampling, else None"""
        def mod_of(x):
            return x[1] if isinstance(x, tuple) and x and x[0] == '%' and x[2] == self.sub else None
        if t[0] == 'cmp' and t[1] in ('!=', '==') and ('num', 0) in (t[2], t[3]):
            c = mod_of(t[3] if t[2] == ('num', 0) else t[2])
            if c is not None:
                skip = (t[1] == '!=') == truth
                return ('skip' if skip else 'keep', c)
        if t[0] == 'cmp' and t[1] == '<' and t[2] == ('num', 0):
            c = mod_of(t[3])
            if c is not None:
                return ('skip' if truth else 'keep', c)
        c = mod_of(t)
        if c is not None:
            return ('skip' if truth else 'keep', c)
        if t[0] == 'not':
            c = mod_of(t[1])
            if c is not None:
                return ('keep' if truth else 'skip', c)
        return None

    def field_count_decision(self, t, truth):
        """True (row has the header's number of fields) / False / None when t is not the field-count test"""
        ln = lambda x: ('call', ('name', 'len'), (x,), ())
        a, b = ln(self.parse), ln(('name', self.header))
        if t[0] == 'cmp' and t[1] in ('==', '!=') and {t[2], t[3]} == {a, b}:
            return (t[1] == '==') == truth
        return None

    def trigger_decision(self, t, truth, buf):
        ln = ('call', ('name', 'len'), (('name', buf),), ())
        mb = self.E(f'{self.args}.minibatch_size')
        if t == ('cmp', '<=', mb, ln):
            return truth
        if t == ('cmp', '<', ln, mb):
            return not truth
        return None


_STREAM_CACHE = {}


def stream_model(repo) -> StreamModel:
    k = id(repo)
    if k not in _STREAM_CACHE:
        _STREAM_CACHE.clear()
        _STREAM_CACHE[k] = StreamModel(repo)
    return _STREAM_CACHE[k]


def loop_terms(fn, u, roles=None):
    """Canonical terms of a `foreach` update (an effect applied in a nest of loops): (chain, key, value, guard, args, target), the loop variables bound
    to positional markers ('lvar', depth, position).  A level that ranges over a comprehension / a snapshot of one is flattened:
        for t in [f(x) for x in S if g(x)]: eff(t)      is      for x in S: if g(x): eff(f(x))
    (also when the target unpacks the elements: the names are the positions of f(x))."""
    from ..terms import Canon, Scope, walk_term
    m = fn.module
    bound = dict(roles or {})
    chain = []
    extra_guard = []
    flattened = set()

    def rep(t, a, b):
        if t == a:
            return b
        if isinstance(t, tuple):
            return tuple(rep(x, a, b) for x in t)
        return t
    for depth, (names, it, shape) in enumerate(u.get('chain', [])):
        it_t = Canon(m, Scope(None), inline=False, bound=dict(bound)).t(it)
        L = ('lvar', depth, 0)
        while True:
            while it_t[0] == 'call' and it_t[1] in (('name', 'list'), ('name', 'tuple')) and len(it_t[2]) == 1 and not it_t[3]:
                it_t = it_t[2][0]      # a snapshot of the iterable visits the same elements in the same order
            if it_t[0] in ('genexp', 'listcomp') and len(it_t[2]) == 1:
                break
            break
        elem = L
        HOLD = ('lvar!', depth)
        level_guards = []
        cv = ('cvar', 0, 0)
        while it_t[0] in ('genexp', 'listcomp') and len(it_t[2]) == 1:      # (the iterable of the only generator is evaluated outside the comprehension)
            elt, (src, ifs) = it_t[1], it_t[2][0]
            new = rep(elt, cv, HOLD)          # an element of it_t written over the element of src
            elem = rep(elem, HOLD, new) if depth in flattened else new
            level_guards = [rep(g, HOLD, new) for g in level_guards] + [rep(g, cv, HOLD) for g in ifs]
            flattened.add(depth)
            it_t = src
            while it_t[0] == 'call' and it_t[1] in (('name', 'list'), ('name', 'tuple')) and len(it_t[2]) == 1 and not it_t[3]:
                it_t = it_t[2][0]
        extra_guard += level_guards
        if isinstance(shape, ast.Name):
            bound[shape.id] = elem
        else:
            for j, x in enumerate(shape.elts if isinstance(shape, (ast.Tuple, ast.List)) else []):
                if isinstance(x, ast.Name):
                    if elem == L:
                        bound[x.id] = ('lvar', depth, j)
                    elif elem[0] == 'tuple' and len(elem) - 1 == len(shape.elts):
                        bound[x.id] = elem[1 + j]
                    else:
                        bound[x.id] = ('sub', elem, ('num', j))
        chain.append(it_t)
    T = lambda e: Canon(m, Scope(None), inline=False, bound=dict(bound)).t(e) if e is not None else None
    key, val, guard, args, tgt = T(u.get('key')), T(u.get('value')), T(u.get('guard')), [T(a) for a in u.get('args', [])], T(u['target'])
    for g in extra_guard:
        guard = g if guard is None else ('and', tuple(sorted([guard, g], key=repr)))
    # the element of a flattened level: read by position (x[0], x[1] = positions of an unpacked target) when it is only read that way
    parts = [key, val, guard, tuple(args), tgt, tuple(chain)]
    for depth in sorted(flattened):
        HOLD = ('lvar!', depth)
        HOLE = ('lvar?',)

        def pos(t):
            if isinstance(t, tuple) and len(t) == 3 and t[0] == 'sub' and t[1] == HOLD and isinstance(t[2], tuple) and t[2][0] == 'num' and isinstance(t[2][1], int):
                return ('lvar', depth, t[2][1])
            if t == HOLD:
                return HOLE
            if isinstance(t, tuple):
                return tuple(pos(x) for x in t)
            return t
        cand = [pos(x) if x is not None else None for x in parts]
        if any(HOLE in list(walk_term(c)) for c in cand if c is not None):
            cand = [rep(x, HOLD, ('lvar', depth, 0)) if x is not None else None for x in parts]
        parts = cand
    key, val, guard, args, tgt, chain = parts[0], parts[1], parts[2], list(parts[3]), parts[4], list(parts[5])
    return chain, key, val, guard, args, tgt


def stale_parameter_caches(fn):
    """Module-level names that `fn` fills from its own parameters only while they are still empty / unset, and reads afterwards:
         if not CACHE: CACHE.update(f(args))      /      global CACHE; if CACHE is None: CACHE = f(args)
    The first call's parameters are used by every later call in the process.  Returns [(name, the guarded write)]."""
    m = fn.module
    out = []
    params = set(fn.params)
    par = parents(fn.node)
    module_names = set(m.assigns)
    for n in own_nodes(fn.node):
        name, value = None, None
        if isinstance(n, ast.Expr) and isinstance(n.value, ast.Call) and isinstance(n.value.func, ast.Attribute) and n.value.func.attr in ('update', 'add', 'extend', 'append', 'setdefault') and isinstance(n.value.func.value, ast.Name):
            name, value = n.value.func.value.id, n.value
        elif isinstance(n, ast.Assign) and len(n.targets) == 1 and isinstance(n.targets[0], ast.Name) and m.rebinds_global(n.targets[0].id):
            name, value = n.targets[0].id, n.value
        elif isinstance(n, ast.Assign) and len(n.targets) == 1 and isinstance(n.targets[0], ast.Subscript) and isinstance(n.targets[0].value, ast.Name):
            name, value = n.targets[0].value.id, n.value
        if name is None or name not in module_names or name in params:
            continue
        if not any(isinstance(x, ast.Name) and x.id in params for x in ast.walk(value)):
            continue
        # guarded by a test of the cache itself: `if not CACHE`, `if CACHE is None`, `if len(CACHE) == 0`
        g = par.get(n)
        while g is not None and not isinstance(g, ast.If):
            g = par.get(g)
        if g is None or not any(n is x for b in g.body for x in ast.walk(b)):
            continue
        tnames = {x.id for x in ast.walk(g.test) if isinstance(x, ast.Name)}
        if name in tnames and not (tnames & params):
            # and read elsewhere in the function
            reads = [x for x in own_nodes(fn.node) if isinstance(x, ast.Name) and x.id == name and isinstance(x.ctx, ast.Load) and not any(x is y for y in ast.walk(g.test)) and not any(x is y for y in ast.walk(n))]
            if reads:
                out.append((name, n))
    return out


# ---------------------------------------------------------------------------
# casts on the way from the coded frame to the scorers
# ---------------------------------------------------------------------------
WIDE_DTYPES = {'np.int32', 'np.int64', 'np.intp', 'np.int_', 'int', "'int32'", "'int64'", "'int'", 'np.uint32', 'np.uint64', 'np.float64', 'np.float32', 'float', "'float64'", "'float32'",
               'numpy.int32', 'numpy.int64', 'np.longlong', "'category'", 'str', "'str'", 'object', "'object'", "'O'"}
NARROW_DTYPES = {'np.int8', 'np.int16', 'np.uint8', 'np.uint16', 'np.float16', 'bool', 'np.bool_', "'int8'", "'int16'", "'uint8'", "'uint16'", "'float16'", "'bool'", 'np.byte', 'np.short',
                 'np.ubyte', 'np.ushort', "'i1'", "'i2'", "'u1'", "'u2'", 'numpy.int8', 'numpy.int16', 'numpy.uint8', 'numpy.uint16'}


def _dtype_sources(fn, dt, par):
    """source texts a dtype expression can stand for: itself, or - for a name bound by a loop over a literal collection - each element"""
    if isinstance(dt, ast.Name):
        outs = []
        for n in ast.walk(fn.node):
            if isinstance(n, (ast.For, ast.comprehension)) and isinstance(n.target, ast.Name) and n.target.id == dt.id and isinstance(n.iter, (ast.Tuple, ast.List, ast.Set)):
                outs += [ast.unparse(e) for e in n.iter.elts]
            elif isinstance(n, ast.Assign) and len(n.targets) == 1 and isinstance(n.targets[0], ast.Name) and n.targets[0].id == dt.id:
                if isinstance(n.value, ast.IfExp):
                    outs += [ast.unparse(n.value.body), ast.unparse(n.value.orelse)]
                else:
                    outs.append(ast.unparse(n.value))
        if outs:
            return outs
    return [ast.unparse(dt)]


def narrowing_casts(chk, oid, funcs, what, consequence, summary_site):
    """every cast in `funcs` is to a type that holds all int32 values; a cast to a narrow integer type or to the dtype of ANOTHER array is reported"""
    n_seen = 0
    for fn in funcs:
        par = None
        for n in own_nodes(fn.node):
            if not isinstance(n, ast.Call):
                continue
            dt = None
            if isinstance(n.func, ast.Attribute) and n.func.attr in ('astype', 'view') and n.args:
                dt = n.args[0]
            elif isinstance(n.func, ast.Attribute) and n.func.attr in ('astype',) and any(k.arg == 'dtype' for k in n.keywords):
                dt = next(k.value for k in n.keywords if k.arg == 'dtype')
            elif (fn.module.dotted(n.func) or '').replace('numpy.', 'np.') in ('np.asarray', 'np.array', 'np.ascontiguousarray', 'np.asanyarray', 'np.require'):
                dt = next((k.value for k in n.keywords if k.arg == 'dtype'), n.args[1] if len(n.args) > 1 else None)
            if dt is None:
                continue
            n_seen += 1
            srcs = _dtype_sources(fn, dt, par)
            if all(s_ in WIDE_DTYPES for s_ in srcs):
                continue
            narrow = [s_ for s_ in srcs if s_ in NARROW_DTYPES]
            if narrow:
                chk.bad(oid, 'R8', fn.site(n), ast.unparse(n)[:120], f'{what} cast to {narrow[0]}: {consequence}')
            elif isinstance(dt, ast.Attribute) and dt.attr == 'dtype':
                chk.bad(oid, 'R8', fn.site(n), ast.unparse(n)[:120], f'{what} cast to the dtype of another array ({ast.unparse(dt)}), which can be a narrow integer type: {consequence}')
            else:
                chk.unsure(oid, 'R8', fn.site(n), ast.unparse(n)[:120], f'a cast to {", ".join(srcs)[:60]}: whether it can narrow the values is not decided')
    chk.ok(oid, 'R8', summary_site, f'casts of {what}', f'{n_seen} cast(s): each to a type that holds every int32 value', inspected=max(1, n_seen))


def vector_casts(repo, chk, oid):
    """Category codes are int8 / int16 / int32 depending on the cardinality of the column.  On the way from the coded frame to the scorer
    (generate_data_for_ranking, get_importances_estimate_pairwise, conduct_feature_ranking, numba_mi) a cast may only widen: a cast to a narrow
    integer type, or to the dtype of ANOTHER array (the partner column may be an int8 column), wraps codes above the range and merges
    categories - the score is then a function of the numeric codes, not of the co-occurrence structure."""
    funcs = [repo.mod(IE_MOD).funcs[q] for q in ('generate_data_for_ranking', 'get_importances_estimate_pairwise', 'conduct_feature_ranking', 'numba_mi') if q in repo.mod(IE_MOD).funcs]
    narrowing_casts(chk, oid, funcs, 'the vector is', 'codes above the range of that type wrap around, so distinct categories of a high-cardinality column are merged before scoring',
                    'outrank/algorithms/importance_estimator.py')


def narrow_code_buffers(repo, chk, oid):
    """The coded frame handed to the scorers must hold the codes in a type wide enough for every cardinality a batch can have.  A buffer that is
    allocated in mixed_rank_graph (helpers expanded) with a NARROW integer dtype and then becomes (part of) a DataFrame wraps codes above its range:
    a batch with more than 32767 (int16) / 127 (int8) distinct values in a column merges categories before scoring."""
    fn = repo.func('outrank.core_ranking', 'mixed_rank_graph')
    m = fn.module
    allocs = []
    for n in own_nodes(fn.node):
        if isinstance(n, ast.Assign) and len(n.targets) == 1 and isinstance(n.targets[0], ast.Name) and isinstance(n.value, ast.Call) and (m.dotted(n.value.func) or '') in ('numpy.empty', 'numpy.zeros', 'numpy.full', 'numpy.ones', 'numpy.ndarray', 'numpy.empty_like', 'numpy.zeros_like'):
            dt = next((k.value for k in n.value.keywords if k.arg == 'dtype'), None)
            if dt is not None and ast.unparse(dt) in NARROW_DTYPES and 'bool' not in ast.unparse(dt):
                allocs.append((n, dt))
    hit = None
    for n, dt in allocs:
        x = n.targets[0].id
        into_frame = any(isinstance(c, ast.Call) and (m.dotted(c.func) or '') in ('pandas.DataFrame', 'pandas.DataFrame.from_records', 'pandas.DataFrame.from_dict') and any(isinstance(y, ast.Name) and y.id == x for a in list(c.args) + [k.value for k in c.keywords] for y in ast.walk(a))
                         for c in own_nodes(fn.node))
        if into_frame:
            hit = (n, dt)
            break
    if hit:
        chk.bad(oid, 'R8', fn.site(hit[0]), ast.unparse(hit[0])[:120], f'the buffer the category codes of the batch are written into has dtype {ast.unparse(hit[1])}: codes above its range wrap around on assignment, so a column with more '
                'distinct values than that type can hold has categories merged (and negative codes) before it is scored - the scores become a function of the numeric codes')
    else:
        chk.ok(oid, 'R8', fn.site(), f'{len(allocs)} narrow buffer(s) in mixed_rank_graph, none of them becomes the coded frame', 'the coded frame is not assembled in a narrow integer buffer')


def column_overwrites(fn):
    """Stores that replace an existing column of a frame inside `fn` (after helper expansion):
         F[k] = <expression reading F[k]>        F[k] = ..  with k drawn from F.columns        F.loc[:, k] / F[[..]] likewise
    Returns [(node, frame name, key source, why)]."""
    out = []
    par = parents(fn.node)
    # the frames of the function: parameters annotated as DataFrame, names bound to pd.DataFrame(..), to a package call that receives a frame, or to a copy / selection of one
    frames = {a.arg for a in fn.node.args.args if a.annotation is not None and 'DataFrame' in ast.unparse(a.annotation)}
    changed = True
    while changed:
        changed = False
        for n in own_nodes(fn.node):
            if isinstance(n, ast.Assign) and len(n.targets) == 1 and isinstance(n.targets[0], ast.Name) and n.targets[0].id not in frames:
                v = n.value
                is_frame = False
                if isinstance(v, ast.Call):
                    d = fn.module.dotted(v.func) or ''
                    if d in ('pandas.DataFrame', 'pd.DataFrame', 'pandas.concat', 'pandas.read_csv'):
                        is_frame = True
                    elif any(isinstance(a, ast.Name) and a.id in frames for a in v.args) and (d.startswith('outrank.') or (isinstance(v.func, ast.Attribute) and isinstance(v.func.value, ast.Name) and v.func.value.id in frames)):
                        is_frame = True
                    elif isinstance(v.func, ast.Attribute) and isinstance(v.func.value, ast.Name) and v.func.value.id in frames and v.func.attr in ('copy', 'astype', 'reset_index', 'drop', 'fillna', 'apply', 'assign'):
                        is_frame = True
                elif isinstance(v, ast.Subscript) and isinstance(v.value, ast.Name) and v.value.id in frames and isinstance(v.slice, (ast.List, ast.ListComp, ast.Name)):
                    is_frame = True
                elif isinstance(v, ast.Name) and v.id in frames:
                    is_frame = True
                if is_frame:
                    frames.add(n.targets[0].id)
                    changed = True
    for n in own_nodes(fn.node):
        if isinstance(n, ast.Assign) and len(n.targets) == 1:
            t, v = n.targets[0], n.value
        elif isinstance(n, ast.AugAssign):
            t, v = n.target, None
        else:
            continue
        if not isinstance(t, ast.Subscript):
            continue
        base = t.value
        key = t.slice
        if isinstance(base, ast.Attribute) and base.attr in ('loc', 'iloc') and isinstance(key, ast.Tuple) and len(key.elts) == 2:
            base, key = base.value, key.elts[1]
        if not isinstance(base, ast.Name) or base.id not in frames:
            continue
        F, ksrc = base.id, ast.unparse(key)
        if isinstance(n, ast.AugAssign):
            out.append((n, F, ksrc, 'updated in place'))
            continue
        reads_same = any(isinstance(x, ast.Subscript) and isinstance(x.value, ast.Name) and x.value.id == F and ast.unparse(x.slice) == ksrc and isinstance(x.ctx, ast.Load) for x in ast.walk(v))
        from_columns = False
        if isinstance(key, ast.Name):
            g = par.get(n)
            while g is not None and g is not fn.node:
                if isinstance(g, ast.For) and isinstance(g.target, ast.Name) and g.target.id == key.id:
                    it = g.iter
                    if any(isinstance(x, ast.Attribute) and x.attr == 'columns' and isinstance(x.value, ast.Name) and x.value.id == F for x in ast.walk(it)):
                        from_columns = True
                    break
                g = par.get(g)
        if reads_same:
            out.append((n, F, ksrc, f'the new value is computed from {F}[{ksrc}] and stored back under the same name'))
        elif from_columns:
            out.append((n, F, ksrc, f'{ksrc} runs over the existing columns of {F}'))
    return out


def param_deps(fn, expr, stop=(), control=False):
    """parameters of `fn` the expression can depend on, through the local bindings of the function (every binding of a name counts;
    helper expansion has already placed extracted helpers in the body).  control=True: a binding made under a test also depends on that test"""
    binds = {}
    par = parents(fn.node) if control else {}
    for n in own_nodes(fn.node):
        if isinstance(n, ast.Assign):
            extra = []
            if control:
                g = par.get(n)
                while g is not None and g is not fn.node:
                    if isinstance(g, (ast.If, ast.While)):
                        extra.append(g.test)
                    g = par.get(g)
            for t in n.targets:
                for x in ast.walk(t):
                    if isinstance(x, ast.Name):
                        binds.setdefault(x.id, []).append(n.value)
                        binds[x.id] += extra
        elif isinstance(n, (ast.AugAssign, ast.AnnAssign)) and isinstance(n.target, ast.Name) and n.value is not None:
            binds.setdefault(n.target.id, []).append(n.value)
        elif isinstance(n, (ast.For, ast.comprehension)):
            for x in ast.walk(n.target):
                if isinstance(x, ast.Name):
                    binds.setdefault(x.id, []).append(n.iter)
        elif isinstance(n, ast.NamedExpr):
            binds.setdefault(n.target.id, []).append(n.value)
    params = set(fn.params)
    out, seen, work = set(), set(), [expr]
    while work:
        e = work.pop()
        for x in ast.walk(e):
            if isinstance(x, ast.Name) and x.id not in seen and x.id not in stop:
                seen.add(x.id)
                if x.id in binds:
                    # a parameter that is re-bound still starts from the caller's value when the binding reads it
                    work += binds[x.id]
                    if x.id in params and any(any(isinstance(y, ast.Name) and y.id == x.id for y in ast.walk(v)) for v in binds[x.id]):
                        out.add(x.id)
                    elif x.id in params and not binds[x.id]:
                        out.add(x.id)
                elif x.id in params:
                    out.add(x.id)
    return out


# ---------------------------------------------------------------------------
# constant evaluation of small predicates over the configuration (finite domains)
# ---------------------------------------------------------------------------
class Undecided(Exception):
    pass


def pred_eval(e, env, m):
    """constant evaluation of the small predicate language of is_prior_heuristic; env: dotted source text -> value"""
    if isinstance(e, ast.Constant):
        return e.value
    src = ast.unparse(e)
    if src in env:
        return env[src]
    if isinstance(e, ast.Name):
        vs = m.assigns.get(e.id, [])
        if len(vs) == 1 and not m.rebinds_global(e.id):
            return pred_eval(vs[0], env, m)
        raise Undecided(src)
    if isinstance(e, (ast.Set, ast.Tuple, ast.List)):
        vals = [pred_eval(x, env, m) for x in e.elts]
        return tuple(vals) if not isinstance(e, ast.Set) else frozenset(vals)
    if isinstance(e, ast.BoolOp):
        r = None
        for v in e.values:
            r = pred_eval(v, env, m)
            if isinstance(e.op, ast.And) and not r:
                return r
            if isinstance(e.op, ast.Or) and r:
                return r
        return r
    if isinstance(e, ast.UnaryOp) and isinstance(e.op, ast.Not):
        return not pred_eval(e.operand, env, m)
    if isinstance(e, ast.IfExp):
        return pred_eval(e.body if pred_eval(e.test, env, m) else e.orelse, env, m)
    if isinstance(e, ast.Compare) and len(e.ops) == 1:
        a, b = pred_eval(e.left, env, m), pred_eval(e.comparators[0], env, m)
        op = e.ops[0]
        try:
            if isinstance(op, ast.In):
                return a in b
            if isinstance(op, ast.NotIn):
                return a not in b
            if isinstance(op, ast.Eq):
                return a == b
            if isinstance(op, ast.NotEq):
                return a != b
            if isinstance(op, ast.Is):
                return a is b
            if isinstance(op, ast.IsNot):
                return a is not b
        except TypeError:
            raise Undecided(src)
    if isinstance(e, ast.Call) and not e.keywords:
        f = e.func
        if isinstance(f, ast.Name) and f.id in ('bool', 'len', 'set', 'frozenset', 'tuple', 'list', 'any', 'all') and len(e.args) == 1 and not isinstance(e.args[0], (ast.GeneratorExp, ast.ListComp)):
            return {'bool': bool, 'len': len, 'set': frozenset, 'frozenset': frozenset, 'tuple': tuple, 'list': tuple, 'any': any, 'all': all}[f.id](pred_eval(e.args[0], env, m))
        if isinstance(f, ast.Name) and f.id in ('any', 'all') and len(e.args) == 1 and isinstance(e.args[0], (ast.GeneratorExp, ast.ListComp)) and len(e.args[0].generators) == 1:
            g = e.args[0].generators[0]
            if isinstance(g.target, ast.Name):
                out = []
                for v in pred_eval(g.iter, env, m):
                    env2 = dict(env)
                    env2[g.target.id] = v
                    if all(pred_eval(c, env2, m) for c in g.ifs):
                        out.append(pred_eval(e.args[0].elt, env2, m))
                return any(out) if f.id == 'any' else all(out)
        if isinstance(f, ast.Attribute) and f.attr in ('startswith', 'endswith', 'lower', 'upper', 'strip', 'split', 'count', 'find', 'partition', 'rsplit') and len(e.args) <= 2:
            recv = pred_eval(f.value, env, m)
            if isinstance(recv, str):
                return getattr(recv, f.attr)(*[pred_eval(a, env, m) for a in e.args])
        if isinstance(f, ast.Name) and f.id in ('getattr',) and len(e.args) in (2, 3) and isinstance(e.args[1], ast.Constant):
            k = f'{ast.unparse(e.args[0])}.{e.args[1].value}'
            if k in env:
                return env[k]
    if isinstance(e, ast.Subscript):
        v = pred_eval(e.value, env, m)
        i = pred_eval(e.slice, env, m) if not isinstance(e.slice, ast.Slice) else None
        try:
            if i is not None:
                return v[i]
        except Exception:
            raise Undecided(src)
    raise Undecided(src)


def pred_run(body, env, m):
    """value returned by a straight-line / if-structured body; None when it falls through"""
    for st in body:
        if isinstance(st, ast.Return):
            return ('ret', pred_eval(st.value, env, m) if st.value is not None else None)
        if isinstance(st, ast.If):
            r = pred_run(st.body if pred_eval(st.test, env, m) else st.orelse, env, m)
            if r is not None:
                return r
        elif isinstance(st, ast.Assign) and len(st.targets) == 1 and isinstance(st.targets[0], ast.Name):
            env[st.targets[0].id] = pred_eval(st.value, env, m)
        elif isinstance(st, ast.Expr) and isinstance(st.value, ast.Constant):
            continue
        elif isinstance(st, ast.Pass):
            continue
        else:
            raise Undecided(ast.unparse(st)[:60])
    return None



def heuristic_universe(repo):
    """the heuristic names the estimator dispatches on (string constants compared in get_importances_estimate_pairwise / conduct_feature_ranking / numba_mi), plus the documented family members"""
    ie = repo.mod(IE_MOD)
    out = {'MI-numba-randomized', 'MI-numba-3mr', 'MI-numba', 'surrogate-SGD-SVD', 'surrogate-SGD', 'surrogate-SVM', 'surrogate-SGD-RP', 'MI', 'AMI', 'Constant', 'max-value-coverage', 'correlation-Pearson'}
    for f in ('get_importances_estimate_pairwise', 'conduct_feature_ranking', 'numba_mi'):
        if f in ie.funcs:
            for n in ast.walk(ie.funcs[f].node):
                if isinstance(n, ast.Compare):
                    out |= {c.value for c in ast.walk(n) if isinstance(c, ast.Constant) and isinstance(c.value, str)}
    for vs in ie.assigns.values():
        for v in vs:
            if isinstance(v, (ast.Set, ast.Tuple, ast.List, ast.Call)):
                out |= {c.value for c in ast.walk(v) if isinstance(c, ast.Constant) and isinstance(c.value, str) and ('-' in c.value or c.value.isalpha()) and len(c.value) < 40}
    return out


# ---------------------------------------------------------------------------------------------------------------------------------
# where a value comes from: a backward trace through locals, parameters (all call sites in the module), record fields and returns
# ---------------------------------------------------------------------------------------------------------------------------------

def value_origins(module, fn_node, expr, limit=60):
    """The expressions a value is computed from, followed backwards through: local names (all their bindings in the function),
    parameters (the arguments at every call site of the function inside the module), `.field` of a record built inside the module
    (the argument given for that field), calls of functions / methods of the module (what they return).  Returns the list of
    (function node, expression) visited; leaves are expressions that none of the steps applies to.  Bounded; never raises."""
    tree = module.tree
    funcs = {}
    for n in ast.walk(tree):
        if isinstance(n, (ast.FunctionDef, ast.AsyncFunctionDef)):
            funcs.setdefault(n.name, []).append(n)
    classes = {n.name: n for n in ast.walk(tree) if isinstance(n, ast.ClassDef)}
    fields = {}
    for cn, c in classes.items():
        fl = [s.target.id for s in c.body if isinstance(s, ast.AnnAssign) and isinstance(s.target, ast.Name)]
        if fl:
            fields[cn] = fl
    owner = {}
    for f in [x for v in funcs.values() for x in v]:
        for n in ast.walk(f):
            owner.setdefault(id(n), f)
    seen, out, todo = set(), [], [(fn_node, expr)]
    while todo and len(out) < limit:
        f, e = todo.pop()
        key = (id(f), ast.dump(e))
        if key in seen:
            continue
        seen.add(key)
        out.append((f, e))
        if isinstance(e, ast.Name):
            binds = [s.value for s in ast.walk(f) if isinstance(s, (ast.Assign, ast.AnnAssign)) and s.value is not None and
                     any(isinstance(t, ast.Name) and t.id == e.id for t in (s.targets if isinstance(s, ast.Assign) else [s.target]))]
            todo += [(f, b) for b in binds]
            # a loop / comprehension variable comes from what is iterated
            loops_ = [n.iter for n in ast.walk(f) if isinstance(n, (ast.For, ast.comprehension)) and any(isinstance(x, ast.Name) and x.id == e.id for x in ast.walk(n.target))]
            todo += [(f, b) for b in loops_]
            binds = binds + loops_
            params = [a.arg for a in f.args.posonlyargs + f.args.args + f.args.kwonlyargs]
            if e.id in params and not binds:
                pos = [a.arg for a in f.args.posonlyargs + f.args.args]
                is_method = bool(pos) and pos[0] in ('self', 'cls')
                for c in ast.walk(tree):
                    if isinstance(c, ast.Call) and ((isinstance(c.func, ast.Name) and c.func.id == f.name) or (isinstance(c.func, ast.Attribute) and c.func.attr == f.name)):
                        ps = pos[1:] if (is_method and isinstance(c.func, ast.Attribute)) else pos
                        arg = next((k.value for k in c.keywords if k.arg == e.id), None)
                        if arg is None and e.id in ps and ps.index(e.id) < len(c.args) and not any(isinstance(a, ast.Starred) for a in c.args):
                            arg = c.args[ps.index(e.id)]
                        if arg is not None and id(c) in owner:
                            todo.append((owner[id(c)], arg))
            continue
        if isinstance(e, ast.Attribute):
            hit = False
            for cn, fl in fields.items():
                if e.attr in fl:
                    for c in ast.walk(tree):
                        if isinstance(c, ast.Call) and isinstance(c.func, ast.Name) and c.func.id == cn and id(c) in owner:
                            arg = next((k.value for k in c.keywords if k.arg == e.attr), None)
                            if arg is None and fl.index(e.attr) < len(c.args):
                                arg = c.args[fl.index(e.attr)]
                            if arg is not None:
                                todo.append((owner[id(c)], arg))
                                hit = True
            if not hit and isinstance(e.value, ast.Name) and e.value.id == 'self':
                # self.attr: what any method of the class stores there
                for n in ast.walk(tree):
                    if isinstance(n, ast.Assign) and id(n) in owner and any(isinstance(t, ast.Attribute) and t.attr == e.attr and isinstance(t.value, ast.Name) and t.value.id == 'self' for t in n.targets):
                        todo.append((owner[id(n)], n.value))
            continue
        if isinstance(e, ast.Call):
            name = e.func.id if isinstance(e.func, ast.Name) else e.func.attr if isinstance(e.func, ast.Attribute) and isinstance(e.func.value, ast.Name) and e.func.value.id in ('self', 'cls') else None
            if name in funcs:
                for g in funcs[name]:
                    for r in ast.walk(g):
                        if isinstance(r, ast.Return) and r.value is not None and owner.get(id(r)) is g:
                            todo.append((g, r.value))
                continue
        for sub in ast.iter_child_nodes(e):
            if isinstance(sub, ast.expr) and not isinstance(sub, ast.Constant):
                todo.append((f, sub))
            elif isinstance(sub, ast.comprehension):
                todo.append((f, sub.iter))
                todo += [(f, c) for c in sub.ifs]
    return out
