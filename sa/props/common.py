"""Obligations shared between properties."""
from __future__ import annotations

import ast

from ..cfg import CFG
from ..match import calls, term_of
from ..model import own_nodes, parents
from ..terms import show

CR = 'outrank.core_ranking'


def streaming_loop(repo):
    """The function and the `for line in <stream>` loop that calls generic_line_parser."""
    fn = repo.func(CR, 'estimate_importances_minibatches')
    for n in own_nodes(fn.node):
        if isinstance(n, ast.For):
            cs = [c for c in ast.walk(n) if isinstance(c, ast.Call) and fn.module.dotted(c.func) == 'outrank.core_utils.generic_line_parser']
            if cs:
                return fn, n, cs[0]
    from ..model import AnalysisError
    raise AnalysisError('streaming loop (for line in stream: ... generic_line_parser(...)) not found in estimate_importances_minibatches')


def field_count_gate(repo, chk, oid):
    """A parsed row is appended to the batch buffer iff len(row) == len(column_descriptions); otherwise it is counted invalid."""
    fn, loop, pcall = streaming_loop(repo)
    par = parents(fn.node)
    st = par.get(pcall)
    while st is not None and not isinstance(st, ast.stmt):
        st = par.get(st)
    if not (isinstance(st, ast.Assign) and isinstance(st.targets[0], ast.Name)):
        chk.unsure(oid, 'R3', fn.site(pcall), ast.unparse(pcall)[:80], 'parsed row is not bound to a local name')
        return None
    row = st.targets[0].id
    header = fn.params[1]
    skips = [x for x in ast.walk(loop) if isinstance(x, (ast.Continue, ast.Break))]
    allowed = []
    for n in loop.body:
        if isinstance(n, ast.If) and '%' in ast.unparse(n.test) and 'subsampling' in ast.unparse(n.test):
            allowed += [x for x in ast.walk(n) if isinstance(x, ast.Continue)]
    extra = [x for x in skips if x not in allowed]
    chk.expect(not extra, oid + 's', 'R1', fn.site(extra[0]) if extra else fn.site(loop), f'{len(skips)} continue/break in the streaming loop, {len(allowed)} of them the subsampling rule', 'every selected line reaches the parser and the field-count test',
               'the streaming loop skips lines (continue/break) other than by the subsampling rule, e.g. a pre-check on the raw line: well-formed rows (such as CSV rows with quoted delimiters) never reach the parser and are dropped')
    pa = [ast.unparse(a) for a in pcall.args]
    lv = loop.target.id if isinstance(loop.target, ast.Name) else None
    ok_roles = len(pa) >= 5 and pa[0] == lv and pa[1] in fn.params and pa[3] in fn.params and 'map' in pa[3] and pa[4] == header
    chk.expect(ok_roles, oid + 'p', 'R6', fn.site(pcall), ast.unparse(pcall)[:120], 'the parser receives (line, delimiter, args, namespace map, header) in their roles',
               'generic_line_parser must be called with the current line first, then the delimiter, args, the namespace map and the header')
    # the parsed row must reach the gate and the buffer exactly as the parser returned it
    from ..match import MUTATORS
    touch = []
    for n in ast.walk(loop):
        if n is st:
            continue
        if isinstance(n, (ast.Assign, ast.AugAssign, ast.AnnAssign)):
            tgs = n.targets if isinstance(n, ast.Assign) else [n.target]
            for t in tgs:
                base = t
                while isinstance(base, (ast.Subscript, ast.Attribute)):
                    base = base.value
                if isinstance(base, ast.Name) and base.id == row:
                    touch.append(n)
        if isinstance(n, ast.Call) and isinstance(n.func, ast.Attribute) and isinstance(n.func.value, ast.Name) and n.func.value.id == row and n.func.attr in MUTATORS:
            touch.append(n)
    chk.expect(not touch, oid + 'r', 'origin', fn.site(touch[0]) if touch else fn.site(st), ast.unparse(touch[0])[:120] if touch else f'{row} = generic_line_parser(...)',
               'the row is used exactly as the parser returned it (no padding, truncation or re-binding before the field-count test)',
               'the parsed row is modified (padded / truncated / re-bound) between the parser and the field-count test: a line with the wrong number of fields is accepted with shifted columns instead of being rejected as a whole')
    appends = [c for c in ast.walk(loop) if isinstance(c, ast.Call) and isinstance(c.func, ast.Attribute) and c.func.attr in ('append', 'extend', 'insert', 'appendleft')
               and any(isinstance(a, ast.Name) and a.id == row for a in c.args)]
    if not appends:
        chk.bad(oid, 'R3', fn.site(loop), f'{row} appended to the batch buffer', 'parsed rows never reach the batch buffer')
        return None
    cfg = CFG(fn.node)
    want = [('cmp', '==', a, b) for a, b in [(('call', ('name', 'len'), (('name', row),), ()), ('call', ('name', 'len'), (('name', header),), ()))]]
    want = want + [('cmp', '==', w[3], w[2]) for w in want]
    buffers = set()
    for ap in appends:
        node = cfg.containing(ap)
        guards = [n for n in cfg.nodes if n.kind == 'branch' and n.test is not None and n.ast is not loop and cfg.dominates(n.id, node.id)
                  and any(x is n.ast for x in ast.walk(loop))]
        ok = False
        seen = []
        for g in guards:
            t = term_of(fn, g.test, inline=False)
            seen.append(show(t))
            if g.polarity is True and t in want:
                ok = True
            if g.polarity is False and t[0] == 'cmp' and t[1] == '!=' and ('cmp', '==', t[2], t[3]) in want:
                ok = True
        relevant = [s for s in seen if row in s]
        if isinstance(ap.func.value, ast.Name):
            buffers.add(ap.func.value.id)
        chk.expect(ok, oid, 'R3', fn.site(ap), ast.unparse(ap), 'row enters the batch only under len(row) == len(header)',
                   f'a parsed row must be appended only when len(row) == len(column_descriptions); guards found: {relevant or "none"} - a row with the wrong field count would be shifted into other columns')
    return buffers


# ---------------------------------------------------------------------------
# pair enumeration of get_combinations_from_columns (shared by C06 and C07)
# ---------------------------------------------------------------------------

class Contribution:
    def __init__(self, kind, colset=None, r=None, flt=None, text='', node=None):
        self.kind, self.colset, self.r, self.flt, self.text, self.node = kind, colset, r, flt, text, node

    def __repr__(self):
        parts = [self.kind]
        if self.colset is not None:
            parts.append(f'over {self.colset}')
        if self.r is not None:
            parts.append(f'r={self.r}')
        if self.flt:
            parts.append(f'filter {self.flt}')
        return ' '.join(parts)


class EnumAnalysis:
    """Symbolic walk of the enumeration function: per path, the list of contributions to the returned list."""

    def __init__(self, repo, fn):
        self.repo, self.fn, self.m = repo, fn, fn.module
        self.cols = fn.params[0]
        self.args = fn.params[1]
        self.paths = []     # (conds, contributions, return node)
        self.problems = []
        self._walk(fn.node.body, {}, [], )

    # ---- column sets -------------------------------------------------------
    def colset(self, e, env):
        if isinstance(e, ast.Name):
            if e.id == self.cols:
                return 'ALL'
            if e.id in env and env[e.id][0] == 'set':
                return env[e.id][1]
            return None
        if isinstance(e, ast.Call) and isinstance(e.func, ast.Name) and e.func.id in ('sorted', 'list', 'tuple') and len(e.args) == 1:
            return self.colset(e.args[0], env)
        if isinstance(e, ast.BinOp) and isinstance(e.op, ast.Sub):
            l, r = self._unset(e.left, env), self._unset(e.right, env)
            if l == 'ALL' and r == 'REL':
                return 'NONREL'
            return None
        if isinstance(e, ast.ListComp) and len(e.generators) == 1 and isinstance(e.elt, ast.Name) and isinstance(e.generators[0].target, ast.Name) and e.elt.id == e.generators[0].target.id:
            g = e.generators[0]
            base = self.colset(g.iter, env)
            if base == 'ALL' and len(g.ifs) == 1:
                t = g.ifs[0]
                if isinstance(t, ast.Compare) and len(t.ops) == 1 and isinstance(t.left, ast.Constant) and t.left.value == ' AND_REL ' and isinstance(t.comparators[0], ast.Name) and t.comparators[0].id == g.target.id:
                    return 'REL' if isinstance(t.ops[0], ast.In) else ('NONREL' if isinstance(t.ops[0], ast.NotIn) else None)
            if base is not None and not g.ifs:
                return base
        return None

    def _unset(self, e, env):
        if isinstance(e, ast.Call) and isinstance(e.func, ast.Name) and e.func.id == 'set' and len(e.args) == 1:
            return self.colset(e.args[0], env)
        return self.colset(e, env)

    # ---- contributions -----------------------------------------------------
    def _is_label(self, e):
        return isinstance(e, ast.Attribute) and e.attr == 'label_column' and isinstance(e.value, ast.Name) and e.value.id == self.args

    def contributions(self, e, env):
        """classify a list-valued expression"""
        if isinstance(e, ast.Name) and e.id in env:
            k = env[e.id]
            if k[0] == 'list':
                return list(k[1])
            if k[0] == 'iter':
                return [k[1]]
        if isinstance(e, ast.Call) and isinstance(e.func, ast.Name) and e.func.id in ('list', 'tuple') and len(e.args) == 1:
            return self.contributions(e.args[0], env)
        if isinstance(e, ast.BinOp) and isinstance(e.op, ast.Add):
            return self.contributions(e.left, env) + self.contributions(e.right, env)
        if isinstance(e, (ast.List, ast.Tuple)) and not e.elts:
            return []
        if isinstance(e, ast.Call):
            d = self.m.dotted(e.func)
            if d in ('itertools.combinations_with_replacement', 'itertools.combinations', 'itertools.product', 'itertools.permutations') and e.args:
                cs = self.colset(e.args[0], env)
                r = None
                if len(e.args) > 1:
                    try:
                        from ..model import const_value
                        r = const_value(e.args[1])
                    except ValueError:
                        r = ast.unparse(e.args[1])
                for k in e.keywords:
                    if k.arg in ('r', 'repeat'):
                        r = ast.unparse(k.value)
                kind = {'itertools.combinations_with_replacement': 'cwr', 'itertools.combinations': 'comb', 'itertools.product': 'product', 'itertools.permutations': 'perm'}[d]
                return [Contribution(kind, cs or f'?{ast.unparse(e.args[0])}', r, None, ast.unparse(e), e)]
        if isinstance(e, ast.ListComp) and len(e.generators) == 1:
            g = e.generators[0]
            # filter of an enumerator: [x for x in ENUM if <label in x>]
            if isinstance(e.elt, ast.Name) and isinstance(g.target, ast.Name) and e.elt.id == g.target.id:
                inner = self.contributions(g.iter, env)
                if len(inner) == 1 and inner[0].kind != 'unknown':
                    flt = None
                    if g.ifs:
                        if len(g.ifs) == 1 and self._is_label_in(g.ifs[0], g.target.id):
                            flt = 'label-in-pair'
                        else:
                            flt = 'other:' + ' and '.join(ast.unparse(i) for i in g.ifs)
                    c = inner[0]
                    return [Contribution(c.kind, c.colset, c.r, flt, ast.unparse(e), e)]
            # pairs built from a column loop
            if isinstance(e.elt, ast.Tuple) and len(e.elt.elts) == 2 and isinstance(g.target, ast.Name):
                a, b = e.elt.elts
                cs = self.colset(g.iter, env) or f'?{ast.unparse(g.iter)}'
                v = g.target.id
                flt = ' and '.join(ast.unparse(i) for i in g.ifs) or None
                if isinstance(a, ast.Name) and a.id == v and isinstance(b, ast.Name) and b.id == v:
                    return [Contribution('diag', cs, 2, flt, ast.unparse(e), e)]
                if isinstance(a, ast.Name) and a.id == v and self._is_label(b):
                    return [Contribution('with-label', cs, 2, flt, ast.unparse(e), e)]
                if isinstance(b, ast.Name) and b.id == v and self._is_label(a):
                    return [Contribution('label-with', cs, 2, flt, ast.unparse(e), e)]
        return [Contribution('unknown', None, None, None, ast.unparse(e)[:120], e)]

    def _is_label_in(self, t, var):
        return (isinstance(t, ast.Compare) and len(t.ops) == 1 and isinstance(t.ops[0], ast.In) and self._is_label(t.left)
                and isinstance(t.comparators[0], ast.Name) and t.comparators[0].id == var)

    # ---- walker ------------------------------------------------------------
    def _walk(self, body, env, conds):
        env = dict(env)
        for i, s in enumerate(body):
            if isinstance(s, ast.Expr) and isinstance(s.value, ast.Constant):
                continue
            if isinstance(s, ast.If):
                rest = body[i + 1:]
                for pol, blk in ((True, s.body), (False, s.orelse)):
                    self._walk(list(blk) + list(rest), env, conds + [(s.test, pol)])
                return
            if isinstance(s, ast.Return):
                cs = self.contributions(s.value, env) if s.value is not None else []
                self.paths.append((conds, cs, s))
                return
            if isinstance(s, ast.Assign) and len(s.targets) == 1 and isinstance(s.targets[0], ast.Name):
                name = s.targets[0].id
                cs = self.colset(s.value, env)
                if cs is not None and not (isinstance(s.value, ast.Call) and self.m.dotted(s.value.func, ) and str(self.m.dotted(s.value.func)).startswith('itertools.')):
                    env[name] = ('set', cs)
                    continue
                cons = self.contributions(s.value, env)
                if len(cons) == 1 and cons[0].kind != 'unknown' and isinstance(s.value, ast.Call) and str(self.m.dotted(s.value.func)).startswith('itertools.'):
                    env[name] = ('iter', cons[0])
                else:
                    env[name] = ('list', cons)
                continue
            if isinstance(s, ast.AugAssign) and isinstance(s.target, ast.Name) and isinstance(s.op, ast.Add) and s.target.id in env and env[s.target.id][0] == 'list':
                env[s.target.id] = ('list', list(env[s.target.id][1]) + self.contributions(s.value, env))
                continue
            if isinstance(s, ast.Expr) and isinstance(s.value, ast.Call) and isinstance(s.value.func, ast.Attribute) and s.value.func.attr in ('extend',) \
                    and isinstance(s.value.func.value, ast.Name) and s.value.func.value.id in env and env[s.value.func.value.id][0] == 'list':
                nm = s.value.func.value.id
                env[nm] = ('list', list(env[nm][1]) + self.contributions(s.value.args[0], env))
                continue
            if isinstance(s, ast.Assign) and isinstance(s.targets[0], ast.Attribute):
                continue   # args.combination_number_upper_bound = MAX_FEATURES_3MR (cap clamp)
            from ..match import is_noise_stmt
            if is_noise_stmt(s):
                continue
            self.problems.append((s, f'unrecognised statement in the enumeration: {ast.unparse(s)[:100]}'))
        self.paths.append((conds, [], None))


def enumeration(repo):
    fn = repo.func(CR, 'get_combinations_from_columns')
    return fn, EnumAnalysis(repo, fn)


def path_mode(fn, conds):
    """classify a path of the enumeration by its branch conditions: ('3mr'|'plain', 'target-only'|'pairwise'|None)"""
    mode3 = None
    target = None
    for test, pol in conds:
        txt = ast.unparse(test)
        if "'3mr' in" in txt:
            mode3 = pol
        elif 'target_ranking_only' in txt and "'True'" in txt:
            if isinstance(test, ast.Compare) and isinstance(test.ops[0], ast.Eq):
                target = pol
            elif isinstance(test, ast.Compare) and isinstance(test.ops[0], ast.NotEq):
                target = not pol
    return ('3mr' if mode3 else 'plain' if mode3 is False else None, 'target-only' if target else 'pairwise' if target is False else None)


# ---------------------------------------------------------------------------------------------
# model of mixed_rank_graph: what is returned, per configuration path, written over the parameters
# ---------------------------------------------------------------------------------------------
IE_MOD = 'outrank.algorithms.importance_estimator'
POOL_METHODS = ('amap', 'map', 'imap', 'uimap', 'apipe', 'pipe', 'starmap')


def _heur_pred(e):
    return isinstance(e, ast.Attribute) and e.attr == 'heuristic'


class MRGPath:
    def __init__(self, model, heuristic, assume, res):
        self.model, self.heuristic, self.assume, self.res = model, heuristic, assume, res
        fn = model.fn
        self.rows_expr = None
        r = res.returned
        if isinstance(r, ast.Call) and r.args:
            self.rows_expr = r.args[0]
        elif isinstance(r, ast.Call):
            kw = [k.value for k in r.keywords if k.arg in ('triplet_scores', 'triplets', 'scores')]
            self.rows_expr = kw[0] if kw else None
        self.rows = term_of(fn, self.rows_expr, inline=False) if self.rows_expr is not None else None

    def assumed_empty(self, term) -> bool:
        """the path assumes that `term` (a list) is empty"""
        ln = ('call', ('name', 'len'), (term,), ())
        for test, truth in self.res.assumed:
            t = term_of(self.model.fn, test, inline=False)
            empty_if_true = [('cmp', '==', ('num', 0), ln), ('cmp', '==', ln, ('num', 0)), ('cmp', '<', ln, ('num', 1)), ('cmp', '<=', ln, ('num', 0)), ('not', term)]
            empty_if_false = [('cmp', '!=', ('num', 0), ln), ('cmp', '!=', ln, ('num', 0)), ('cmp', '<', ('num', 0), ln), ('cmp', '<=', ('num', 1), ln), term, ln]
            if (truth and t in empty_if_true) or (not truth and t in empty_if_false):
                return True
        return False

    def describe(self):
        return f"heuristic {self.heuristic!r}" + (', ' + ', '.join(f'{ast.unparse(t)[:40]} is {v}' for t, v in self.assume) if self.assume else '')


class MRGModel:
    """Path evaluation of mixed_rank_graph for a few heuristic names: the rows handed to BatchRankingSummary as one expression over
    the parameters (loops that build lists are summarised as comprehensions, helper calls are expanded, locals substituted)."""

    def __init__(self, repo):
        from ..match import run_paths
        self.repo = repo
        self.fn = repo.func(CR, 'mixed_rank_graph')
        self.m = self.fn.module
        self.paths = []
        self.broken = None
        for h in ('Constant', 'MI-numba-randomized', 'MI', 'surrogate-SGD'):
            ps = run_paths(self.fn, _heur_pred, h, max_forks=4)
            if ps is None:
                self.broken = f'too many configuration tests to fork on for heuristic {h!r}'
                continue
            for assume, res in ps:
                self.paths.append(MRGPath(self, h, assume, res))

    # -- patterns -------------------------------------------------------------------------
    def pat(self, src, holes=()):
        from ..terms import pattern
        return pattern(self.m, src, holes)

    def mirrored(self, rows):
        """R when rows is the flat list of (t[1], t[0], t[2]) and t for every t of R (either order), else None"""
        from ..terms import unify
        for src in ('[x for t in R for x in ((t[1], t[0], t[2]), t)]', '[x for t in R for x in (t, (t[1], t[0], t[2]))]'):
            b = unify(self.pat(src, ['R']), rows)
            if b is not None:
                return b['R']
        return None

    def pool_results(self, term):
        """(pool method, worker term, combinations term) when term is the list of results of one pool submission, else None"""
        from ..terms import unify
        for meth in POOL_METHODS:
            for src in (f'P.{meth}(W, C).get()', f'P.{meth}(W, C)', f'list(P.{meth}(W, C))', f'list(P.{meth}(W, C).get())'):
                b = unify(self.pat(src, ['P', 'W', 'C']), term)
                if b is not None:
                    return meth, b['W'], b['C']
        return None

    def constant_rows(self, rows):
        """C when rows is [(c[0], c[1], 0.0) for c in C]"""
        from ..terms import unify
        b = unify(self.pat('[(c[0], c[1], 0.0) for c in C]', ['C']), rows)
        return b['C'] if b is not None else None

    def sampled(self, comb_term):
        """candidate term when comb_term is prior_combinations_sample(<candidates>, args) (default counter), else None"""
        from ..terms import unify
        args = self.fn.params[1]
        for src in (f'{CR}.prior_combinations_sample(K, {args})',):
            b = unify(self.pat(src, ['K']), comb_term)
            if b is not None:
                return b['K']
        return None

    # -- the worker ------------------------------------------------------------------------
    def submission(self, path):
        """the ast.Call that submits to the pool on this path (found in the returned expression), or None"""
        if path.rows_expr is None:
            return None
        for n in ast.walk(path.rows_expr):
            if isinstance(n, ast.Call) and isinstance(n.func, ast.Attribute) and n.func.attr in POOL_METHODS and len(n.args) >= 2:
                return n
        return None

    def worker_binding(self, path):
        """{parameter of get_importances_estimate_pairwise: ast expression over mixed_rank_graph's parameters}, plus '__elem__': the parameter
        that receives the mapped combination; None when the worker cannot be resolved"""
        from ..match import bind_args, _Subst
        import copy
        sub = self.submission(path)
        if sub is None:
            return None
        target = self.repo.func(IE_MOD, 'get_importances_estimate_pairwise')
        w = sub.args[0]
        env = path.res.env or {}

        def subst(e, drop=()):
            e2 = {k: v for k, v in env.items() if k not in drop}
            return ast.fix_missing_locations(_Subst(e2).visit(copy.deepcopy(e)))
        call, elem = None, None
        if isinstance(w, ast.Name):
            fdef = None
            for n in ast.walk(self.fn.node):
                if isinstance(n, ast.FunctionDef) and n.name == w.id and n is not self.fn.node:
                    fdef = n
            if fdef is None or len(fdef.args.args) != 1:
                return None
            body = [b for b in fdef.body if not (isinstance(b, ast.Expr) and isinstance(b.value, ast.Constant))]
            if len(body) != 1 or not isinstance(body[0], ast.Return) or not isinstance(body[0].value, ast.Call):
                return None
            call, elem = body[0].value, fdef.args.args[0].arg
            if self.m.dotted(call.func) != f'{IE_MOD}.get_importances_estimate_pairwise':
                return None
            ba = bind_args(call, target)
            out = {}
            for k, v in ba.items():
                if isinstance(v, ast.Name) and v.id == elem:
                    out['__elem__'] = k
                    out[k] = v
                else:
                    out[k] = subst(v, drop=(elem,))
            out['__site__'] = call
            return out
        if isinstance(w, ast.Lambda) and len(w.args.args) == 1 and isinstance(w.body, ast.Call) and self.m.dotted(w.body.func) == f'{IE_MOD}.get_importances_estimate_pairwise':
            elem = w.args.args[0].arg
            ba = bind_args(w.body, target)
            out = {k: v for k, v in ba.items()}
            for k, v in ba.items():
                if isinstance(v, ast.Name) and v.id == elem:
                    out['__elem__'] = k
            out['__site__'] = w.body
            return out
        if isinstance(w, ast.Call) and self.m.dotted(w.func) == 'functools.partial' and w.args and self.m.dotted(w.args[0]) == f'{IE_MOD}.get_importances_estimate_pairwise':
            fake = ast.Call(func=w.args[0], args=list(w.args[1:]), keywords=list(w.keywords))
            ba = bind_args(fake, target)
            free = [p for p in target.params if p not in ba]
            out = dict(ba)
            if free:
                out['__elem__'] = free[0]
            out['__site__'] = w
            return out
        return None


_MRG_CACHE = {}


def mrg_model(repo) -> MRGModel:
    k = id(repo)
    if k not in _MRG_CACHE:
        _MRG_CACHE.clear()
        _MRG_CACHE[k] = MRGModel(repo)
    return _MRG_CACHE[k]


def column_coding(repo, fn, frame_expr):
    """How the frame `frame_expr` (an expression over fn's parameters) codes the columns of fn's first parameter.
    Returns (kind, detail): kind in 'category' | 'factorize-sorted' | 'factorize' | 'unknown'."""
    from ..terms import pattern, unify
    m = fn.module
    F = fn.params[0]
    t = term_of(fn, frame_expr, inline=False)
    ctor = None
    for src in ('pandas.DataFrame(D)', 'pandas.DataFrame(D, index=I)', 'pandas.DataFrame(data=D)', 'pandas.DataFrame(D, index=I, columns=Q)'):
        b = unify(pattern(m, src, ['D', 'I', 'Q']), t)
        if b is not None:
            ctor = b
            break
    if ctor is None or ctor['D'][0] != 'dictcomp' or len(ctor['D'][2]) != 1 or ctor['D'][2][0][1]:
        return 'unknown', f'not a frame built column by column from a dict comprehension: {show(t)[:120]}'
    if 'I' in ctor and ctor['I'] != pattern(m, f'{F}.index'):
        return 'unknown', 'index argument is not the index of the input frame'
    pair, gens = ctor['D'][1], ctor['D'][2]
    cols = gens[0][0]
    k = ('cvar', 0, 0)
    if pair[1] != k:
        return 'unknown', 'the key of the dict comprehension is not the column name itself'
    if cols not in (pattern(m, f'{F}.columns'), pattern(m, F), pattern(m, f'list({F}.columns)'), pattern(m, f'{F}.columns.tolist()'), pattern(m, f'{F}.keys()'), pattern(m, f'list({F})')):
        return 'unknown', f'the comprehension does not range over all columns of the input frame: {show(cols)[:80]}'
    v = pair[2]
    P = lambda src: pattern(m, src, [], {'k': k}) if False else __import__('sa.terms', fromlist=['Canon']).Canon(m, None, inline=False, bound={'k': k}).t(ast.parse(src, mode='eval').body)
    cat = [f"{F}.copy().astype('category')[k].cat.codes", f"{F}.astype('category')[k].cat.codes", f"{F}[k].astype('category').cat.codes", f"pandas.Categorical({F}[k]).codes", f"{F}.copy()[k].astype('category').cat.codes",
           f"{F}[k].astype('category').cat.codes.values", f"pandas.Categorical({F}[k].values).codes"]
    fs = [f"pandas.factorize({F}[k], sort=True)[0]", f"{F}[k].factorize(sort=True)[0]"]
    fu = [f"pandas.factorize({F}[k])[0]", f"{F}[k].factorize()[0]"]
    if v in [P(x) for x in cat]:
        return 'category', show(v)[:100]
    if v in [P(x) for x in fs]:
        return 'factorize-sorted', show(v)[:100]
    if v in [P(x) for x in fu]:
        return 'factorize', show(v)[:100]
    return 'unknown', f'column coding not recognised: {show(v)[:120]}'
