"""Obligations shared between properties."""
from __future__ import annotations

import ast

from ..cfg import CFG
from ..match import calls, term_of
from ..model import own_nodes, parents
from ..terms import show

CR = 'outrank.core_ranking'


def streaming_loop(repo):
    """The function and the `for line in <stream>` loop that calls generic_line_parser."""
    fn = repo.func(CR, 'estimate_importances_minibatches')
    for n in own_nodes(fn.node):
        if isinstance(n, ast.For):
            cs = [c for c in ast.walk(n) if isinstance(c, ast.Call) and fn.module.dotted(c.func) == 'outrank.core_utils.generic_line_parser']
            if cs:
                return fn, n, cs[0]
    from ..model import AnalysisError
    raise AnalysisError('streaming loop (for line in stream: ... generic_line_parser(...)) not found in estimate_importances_minibatches')


def field_count_gate(repo, chk, oid):
    """A parsed row is appended to the batch buffer iff len(row) == len(column_descriptions); otherwise it is counted invalid."""
    fn, loop, pcall = streaming_loop(repo)
    par = parents(fn.node)
    st = par.get(pcall)
    while st is not None and not isinstance(st, ast.stmt):
        st = par.get(st)
    if not (isinstance(st, ast.Assign) and isinstance(st.targets[0], ast.Name)):
        chk.unsure(oid, 'R3', fn.site(pcall), ast.unparse(pcall)[:80], 'parsed row is not bound to a local name')
        return None
    row = st.targets[0].id
    header = fn.params[1]
    appends = [c for c in ast.walk(loop) if isinstance(c, ast.Call) and isinstance(c.func, ast.Attribute) and c.func.attr in ('append', 'extend', 'insert', 'appendleft')
               and any(isinstance(a, ast.Name) and a.id == row for a in c.args)]
    if not appends:
        chk.bad(oid, 'R3', fn.site(loop), f'{row} appended to the batch buffer', 'parsed rows never reach the batch buffer')
        return None
    cfg = CFG(fn.node)
    want = [('cmp', '==', a, b) for a, b in [(('call', ('name', 'len'), (('name', row),), ()), ('call', ('name', 'len'), (('name', header),), ()))]]
    want = want + [('cmp', '==', w[3], w[2]) for w in want]
    buffers = set()
    for ap in appends:
        node = cfg.containing(ap)
        guards = [n for n in cfg.nodes if n.kind == 'branch' and n.test is not None and n.ast is not loop and cfg.dominates(n.id, node.id)
                  and any(x is n.ast for x in ast.walk(loop))]
        ok = False
        seen = []
        for g in guards:
            t = term_of(fn, g.test, inline=False)
            seen.append(show(t))
            if g.polarity is True and t in want:
                ok = True
            if g.polarity is False and t[0] == 'cmp' and t[1] == '!=' and ('cmp', '==', t[2], t[3]) in want:
                ok = True
        relevant = [s for s in seen if row in s]
        if isinstance(ap.func.value, ast.Name):
            buffers.add(ap.func.value.id)
        chk.expect(ok, oid, 'R3', fn.site(ap), ast.unparse(ap), 'row enters the batch only under len(row) == len(header)',
                   f'a parsed row must be appended only when len(row) == len(column_descriptions); guards found: {relevant or "none"} - a row with the wrong field count would be shifted into other columns')
    return buffers
