"""Rules shared by C01 / C02 / C03 over outrank/algorithms/feature_ranking/ranking_mi_numba.py."""
from __future__ import annotations

import ast

from .. import kernel
from ..cfg import CFG
from ..match import calls, expected_term, returns, term_of
from ..model import own_nodes, parents
from ..terms import walk_term, show

MI = 'outrank.algorithms.feature_ranking.ranking_mi_numba'
KERNEL_FUNCS = ['numba_unique', 'compute_conditional_entropy', 'compute_entropies', 'stratified_subsampling', 'mutual_info_estimator_numba']


def histogram(repo, chk, oid):
    """numba_unique is a histogram of its argument: container of max(a)+1 zeroed slots, every element increments its own slot by 1,
    values = non-zero slots, counts = container at those slots."""
    fn = repo.func(MI, 'numba_unique')
    m = fn.module
    a = fn.params[0]
    E = lambda s: expected_term(m, s)
    allocs = [n for n in own_nodes(fn.node) if isinstance(n, ast.Assign) and isinstance(n.value, ast.Call) and m.dotted(n.value.func) == 'numpy.zeros' and isinstance(n.targets[0], ast.Name)]
    if len(allocs) != 1:
        chk.unsure(oid + 'a', 'R9', fn.site(), 'container = np.zeros(np.max(a) + 1)', 'histogram container not found')
        return
    cont = allocs[0].targets[0].id
    size = term_of(fn, allocs[0].value.args[0], inline=True)
    chk.expect(size in (E(f'numpy.max({a}) + 1'), E(f'{a}.max() + 1'), E(f'int(numpy.max({a})) + 1')), oid + 'a', 'R9', fn.site(allocs[0]), ast.unparse(allocs[0]), 'one zeroed slot per code 0..max(a)',
               f'the histogram needs max(a)+1 zero-initialised slots indexed by the code itself; found size {show(size)[:80]}')
    loops = [n for n in own_nodes(fn.node) if isinstance(n, ast.For)]
    incs = [n for n in own_nodes(fn.node) if isinstance(n, ast.AugAssign) and isinstance(n.target, ast.Subscript) and isinstance(n.target.value, ast.Name) and n.target.value.id == cont]
    ok = False
    # the loop that fills the histogram: the one that holds the increment of the container
    fill_loops = [lp for lp in loops if incs and any(x is incs[0] for x in ast.walk(lp))]
    if len(fill_loops) >= 1 and len(incs) == 1 and isinstance(fill_loops[-1].target, ast.Name):
        lp, inc = fill_loops[-1], incs[0]
        it = term_of(fn, lp.iter, inline=True)
        slot = term_of(fn, inc.target.slice, inline=True)
        v = lp.target.id
        by_value = it == ('name', a) and slot == ('name', v)                                                        # for val in a: container[val] += 1
        by_index = it in (E(f'range(len({a}))'), E(f'numba.prange(len({a}))'), E(f'range(0, len({a}))'), E(f'range({a}.size)'), E(f'range({a}.shape[0])'), E(f'numba.prange({a}.size)'), E(f'range(0, {a}.size)')) and slot == E(f'{a}[{v}]')    # for i in range(len(a)): container[a[i]] += 1
        ok = (by_value or by_index) and isinstance(inc.op, ast.Add) and isinstance(inc.value, ast.Constant) and inc.value.value == 1 \
            and not any(isinstance(x, (ast.If, ast.Continue, ast.Break)) for x in ast.walk(lp))
    chk.expect(ok, oid + 'b', 'R9', fn.site(incs[0]) if incs else fn.site(), ast.unparse(loops[0]).replace('\n', ' ')[:100] if loops else 'for val in a: container[val] += 1', 'every element increments the slot of its own code by 1',
               'every element of the vector must increment container[<its code>] by exactly 1, unconditionally (the slot index is the code itself: values are read back as slot indices)')
    rets = returns(fn)
    okr = False
    if len(rets) == 1 and isinstance(rets[0].value, ast.Tuple) and len(rets[0].value.elts) == 2:
        def strip(t):
            while t[0] == 'call' and t[1][0] == 'attr' and t[1][2] == 'astype':
                t = t[1][1]
            return t
        v, c = [strip(term_of(fn, x, inline=True)) for x in rets[0].value.elts]
        P = lambda src: term_of(fn, ast.parse(src, mode='eval').body, inline=True)
        for vsrc in (f'np.nonzero({cont})[0]', f'np.flatnonzero({cont})', f'np.where({cont} != 0)[0]', f'np.where({cont} > 0)[0]', f'np.where({cont})[0]'):
            vals = P(vsrc)
            if v == vals and c == ('sub', P(cont), vals):
                okr = True
    if not okr and len(rets) == 1 and isinstance(rets[0].value, ast.Tuple) and len(rets[0].value.elts) == 2:
        verdict = _gather_loop(fn, m, cont, rets[0])
        if verdict == 'ok':
            okr = True
        elif verdict == 'unsure':
            chk.unsure(oid + 'c', 'R9', fn.site(rets[0]), ast.unparse(rets[0]), 'the occupied slots are collected by statements this rule does not recognise (neither np.nonzero(container)[0] / container[...] nor a position-by-position gather over enumerate(container))')
            return
    chk.expect(okr, oid + 'c', 'R9', fn.site(rets[0]) if rets else fn.site(), ast.unparse(rets[0]) if rets else 'return values, counts', 'values = the non-empty slots (ascending), counts = container at those slots',
               'numba_unique must return (np.nonzero(container)[0], container[those slots]) - values are the slot indices, counts the slot contents, in the same order')


def _enumerate_form(fn, m, cont):
    """`for i in range(<number of slots of cont>): .. cont[i] ..`  rewritten as  `for i, __n in enumerate(cont): .. __n ..`  (a copy of the function)"""
    import copy
    from ..model import Func
    node = copy.deepcopy(fn.node)
    size_srcs = {f'len({cont})', f'{cont}.size', f'{cont}.shape[0]'}
    for n in ast.walk(node):
        if isinstance(n, ast.Assign) and len(n.targets) == 1 and isinstance(n.targets[0], ast.Name) and n.targets[0].id == cont and isinstance(n.value, ast.Call) and n.value.args:
            size_srcs.add(ast.unparse(n.value.args[0]))
    changed = False

    class _R(ast.NodeTransformer):
        def __init__(self, i):
            self.i = i

        def visit_Subscript(self, x):
            if isinstance(x.value, ast.Name) and x.value.id == cont and isinstance(x.slice, ast.Name) and x.slice.id == self.i and isinstance(x.ctx, ast.Load):
                return ast.copy_location(ast.Name('__n', ast.Load()), x)
            return self.generic_visit(x)
    for lp in ast.walk(node):
        if isinstance(lp, ast.For) and isinstance(lp.target, ast.Name) and isinstance(lp.iter, ast.Call) and isinstance(lp.iter.func, ast.Name) and lp.iter.func.id == 'range' and len(lp.iter.args) == 1 \
                and ast.unparse(lp.iter.args[0]) in size_srcs:
            i = lp.target.id
            lp.body = [_R(i).visit(b) for b in lp.body]
            lp.target = ast.Tuple([ast.Name(i, ast.Store()), ast.Name('__n', ast.Store())], ast.Store())
            lp.iter = ast.Call(ast.Name('enumerate', ast.Load()), [ast.Name(cont, ast.Load())], [])
            changed = True
    if not changed:
        return None
    ast.fix_missing_locations(node)
    return Func(fn.module, fn.qualname, node, fn.cls, fn.outer)


def _gather_loop(fn, m, cont, ret, _again=True):
    if _again:
        alt = _enumerate_form(fn, m, cont)
        if alt is not None:
            rets = [r for r in ast.walk(alt.node) if isinstance(r, ast.Return)]
            if len(rets) == 1:
                return _gather_loop(alt, m, cont, rets[0], False)
    """'ok' when the returned pair (V, C) is filled by   p = 0; for slot, n in enumerate(container): if n != 0: V[p] = slot; C[p] = n; p += 1
    with V, C allocated with one entry per non-empty slot; 'bad' when such a loop exists but stores something else; 'unsure' otherwise"""
    def base(e):
        while isinstance(e, ast.Call) and isinstance(e.func, ast.Attribute) and e.func.attr == 'astype':
            e = e.func.value
        return e.id if isinstance(e, ast.Name) else None
    V, C = [base(x) for x in ret.value.elts]
    if V is None or C is None or V == C:
        return 'unsure'
    loops = [lp for lp in own_nodes(fn.node) if isinstance(lp, ast.For) and isinstance(lp.iter, ast.Call) and isinstance(lp.iter.func, ast.Name) and lp.iter.func.id == 'enumerate' and len(lp.iter.args) == 1
             and isinstance(lp.iter.args[0], ast.Name) and lp.iter.args[0].id == cont and isinstance(lp.target, ast.Tuple) and len(lp.target.elts) == 2 and all(isinstance(x, ast.Name) for x in lp.target.elts)]
    loops = [lp for lp in loops if any(isinstance(x, ast.Subscript) and isinstance(x.ctx, ast.Store) and isinstance(x.value, ast.Name) and x.value.id in (V, C) for x in ast.walk(lp))] or loops
    if len(loops) != 1:
        return 'unsure'
    lp = loops[0]
    slot, n = lp.target.elts[0].id, lp.target.elts[1].id
    body = [b for b in lp.body if not isinstance(b, ast.Pass)]
    if len(body) != 1 or not isinstance(body[0], ast.If) or body[0].orelse:
        return 'unsure'
    t = term_of(fn, body[0].test, inline=False)
    if t not in (('cmp', '!=', ('name', n), ('num', 0)), ('cmp', '!=', ('num', 0), ('name', n)), ('cmp', '<', ('num', 0), ('name', n)), ('name', n)):
        return 'unsure'
    stores, adv = {}, []
    for b in body[0].body:
        if isinstance(b, ast.Assign) and len(b.targets) == 1 and isinstance(b.targets[0], ast.Subscript) and isinstance(b.targets[0].value, ast.Name) and isinstance(b.targets[0].slice, ast.Name):
            stores[b.targets[0].value.id] = (b.targets[0].slice.id, ast.unparse(b.value))
        elif isinstance(b, ast.AugAssign) and isinstance(b.target, ast.Name) and isinstance(b.op, ast.Add) and isinstance(b.value, ast.Constant) and b.value.value == 1:
            adv.append(b.target.id)
        else:
            return 'unsure'
    if set(stores) != {V, C} or len(adv) != 1 or {stores[V][0], stores[C][0]} != {adv[0]}:
        return 'unsure'
    if stores[V][1] != slot or stores[C][1] != n:
        return 'bad'
    # cursor starts at 0; V, C have one entry per non-empty slot
    p = adv[0]
    init = [x for x in own_nodes(fn.node) if isinstance(x, ast.Assign) and len(x.targets) == 1 and isinstance(x.targets[0], ast.Name) and x.targets[0].id == p]
    if len(init) != 1 or not (isinstance(init[0].value, ast.Constant) and init[0].value.value == 0):
        return 'unsure'
    sizes = set()
    for nm in (V, C):
        al = [x for x in own_nodes(fn.node) if isinstance(x, ast.Assign) and len(x.targets) == 1 and isinstance(x.targets[0], ast.Name) and x.targets[0].id == nm and isinstance(x.value, ast.Call)
              and (m.dotted(x.value.func) or '') in ('numpy.empty', 'numpy.zeros') and x.value.args]
        if len(al) != 1:
            return 'unsure'
        sizes.add(ast.unparse(al[0].value.args[0]))
    if len(sizes) != 1:
        return 'unsure'
    sz = sizes.pop()
    if sz in (f'np.count_nonzero({cont})', f'numpy.count_nonzero({cont})', f'len(np.nonzero({cont})[0])'):
        return 'ok'
    # counted by a loop: k = 0; for c in container: if c != 0: k += 1
    cnt = [lp2 for lp2 in own_nodes(fn.node) if isinstance(lp2, ast.For) and isinstance(lp2.iter, ast.Name) and lp2.iter.id == cont and isinstance(lp2.target, ast.Name)]
    # (the enumerate form of a counting loop: the count is the second target)
    import copy as _copy
    for lp2 in own_nodes(fn.node):
        if isinstance(lp2, ast.For) and isinstance(lp2.iter, ast.Call) and isinstance(lp2.iter.func, ast.Name) and lp2.iter.func.id == 'enumerate' and len(lp2.iter.args) == 1 and isinstance(lp2.iter.args[0], ast.Name) \
                and lp2.iter.args[0].id == cont and isinstance(lp2.target, ast.Tuple) and len(lp2.target.elts) == 2 and all(isinstance(x, ast.Name) for x in lp2.target.elts) \
                and not any(isinstance(x, ast.Name) and x.id == lp2.target.elts[0].id for b in lp2.body for x in ast.walk(b)):
            c2 = _copy.copy(lp2)
            c2.target = lp2.target.elts[1]
            c2.iter = lp2.iter.args[0]
            cnt.append(c2)
    for lp2 in cnt:
        b2 = [b for b in lp2.body if not isinstance(b, ast.Pass)]
        if len(b2) == 1 and isinstance(b2[0], ast.If) and not b2[0].orelse and len(b2[0].body) == 1 and isinstance(b2[0].body[0], ast.AugAssign) and isinstance(b2[0].body[0].target, ast.Name) and b2[0].body[0].target.id == sz \
                and isinstance(b2[0].body[0].value, ast.Constant) and b2[0].body[0].value.value == 1 and term_of(fn, b2[0].test, inline=False) in (('cmp', '!=', ('name', lp2.target.id), ('num', 0)), ('cmp', '<', ('num', 0), ('name', lp2.target.id))):
            return 'ok'
    return 'unsure'


def loop_cursors(repo, chk, oid):
    """A loop-carried variable that is used (as an index / slice bound) outside its own update must be updated on every path of the
    loop body, including `continue` paths: otherwise the iterations after a skipped one read the wrong rows / counts."""
    n_loops = 0
    for name in KERNEL_FUNCS:
        fn = repo.modules[MI].funcs.get(name)
        if fn is None:
            continue
        cfg = None
        for lp in [n for n in own_nodes(fn.node) if isinstance(n, ast.For)]:
            n_loops += 1
            assigned = {}
            for n in ast.walk(lp):
                if n is lp:
                    continue
                if isinstance(n, ast.AugAssign) and isinstance(n.target, ast.Name):
                    assigned.setdefault(n.target.id, []).append(n)
                elif isinstance(n, ast.Assign):
                    for t in n.targets:
                        if isinstance(t, ast.Name):
                            assigned.setdefault(t.id, []).append(n)
            tvars = {x.id for x in ast.walk(lp.target) if isinstance(x, ast.Name)}
            for var, defs in assigned.items():
                if var in tvars:
                    continue
                # initialised before the loop (loop-carried)?
                pre = [n for n in own_nodes(fn.node) if isinstance(n, ast.Assign) and any(isinstance(t, ast.Name) and t.id == var for t in n.targets) and n.lineno < lp.lineno]
                if not pre:
                    continue
                # used outside its own updates, inside the loop, in a position that is read before the (first) update of the iteration?
                uses = []
                lpar = parents(lp)
                for n in ast.walk(lp):
                    if isinstance(n, ast.Name) and n.id == var and isinstance(n.ctx, ast.Load):
                        # only a cursor that positions a *read* (v[cursor]) can make later iterations read the wrong rows / counts;
                        # a fill cursor (buffer[cursor] = ...) is advanced only when something is stored
                        sub = lpar.get(n)
                        while sub is not None and not isinstance(sub, (ast.Subscript, ast.stmt)):
                            sub = lpar.get(sub)
                        if not (isinstance(sub, ast.Subscript) and isinstance(sub.ctx, ast.Load) and any(x is n for x in ast.walk(sub.slice))):
                            continue
                        own_update = any(any(x is n for x in ast.walk(d)) and isinstance(d, ast.AugAssign) for d in defs)
                        # reads inside a plain re-assignment `var = f(var)` count as own update too
                        own_update = own_update or any(any(x is n for x in ast.walk(d.value)) for d in defs if isinstance(d, ast.Assign))
                        if not own_update:
                            uses.append(n)
                if not uses:
                    continue   # pure reduction (e.g. entropy accumulators)
                first_def = min(d.lineno for d in defs)
                if all(u.lineno > first_def for u in uses) and all(isinstance(d, ast.Assign) and var not in {x.id for x in ast.walk(d.value) if isinstance(x, ast.Name)} for d in defs if d.lineno == first_def):
                    continue   # re-defined from scratch at the top of each iteration: not loop-carried
                cfg = cfg or CFG(fn.node)
                head = next(n for n in cfg.nodes if n.kind == 'for' and n.ast is lp)
                body = next(n for n in cfg.nodes if n.kind == 'branch' and n.ast is lp and n.polarity is True)
                defnodes = {cfg.node_of(d).id for d in defs if cfg.node_of(d) is not None}
                ok = cfg.must_pass(body.id, [head.id], lambda n: n.id in defnodes)
                chk.expect(ok, oid, 'R13', fn.site(lp), f'loop-carried cursor {var} (used at line {uses[0].lineno}) in `for {ast.unparse(lp.target)} in {ast.unparse(lp.iter)}`',
                           'the cursor is advanced on every path of the loop body',
                           f'the loop-carried cursor `{var}` is not advanced on every path of the loop body (a `continue`/skip path bypasses its update): the iterations after a skipped one read the rows / counts of the wrong stratum or class')
    chk.analysed['kernel_loops'] = n_loops


def summary_obligations(repo, chk, corrected, oid, report_kinds):
    m = repo.mod(MI)
    fn = repo.func(MI, 'mutual_info_estimator_numba')
    try:
        I, nratio, cs = kernel.summarise(m, corrected)
    except kernel.Unknown as u:
        node = getattr(u, 'node', None)
        I = getattr(u, 'interp', None)
        reported = _report_defects(chk, m, I, oid, report_kinds) if I is not None else 0
        if not reported:
            chk.unsure(oid, 'R9', f'{m.relpath}:{getattr(node, "lineno", 0)} <kernel>', ast.unparse(node)[:100] if node is not None else 'kernel', f'operation outside the kind vocabulary: {u}')
        return None
    label = 'H(Y*|X) - H(Y|X)' if corrected else 'H(Y) - H(Y|X)'
    chk.extra.setdefault('kernel_summary', {})['corrected' if corrected else 'plain'] = [c.render() for c in cs]
    chk.analysed['kernel_divisions'] = I.divisions
    chk.analysed['kernel_logs'] = I.log_calls
    _report_defects(chk, m, I, oid, report_kinds)
    want = kernel.expected(corrected)
    msgs = []
    for pi, (nr, pcs) in enumerate(getattr(I, 'paths', [(nratio, cs)])):
        pm = kernel.diff(kernel.drop_harmless_guards(pcs, corrected), want)
        if pm and not corrected:
            # plug-in MI is symmetric: H(X) - H(X|Y) is the same quantity (the corrected score is not symmetric)
            pm2 = kernel.diff(kernel.drop_harmless_guards(pcs, corrected), kernel.expected(False, swapped=True))
            if not pm2:
                pm = []
        if pm:
            msgs = [f'(path {pi + 1} of {len(I.paths)} through the entry point) ' + x for x in pm] if len(getattr(I, 'paths', [])) > 1 else pm
            cs, nratio = pcs, nr
            break
    # defects already explain a mismatch; report the structural difference as well (it names the clause)
    if msgs:
        chk.bad(f'{oid}-sum', 'R9', fn.site(), ' ; '.join(c.render() for c in cs)[:400], f'the kernel does not compute {label}: ' + ' ; '.join(msgs)[:600])
    else:
        chk.ok(f'{oid}-sum', 'R9', fn.site(), ' ; '.join(c.render() for c in cs)[:600], f'signed sum of p*log p contributions equals {label} (proper probabilities, complete index domains, whitelisted skip guards only)', inspected=len(cs) + I.divisions + I.log_calls)
    chk.expect(nratio == 1, f'{oid}-ratio', 'R9', fn.site(), f'{nratio} factor(s) approximation_factor in the returned product', 'the combination is multiplied by nothing but approximation_factor (once)',
               'the returned value must be approximation_factor * (entropy combination), with the factor exactly once')
    chk.require_count('np.log calls interpreted in the kernel', I.log_calls, 2)
    chk.require_count('divisions interpreted in the kernel', I.divisions, 3)
    return I, cs


def _only_summaries_compared(t):
    """the predicate reads the two vectors ONLY through order-insensitive summaries (histograms, sorted copies): with the summary calls cut out,
    neither vector is left in the term"""
    def is_summary(x):
        return isinstance(x, tuple) and len(x) >= 2 and x[0] == 'call' and isinstance(x[1], tuple) and (
            (x[1][0] == 'lib' and (str(x[1][1]).endswith('.numba_unique') or str(x[1][1]) in ('numpy.unique', 'numpy.bincount', 'numpy.sort', 'numpy.histogram', 'collections.Counter')))
            or x[1] == ('name', 'sorted'))
    found = [False]

    def cut(x):
        if is_summary(x):
            found[0] = True
            return ('summary',)
        if isinstance(x, tuple):
            return tuple(cut(y) for y in x)
        return x
    rest = cut(t)
    left = any(y in (('role', 'X'), ('role', 'Y')) for y in _walk_terms(rest))
    return found[0] and not left


def labelling_obligations(repo, chk, oid):
    """For the relabelling property: the kernel summary (both the plain and the corrected path) must be a sum over VALUE domains in which codes are
    only compared with codes of the same vector and tables are read at the position of their own value.  Reported: the defect kinds that make the
    result depend on the numeric codes or on their order (a table read at another vector's / a stale position, codes compared with positions,
    counts stored at another slot, an incomplete value domain).  A kernel the interpreter cannot read is an abstention, not a silent pass -
    the use-restriction rules alone do not see a mis-aligned table."""
    m = repo.mod(MI)
    kinds = {'badindex', 'badcount', 'badstore', 'badrange'}
    n_ok = 0
    for corrected in (False, True):
        try:
            I, nratio, cs = kernel.summarise(m, corrected)
        except kernel.Unknown as u:
            node = getattr(u, 'node', None)
            I = getattr(u, 'interp', None)
            reported = _report_defects(chk, m, I, oid, kinds) if I is not None else 0
            if not reported:
                chk.unsure(oid, 'R9', f'{m.relpath}:{getattr(node, "lineno", 0)} <kernel>', ast.unparse(node)[:100] if node is not None else 'kernel',
                           f'the kernel applies an operation outside the kind vocabulary ({u}): that values, counts and joint counts stay aligned by value (not by code or position) is not decided')
            return
        if _report_defects(chk, m, I, oid, kinds):
            return
        n_ok += 1
    chk.ok(oid, 'R9', m.relpath, 'kernel summary, plain and corrected path', 'every table of the kernel is read at the position of its own value and codes are compared with codes of the same vector only')


def _report_defects(chk, m, I, oid, report_kinds):
    seen = set()
    for kind, node, text in I.defects:
        if kind not in report_kinds:
            continue
        key = (kind, getattr(node, 'lineno', 0), text)
        if key in seen:
            continue
        seen.add(key)
        owner = _owner(m, node)
        chk.bad(f'{oid}-{kind}', 'R9', f'{m.relpath}:{getattr(node, "lineno", 0)} {owner}', ast.unparse(node).replace('\n', ' ')[:140], text)
    return len(seen)


def _owner(m, node):
    best = '<module>'
    for q, f in m.funcs.items():
        if getattr(node, 'lineno', 0) and f.node.lineno <= node.lineno <= (f.node.end_lineno or 0):
            best = q
    return best


def decorators(repo, chk, oid):
    """The four scoring kernels are compiled with boundscheck=True (an out-of-range index raises instead of reading foreign memory)."""
    for name in ('numba_unique', 'compute_conditional_entropy', 'compute_entropies', 'mutual_info_estimator_numba'):
        fn = repo.func(MI, name)
        info = fn.decorator_info()
        kw = info[0][1] if info else {}
        bc = kw.get('boundscheck')
        par = kw.get('parallel')
        ok = isinstance(bc, ast.Constant) and bc.value is True and not (isinstance(par, ast.Constant) and par.value is True)
        chk.expect(ok, oid, 'R8', fn.site(), f'@njit(... boundscheck={ast.unparse(bc) if bc is not None else "absent"}, parallel={ast.unparse(par) if par is not None else "absent"})',
                   'bounds checked, sequential reductions', 'the kernel must keep boundscheck=True and must not be parallel (prange reductions on plain scalars are only correct sequentially)')


# ---------------------------------------------------------------------------
# self-pair ("diagonal") test: element-wise / reduction domain
# ---------------------------------------------------------------------------

def self_pair_test(repo, chk, oid):
    """The predicate that switches the correction off must be an exact identity test of the two vectors, and nothing else
    may change the flag."""
    fn = repo.func(MI, 'mutual_info_estimator_numba')
    m = fn.module
    Yp, Xp, rp, flag = fn.params[:4]
    sets = [n for n in own_nodes(fn.node) if isinstance(n, (ast.Assign, ast.AugAssign)) and any(isinstance(t, ast.Name) and t.id == flag for t in (n.targets if isinstance(n, ast.Assign) else [n.target]))]
    par = parents(fn.node)
    E = lambda s: expected_term(m, s, {'X': ('role', 'X'), 'Y': ('role', 'Y')})
    if not sets:
        # decided on paths: wherever compute_entropies is called, the correction argument is False on the paths that assumed the exact identity
        # test to hold, and the caller's flag on the paths that assumed it not to hold
        from ..match import run_paths
        from ..terms import Canon, Scope
        cn = Canon(m, Scope(None))
        ps = run_paths(fn, None, None, max_forks=4)
        verdicts = []
        for _a, res in (ps or []):
            if res.unknown is not None or res.returned is None:
                verdicts = None
                break
            ces = [x for x in ast.walk(res.returned) if isinstance(x, ast.Call) and m.dotted(x.func) == f'{MI}.compute_entropies']
            ces += [x for c in res.calls for x in ast.walk(c['call']) if isinstance(x, ast.Call) and m.dotted(x.func) == f'{MI}.compute_entropies']
            ces += [x for v_ in (res.env or {}).values() if v_ is not None for x in ast.walk(v_) if isinstance(x, ast.Call) and m.dotted(x.func) == f'{MI}.compute_entropies']
            ident = None
            if ces and len(ces[0].args) >= 2:
                # the two vectors the entropies are computed on (the sample, when the path sampled) are the ones the identity test must compare
                tX, tY = term_of(fn, ces[0].args[0], inline=True), term_of(fn, ces[0].args[1], inline=True)

                def roles(t):
                    if t == tX:
                        return ('role', 'X')
                    if t == tY:
                        return ('role', 'Y')
                    if isinstance(t, tuple):
                        return tuple(roles(x) for x in t)
                    return t
                for t_ast, v in res.assumed:
                    tt = roles(term_of(fn, t_ast, inline=True))
                    if is_exact_identity(tt, E, repo):
                        ident = v
                    elif is_exact_identity(cn._not(tt), E, repo):
                        ident = not v
            if not ces or ident is None:
                verdicts = None
                break
            for c in ces:
                a5 = c.args[5] if len(c.args) > 5 else next((k.value for k in c.keywords if k.arg == 'cardinality_correction'), None)
                ok5 = a5 is not None and ((ident and isinstance(a5, ast.Constant) and a5.value is False) or (not ident and isinstance(a5, ast.Name) and a5.id == flag))
                verdicts.append((ok5, c, ident))
        if verdicts:
            bad5 = [v for v in verdicts if not v[0]]
            if not bad5:
                chk.ok(oid + 'a', 'identity-test', fn.site(), f'{len(verdicts)} call(s) of compute_entropies on {len(ps)} path(s)', 'the correction is off exactly on the paths where the two vectors are identical (exact element-wise identity test), the requested flag elsewhere')
            else:
                _ok, c, ident = bad5[0]
                chk.bad(oid + 'a', 'identity-test', fn.site(c) if hasattr(c, 'lineno') else fn.site(), ast.unparse(c)[:120], f'on the path where the vectors are {"identical" if ident else "not identical"} compute_entropies does not receive {"False" if ident else "the requested flag"} as its correction argument')
            return
        # alternative shape: the flag handed to compute_entropies is `flag and not <identity predicate>`
        ce = [c for c in calls(fn) if m.dotted(c.func) == f'{MI}.compute_entropies']
        arg5 = (ce[0].args[5] if len(ce[0].args) > 5 else next((k.value for k in ce[0].keywords if k.arg == 'cardinality_correction'), None)) if ce else None
        t = term_of(fn, arg5, {Xp: ('role', 'X'), Yp: ('role', 'Y')}, inline=True) if arg5 is not None else None
        if t is not None and t[0] == 'and' and ('name', flag) in t[1] and len(t[1]) == 2:
            other = [x for x in t[1] if x != ('name', flag)][0]
            from ..terms import Canon, Scope
            neg = Canon(m, Scope(None))._not(other)
            if is_exact_identity(neg, E, repo):
                chk.ok(oid + 'a', 'identity-test', fn.site(ce[0]), ast.unparse(arg5), 'the correction is on iff requested and the vectors are not identical (exact element-wise identity test)')
                return
            chk.unsure(oid + 'a', 'identity-test', fn.site(ce[0]), ast.unparse(arg5), 'cannot classify the predicate combined with the correction flag')
            return
        chk.bad(oid + 'a', 'identity-test', fn.site(), f'if <X identical to Y>: {flag} = False', 'a feature scored against itself no longer switches the correction off (its score would not be its entropy)')
        return
    exact = _exact_forms(E)
    for a, b in ():
        d = f'({a} - {b})'
        exact += [E(f'numpy.array_equal({a}, {b})'), E(f'numpy.array_equiv({a}, {b})'), E(f'numpy.all({a} == {b})'), E(f'({a} == {b}).all()'), E(f'not numpy.any({a} != {b})'), E(f'not ({a} != {b}).any()'),
                  E(f'numpy.count_nonzero({a} != {b}) == 0'), E(f'numpy.count_nonzero({d}) == 0'), E(f'numpy.sum({a} != {b}) == 0'), E(f'numpy.sum(numpy.abs({d})) == 0'), E(f'numpy.max(numpy.abs({d})) == 0'),
                  E(f'numpy.sum({d} ** 2) == 0'), E(f'numpy.sum({d} * {d}) == 0'), E(f'not numpy.any({d})'), E(f'numpy.sum({a} == {b}) == len({a})'), E(f'numpy.count_nonzero({a} == {b}) == len({a})')]
    for s in sets:
        g = par.get(s)
        if not (isinstance(s, ast.Assign) and isinstance(s.value, ast.Constant) and s.value.value is False and isinstance(g, ast.If) and s in g.body and not g.orelse):
            chk.bad(oid + 'b', 'identity-test', fn.site(s), ast.unparse(s), f'the correction flag is changed other than by `if <identical>: {flag} = False`: the correction no longer applies exactly to non-identical pairs')
            continue
        t = term_of(fn, g.test, {Xp: ('role', 'X'), Yp: ('role', 'Y')}, inline=True)
        # `if flag and <identical>: flag = False` switches the flag off in exactly the same cases as `if <identical>: flag = False`
        if t[0] == 'and' and ('name', flag) in t[1] and len(t[1]) == 2:
            t = [x for x in t[1] if x != ('name', flag)][0]
        if is_exact_identity(t, E, repo):
            chk.ok(oid + 'a', 'identity-test', fn.site(g), ast.unparse(g.test), 'exact element-wise identity test (no cancelling reduction, no arithmetic on codes that could cancel)')
            continue
        txt = show(t)
        # classify inexact forms: a reduction that can cancel, or equality of two separate reductions
        signed_diff = any(isinstance(x, tuple) and x and x[0] == '+' and ('role', 'X') in _leaves(x) and ('role', 'Y') in _leaves(x) for x in _walk_terms(t))
        two_reductions = t[0] == 'cmp' and t[1] == '==' and _is_reduction_of(t[2], 'X', 'Y') and _is_reduction_of(t[3], 'X', 'Y')
        if 'numpy.sum' in txt and signed_diff and 'abs' not in txt and '**' not in txt or two_reductions or 'numpy.mean' in txt:
            chk.bad(oid + 'a', 'identity-test', fn.site(g), ast.unparse(g.test), 'the self-pair test is a reduction that can cancel (equal sums / histograms do not imply identical vectors): two different vectors whose codes merely add up to the same total lose the correction, and the outcome depends on the numeric codes')
        elif any(isinstance(x, tuple) and x and x[0] == 'cmp' and x[1] in ('<', '<=') for x in _walk_terms(t)):
            chk.bad(oid + 'a', 'identity-test', fn.site(g), ast.unparse(g.test), 'the self-pair test uses an inequality / tolerance: non-identical vectors are treated as a self-pair')
        elif _only_summaries_compared(t):
            chk.bad(oid + 'a', 'identity-test', fn.site(g), ast.unparse(g.test), 'the self-pair test compares order-insensitive summaries of the two vectors (their histograms / sorted values), not the vectors: every '
                    'permutation of a vector has the same histogram, so two different vectors are treated as a self-pair and lose the cardinality correction')
        else:
            why_partial = None
            for x in _walk_terms(t):
                if isinstance(x, tuple) and len(x) >= 2 and x[0] == 'call' and isinstance(x[1], tuple) and x[1][0] == 'lib' and str(x[1][1]).startswith(m.name + '.'):
                    why_partial = why_partial or partial_equality_helper(m.funcs.get(str(x[1][1]).split('.')[-1]))
            if why_partial:
                chk.bad(oid + 'a', 'identity-test', fn.site(g), ast.unparse(g.test), why_partial)
            else:
                chk.unsure(oid + 'a', 'identity-test', fn.site(g), ast.unparse(g.test), f'cannot classify the self-pair predicate as exact or inexact: {txt[:140]}')


def _walk_terms(t):
    yield t
    if isinstance(t, tuple):
        for x in t:
            if isinstance(x, tuple):
                yield from _walk_terms(x)


def _leaves(t):
    return {x for x in _walk_terms(t) if isinstance(x, tuple) and len(x) == 2 and x[0] == 'role'}


def _is_reduction_of(t, a, b):
    lv = _leaves(t)
    return t[0] == 'call' and len(lv) == 1 and (('role', a) in lv or ('role', b) in lv)


# ---------------------------------------------------------------------------
# codes are opaque (C02.1): use restriction on code-valued expressions
# ---------------------------------------------------------------------------

CODE_PARAMS = {
    'numba_unique': [0],
    'compute_conditional_entropy': [0, 1],
    'compute_entropies': [0, 1, 3],
    'stratified_subsampling': [0, 1, 3],
    'mutual_info_estimator_numba': [0, 1],
}
ALLOWED_CALLS = {'len', 'numpy.where', 'numpy.count_nonzero', 'numpy.nonzero', 'numpy.array_equal', 'numpy.array_equiv', 'numpy.all', 'numpy.any', 'enumerate', 'numpy.unique', 'numpy.sum',
                 'numpy.zeros_like', 'numpy.copy', 'numpy.asarray', 'numpy.ascontiguousarray'}


def _local_codes(fn, m, seed):
    codes = set(seed)
    changed = True
    while changed:
        changed = False
        for n in own_nodes(fn.node):
            new = set()
            if isinstance(n, ast.Assign):
                if len(n.targets) == 1 and isinstance(n.targets[0], ast.Name) and _is_code(n.value, codes, m):
                    new.add(n.targets[0].id)
                if len(n.targets) == 1 and isinstance(n.targets[0], ast.Tuple) and isinstance(n.value, ast.Call):
                    d = m.dotted(n.value.func) or ''
                    if d.endswith('.numba_unique') and n.value.args and _is_code(n.value.args[0], codes, m) and isinstance(n.targets[0].elts[0], ast.Name):
                        new.add(n.targets[0].elts[0].id)
                    if d.endswith('.stratified_subsampling'):
                        new |= {e.id for e in n.targets[0].elts if isinstance(e, ast.Name)}
                if len(n.targets) == 1 and isinstance(n.targets[0], ast.Subscript) and isinstance(n.targets[0].value, ast.Name) and _is_code(n.value, codes, m):
                    new.add(n.targets[0].value.id)
            elif isinstance(n, ast.For):
                it = n.iter
                if _is_code(it, codes, m) and isinstance(n.target, ast.Name):
                    new.add(n.target.id)
                if isinstance(it, ast.Call) and isinstance(it.func, ast.Name) and it.func.id == 'enumerate' and it.args and _is_code(it.args[0], codes, m) and isinstance(n.target, ast.Tuple) and isinstance(n.target.elts[1], ast.Name):
                    new.add(n.target.elts[1].id)
                # for v, n in zip(values, counts): the element of a code array is a code
                if isinstance(it, ast.Call) and isinstance(it.func, ast.Name) and it.func.id == 'zip' and isinstance(n.target, ast.Tuple) and len(n.target.elts) == len(it.args):
                    for a_, t_ in zip(it.args, n.target.elts):
                        if _is_code(a_, codes, m) and isinstance(t_, ast.Name):
                            new.add(t_.id)
            if new - codes:
                codes |= new
                changed = True
    return codes


def _code_params(repo, m):
    """which parameters of the kernel functions carry category codes: the two vectors of the entry point, and whatever the call sites inside the
    module hand on (by position or by keyword) - so that a changed signature does not shift the table"""
    out = {}
    entry = m.funcs.get('mutual_info_estimator_numba')
    if entry is not None and len(entry.params) >= 2:
        out['mutual_info_estimator_numba'] = set(entry.params[:2])
    if 'numba_unique' in m.funcs and m.funcs['numba_unique'].params:
        out['numba_unique'] = {m.funcs['numba_unique'].params[0]}
    called = set()
    for _ in range(6):
        grew = False
        for fname in list(out) + [q for q in called if q not in out]:
            out.setdefault(fname, set())
            fn = m.funcs.get(fname)
            if fn is None:
                continue
            codes = _local_codes(fn, m, out[fname])
            for c in calls(fn):
                d = m.dotted(c.func) or ''
                callee = m.funcs.get(d.split('.')[-1]) if d.startswith(m.name + '.') else None
                if callee is None:
                    continue
                called.add(callee.qualname)
                ps = callee.params
                hit = {ps[i] for i, a_ in enumerate(c.args) if i < len(ps) and _is_code(a_, codes, m)} | {k.arg for k in c.keywords if k.arg in ps and _is_code(k.value, codes, m)}
                if hit - out.get(callee.qualname, set()):
                    out.setdefault(callee.qualname, set()).update(hit)
                    grew = True
        if not grew:
            break
    # functions no call site reaches from the entry point keep the confirmed positions (when the signature still has them)
    for fname, idxs in CODE_PARAMS.items():
        if fname not in out and fname not in called and fname in m.funcs:
            out[fname] = {m.funcs[fname].params[i] for i in idxs if i < len(m.funcs[fname].params)}
    return out


def code_uses(repo, chk, oid):
    """Inside the kernel, code vectors and value arrays flow only into ==/!= against codes, the histogram, and positional
    operations.  Arithmetic, ordering comparisons or hashing of a code is a violation: an injective relabelling changes it."""
    m = repo.mod(MI)
    n_uses = 0
    code_params = _code_params(repo, m)
    for fname in list(CODE_PARAMS) + [q for q in code_params if q not in CODE_PARAMS]:
        if fname not in m.funcs:
            continue
        fn = repo.func(MI, fname)
        par = parents(fn.node)
        codes = set(code_params.get(fname, set()))
        # propagate
        changed = True
        while changed:
            changed = False
            for n in own_nodes(fn.node):
                new = set()
                if isinstance(n, ast.Assign):
                    if len(n.targets) == 1 and isinstance(n.targets[0], ast.Name) and _is_code(n.value, codes, m):
                        new.add(n.targets[0].id)
                    if len(n.targets) == 1 and isinstance(n.targets[0], ast.Tuple) and isinstance(n.value, ast.Call):
                        d = m.dotted(n.value.func) or ''
                        if d.endswith('.numba_unique') and n.value.args and _is_code(n.value.args[0], codes, m) and isinstance(n.targets[0].elts[0], ast.Name):
                            new.add(n.targets[0].elts[0].id)
                        if d.endswith('.stratified_subsampling'):
                            for e in n.targets[0].elts:
                                if isinstance(e, ast.Name):
                                    new.add(e.id)
                    # arr[i] = <code>  makes arr code-valued
                    if len(n.targets) == 1 and isinstance(n.targets[0], ast.Subscript) and isinstance(n.targets[0].value, ast.Name) and _is_code(n.value, codes, m):
                        new.add(n.targets[0].value.id)
                elif isinstance(n, ast.For):
                    it = n.iter
                    if _is_code(it, codes, m) and isinstance(n.target, ast.Name):
                        new.add(n.target.id)
                    if isinstance(it, ast.Call) and isinstance(it.func, ast.Name) and it.func.id == 'enumerate' and it.args and _is_code(it.args[0], codes, m) and isinstance(n.target, ast.Tuple) and isinstance(n.target.elts[1], ast.Name):
                        new.add(n.target.elts[1].id)
                if new - codes:
                    codes |= new
                    changed = True
        # the self-pair predicate compares the two vectors with each other by definition (classified by the identity-test rule)
        exempt = set()
        if fname == 'mutual_info_estimator_numba' and len(fn.params) > 3:
            for g in own_nodes(fn.node):
                if isinstance(g, ast.If) and any(isinstance(b, ast.Assign) and any(isinstance(t, ast.Name) and t.id == fn.params[3] for t in b.targets) for b in g.body):
                    exempt |= {id(x) for x in ast.walk(g.test)}
        # uses
        for n in own_nodes(fn.node):
            if id(n) in exempt:
                continue
            if isinstance(n, ast.Name) and n.id in codes and isinstance(n.ctx, ast.Load):
                top = n
                p = par.get(top)
                # climb through subscripts of the code array (element / gather reads) and astype
                while True:
                    if isinstance(p, ast.Subscript) and p.value is top:
                        top, p = p, par.get(p)
                        continue
                    if isinstance(p, ast.Attribute) and p.attr == 'astype' and isinstance(par.get(p), ast.Call):
                        top = par.get(p)
                        p = par.get(top)
                        continue
                    break
                n_uses += 1
                site = fn.site(n)
                if isinstance(p, ast.BinOp):
                    if _sizes_or_indexes(p, par, m):
                        # <largest code> + 1 as the size of a table indexed by the code, or a code used as a position: an order embedding, not a use of the numeric value
                        continue
                    chk.bad(oid, 'use-restriction', site, ast.unparse(p)[:100], f'arithmetic on category codes ({ast.unparse(p)[:60]}): an injective relabelling of the codes changes its outcome')
                elif isinstance(p, ast.Compare) and all(isinstance(o, (ast.Eq, ast.NotEq)) for o in p.ops):
                    # codes are compared with codes: a loop POSITION (for i in range(..)) is not a code, although both are integers
                    range_vars = {lp.target.id for lp in own_nodes(fn.node) if isinstance(lp, ast.For) and isinstance(lp.target, ast.Name) and isinstance(lp.iter, ast.Call)
                                  and (m.dotted(lp.iter.func) or ast.unparse(lp.iter.func)) in ('range', 'numba.prange', 'prange')}
                    others = [x for x in [p.left] + list(p.comparators) if x is not top and x is not n]
                    for o_ in others:
                        if isinstance(o_, ast.Name) and o_.id in range_vars and o_.id not in codes:
                            chk.bad(oid, 'use-restriction', site, ast.unparse(p)[:100], f'category codes are compared with the loop position `{o_.id}` (an index into the table of values, not a value): the comparison is right only when the codes '
                                    'happen to be 0..k-1 in order, so relabelling the codes changes the counts')
                elif isinstance(p, ast.Compare):
                    if any(isinstance(o, (ast.Lt, ast.LtE, ast.Gt, ast.GtE)) for o in p.ops):
                        # a bounds check against the size of a table that is indexed by the code (code < len(table) / code < <largest code> + 1):
                        # the same order embedding as the table itself, not a comparison of two codes
                        others = [x for x in [p.left] + list(p.comparators) if x is not top and x is not n]
                        def is_size(x, depth=0):
                            if depth > 3:
                                return False
                            if isinstance(x, ast.Call) and isinstance(x.func, ast.Name) and x.func.id == 'len':
                                return True
                            if isinstance(x, ast.Attribute) and x.attr in ('size',):
                                return True
                            if isinstance(x, ast.Name):
                                ds = [d for d in own_nodes(fn.node) if isinstance(d, ast.Assign) and len(d.targets) == 1 and isinstance(d.targets[0], ast.Name) and d.targets[0].id == x.id]
                                return len(ds) == 1 and (is_size(ds[0].value, depth + 1) or (isinstance(ds[0].value, ast.BinOp) and _sizes_or_indexes(ds[0].value, par, m, depth + 1)))
                            return False
                        if len(others) == 1 and is_size(others[0]):
                            continue
                        # a sign test (code >= 0, code < 0): a check that the value is in the domain of codes at all (non-negative integers by
                        # the statement), the same under every relabelling within that domain
                        if len(others) == 1 and isinstance(others[0], ast.Constant) and others[0].value == 0 and not isinstance(others[0].value, bool):
                            continue
                        # an ordering of codes that SELECTS rows / counts them (a mask, np.where, count_nonzero) makes the result depend on the labelling for sure;
                        # one that only steers a search / sort over the table of distinct values (binary search, merge) need not: the slot found is the slot of
                        # the equal value whatever the order - not decided here
                        anc, q_ = [], p
                        while q_ in par and not isinstance(q_, ast.stmt):
                            q_ = par[q_]
                            anc.append(q_)
                        selects = any((isinstance(a_, ast.Call) and (m.dotted(a_.func) or '').split('.')[-1] in ('where', 'count_nonzero', 'sum', 'nonzero', 'flatnonzero', 'argwhere', 'extract', 'compress', 'select'))
                                      or isinstance(a_, ast.Subscript) for a_ in anc)
                        in_search = isinstance(anc[-1] if anc else None, (ast.While, ast.If)) and any(isinstance(w_, ast.While) for w_ in _enclosing(par, p))
                        if selects or not in_search:
                            chk.bad(oid, 'use-restriction', site, ast.unparse(p)[:100], 'ordering comparison on category codes: an order-reversing relabelling changes its outcome')
                        else:
                            chk.unsure(oid, 'use-restriction', site, ast.unparse(p)[:100], 'an ordering comparison of category codes steers a search loop (while ...): whether what the loop finds is the same under every '
                                       'relabelling (as it is for a binary search of a value in the sorted table of distinct values) is not decided')
                elif isinstance(p, ast.Call):
                    d = m.dotted(p.func) or ''
                    if d in ('hash',) or d.startswith('xxhash') or d.endswith('.hash'):
                        chk.bad(oid, 'use-restriction', site, ast.unparse(p)[:100], 'hash of a category code')
                    elif d in ('numpy.count_nonzero', 'numpy.sum', 'numpy.any', 'numpy.all', 'numpy.prod', 'numpy.mean', 'numpy.nonzero', 'numpy.flatnonzero', 'bool') and top in p.args and fname != 'numba_unique':
                        chk.bad(oid, 'use-restriction', site, ast.unparse(p)[:100], f'{d.split(".")[-1]} applied directly to category codes uses their numeric value (zero / non-zero, magnitude): relabelling the codes changes the result')
                    elif fname == 'numba_unique' and d in ('numpy.max',):
                        pp = par.get(p)
                        # histogram sizing np.max(a) + 1: the one whitelisted arithmetic (C01.1 establishes the histogram)
                        if isinstance(pp, ast.BinOp) and not (isinstance(pp.op, ast.Add) and isinstance(pp.right, ast.Constant) and pp.right.value == 1 and isinstance(par.get(pp), ast.Call) and m.dotted(par.get(pp).func) == 'numpy.zeros') \
                                and not (isinstance(pp.op, ast.Add) and isinstance(pp.right, ast.Constant) and pp.right.value == 1 and _sizes_or_indexes(pp, par, m)):
                            chk.bad(oid, 'use-restriction', site, ast.unparse(pp)[:100], 'arithmetic on the largest code outside the histogram sizing max(a)+1')
                    elif d in ('numpy.min', 'numpy.max', 'numpy.argmax', 'numpy.argmin', 'numpy.sort', 'numpy.argsort', 'numpy.searchsorted', 'numpy.bincount', 'numpy.mean', 'numpy.median', 'numpy.diff', 'numpy.cumsum'):
                        if d in ('numpy.mean', 'numpy.median', 'numpy.diff', 'numpy.cumsum'):
                            chk.bad(oid, 'use-restriction', site, ast.unparse(p)[:100], f'{d} of category codes is arithmetic on the codes')
                        elif isinstance(par.get(p), (ast.BinOp,)) and not (fname == 'numba_unique'):
                            if _sizes_or_indexes(par.get(p), par, m):
                                continue
                            if d in ('numpy.searchsorted', 'numpy.argsort', 'numpy.argmax', 'numpy.argmin'):
                                # arithmetic on *positions* (e.g. the difference of two insertion points is a count): whether the counts are
                                # taken per class in a relabelling-invariant way is not decided by this rule
                                chk.unsure(oid, 'use-restriction', site, ast.unparse(par.get(p))[:100], 'arithmetic on positions obtained from an ordering of the codes: not classified (a difference of insertion points is a count, which does not depend on the codes; other uses do)')
                            else:
                                chk.bad(oid, 'use-restriction', site, ast.unparse(par.get(p))[:100], 'arithmetic on an order statistic of the codes')
                elif isinstance(p, ast.UnaryOp) and isinstance(p.op, (ast.USub, ast.Invert)):
                    chk.bad(oid, 'use-restriction', site, ast.unparse(p)[:100], 'arithmetic on category codes')
                elif isinstance(p, ast.AugAssign) and p.value is top:
                    chk.bad(oid, 'use-restriction', site, ast.unparse(p)[:100], 'a category code is added to an accumulator')
    if not any(o.oid == oid and o.status == 'violated' for o in chk.obs):
        chk.ok(oid, 'use-restriction', m.relpath, f'{n_uses} uses of code-valued names in {len(CODE_PARAMS)} kernel functions', 'codes are touched only through ==/!=, the histogram and positional operations', inspected=n_uses)
    chk.require_count('uses of code-valued names in the kernel', n_uses, 15)


def _enclosing(par, n):
    """the statements that enclose n, innermost first"""
    out = []
    while n in par:
        n = par[n]
        if isinstance(n, ast.stmt):
            out.append(n)
    return out


def _sizes_or_indexes(node, par, m, depth=0):
    if depth > 4:
        return False
    """the value of `node` is only used as the size of an allocation (np.zeros(<largest code> + 1) / minlength=): a table with one slot per
    code.  An index computed by arithmetic on a code (Y[(row + code) % n]) is NOT such a use: it depends on the numeric value."""
    cur, p = node, par.get(node)
    for _ in range(6):
        if p is None:
            return False
        if isinstance(p, ast.Call):
            d = m.dotted(p.func) or ''
            if d in ('numpy.zeros', 'numpy.empty', 'numpy.full', 'numpy.ones') and p.args and p.args[0] is cur:
                return True
            if d in ('int', 'numpy.int64', 'numpy.int32', 'numpy.intp') and cur in p.args:
                cur, p = p, par.get(p)
                continue
            if any(k.value is cur and k.arg in ('minlength', 'shape', 'size') for k in p.keywords):
                return True
            if d in ('range', 'numba.prange') and p.args and p.args[-1 if len(p.args) < 3 else 1] is cur:
                # range(<number of slots>): the loop visits the slots of the table, the size is used as a size
                return True
            return False
        if isinstance(p, ast.Tuple):
            cur, p = p, par.get(p)
            continue
        if isinstance(p, ast.Assign) and len(p.targets) == 1 and isinstance(p.targets[0], ast.Name):
            # a local that is only used as a size / index
            name = p.targets[0].id
            fn_node = p
            while par.get(fn_node) is not None:
                fn_node = par.get(fn_node)
            uses = [x for x in ast.walk(fn_node) if isinstance(x, ast.Name) and x.id == name and isinstance(x.ctx, ast.Load)]
            # (a bounds check `code < size` is a use of the size as a size)
            return bool(uses) and any(_sizes_or_indexes(u, par, m, depth + 1) for u in uses) and all(_sizes_or_indexes(u, par, m, depth + 1) or isinstance(par.get(u), ast.Compare) for u in uses)
        if isinstance(p, ast.BinOp):
            cur, p = p, par.get(p)
            continue
        return False
    return False


def _is_code(e, codes, m):
    if isinstance(e, ast.Name):
        return e.id in codes
    if isinstance(e, ast.Subscript):
        return _is_code(e.value, codes, m)
    if isinstance(e, ast.Call) and isinstance(e.func, ast.Attribute) and e.func.attr in ('astype', 'copy'):
        return _is_code(e.func.value, codes, m)
    return False


def sampling_guard(repo, chk, oid):
    """With ratio 1 (the premise of C01 / C03) the estimator must not subsample: the sampling statement is guarded by exactly
    approximation_factor < 1.0."""
    fn = repo.func(MI, 'mutual_info_estimator_numba')
    m = fn.module
    rp = fn.params[2]
    par = parents(fn.node)
    samp = [c for c in calls(fn) if m.dotted(c.func) == f'{MI}.stratified_subsampling']
    for c in samp:
        g = par.get(par.get(c))
        ok = isinstance(g, ast.If) and term_of(fn, g.test, inline=False) in (expected_term(m, f'{rp} < 1.0'), expected_term(m, f'{rp} < 1')) and not g.orelse and par.get(g) is fn.node
        chk.expect(ok, oid, 'R14', fn.site(g) if isinstance(g, ast.If) else fn.site(c), ast.unparse(g.test) if isinstance(g, ast.If) else '(unconditional sampling)', 'no subsampling at ratio 1',
                   'the sampling must be guarded by exactly `approximation_factor < 1.0`: otherwise rows are dropped (quota int(n/#values) per stratum) even when no subsampling is requested')
    if not samp:
        chk.ok(oid, 'R14', fn.site(), 'no sampling call', 'no subsampling in the estimator')


def elementwise_equality_helper(f):
    """f(a, b) returns False when the lengths differ (optional) or some position differs, True otherwise:
         [if len(a) != len(b): return False]; for i in range(len(a)): if a[i] != b[i]: return False; return True"""
    if f is None or len(f.params) != 2:
        return False
    a, b = f.params
    m = f.module
    E = lambda src: expected_term(m, src)
    body = [st for st in f.node.body if not (isinstance(st, ast.Expr) and isinstance(st.value, ast.Constant))]
    if not body or not (isinstance(body[-1], ast.Return) and isinstance(body[-1].value, ast.Constant) and body[-1].value.value is True):
        return False
    seen_loop = False
    for st in body[:-1]:
        # a local bound to a length (num_rows = len(a)): resolved by the inlining term builder
        if isinstance(st, ast.Assign) and len(st.targets) == 1 and isinstance(st.targets[0], ast.Name) and st.targets[0].id not in (a, b) and \
                term_of(f, st.value, inline=True) in (E(f'len({a})'), E(f'len({b})'), E(f'{a}.size'), E(f'{b}.size')):
            continue
        ret_false = lambda blk: len(blk) == 1 and isinstance(blk[0], ast.Return) and isinstance(blk[0].value, ast.Constant) and blk[0].value.value is False
        if isinstance(st, ast.If) and not st.orelse and ret_false(st.body):
            t = term_of(f, st.test, inline=True)
            if t in (E(f'len({a}) != len({b})'), E(f'{a}.shape != {b}.shape'), E(f'{a}.size != {b}.size')):
                continue
            return False
        if isinstance(st, ast.For) and not st.orelse and isinstance(st.target, ast.Name) and len(st.body) == 1:
            i = st.target.id
            it = term_of(f, st.iter, inline=True)
            inner = st.body[0]
            if it in (E(f'range(len({a}))'), E(f'range(len({b}))'), E(f'numba.prange(len({a}))')) and isinstance(inner, ast.If) and not inner.orelse and ret_false(inner.body) \
                    and term_of(f, inner.test, inline=True) in (E(f'{a}[{i}] != {b}[{i}]'), E(f'{b}[{i}] != {a}[{i}]')):
                seen_loop = True
                continue
            return False
        # for x, y in zip(a, b): if x != y: return False      (needs the length test: zip stops at the shorter vector)
        if isinstance(st, ast.For) and not st.orelse and isinstance(st.target, ast.Tuple) and len(st.target.elts) == 2 and all(isinstance(e, ast.Name) for e in st.target.elts) and len(st.body) == 1:
            x_, y_ = st.target.elts[0].id, st.target.elts[1].id
            it = term_of(f, st.iter, inline=True)
            inner = st.body[0]
            has_len_test = any(isinstance(p_, ast.If) and term_of(f, p_.test, inline=True) in (E(f'len({a}) != len({b})'), E(f'{a}.shape != {b}.shape'), E(f'{a}.size != {b}.size')) for p_ in body[:body.index(st)])
            if it in (E(f'zip({a}, {b})'), E(f'zip({b}, {a})')) and has_len_test and isinstance(inner, ast.If) and not inner.orelse and ret_false(inner.body) \
                    and term_of(f, inner.test, inline=False) in (('cmp', '!=', ('name', x_), ('name', y_)), ('cmp', '!=', ('name', y_), ('name', x_))):
                seen_loop = True
                continue
            return False
        return False
    return seen_loop


def partial_equality_helper(f):
    """reason when f(a, b) compares the two vectors position by position (`if a[i] != b[i]: return False` .. `return True`) but over a range that
    does not cover every position (range(len(a) - 1), range(1, len(a)), a step): rows outside the range are never compared"""
    if f is None or len(f.params) != 2:
        return None
    a, b = f.params
    m = f.module
    E = lambda src: expected_term(m, src)
    full = (E(f'range(len({a}))'), E(f'range(len({b}))'), E(f'numba.prange(len({a}))'), E(f'range(0, len({a}))'))
    for st in own_nodes(f.node):
        if isinstance(st, ast.For) and isinstance(st.target, ast.Name) and len(st.body) == 1 and isinstance(st.body[0], ast.If):
            i = st.target.id
            inner = st.body[0]
            if term_of(f, inner.test, inline=True) in (E(f'{a}[{i}] != {b}[{i}]'), E(f'{b}[{i}] != {a}[{i}]')) and len(inner.body) == 1 and isinstance(inner.body[0], ast.Return) \
                    and isinstance(inner.body[0].value, ast.Constant) and inner.body[0].value.value is False:
                it = term_of(f, st.iter, inline=True)
                if it not in full and it[0] == 'call' and it[1] in (('name', 'range'), ('lib', 'numba.prange')) and any(x in (E(f'len({a})'), E(f'len({b})')) for x in walk_term(it)):
                    return f'{f.name} compares the vectors over {ast.unparse(st.iter)} only: positions outside that range are never compared, so two vectors that differ there are taken for a feature scored against itself'
    return None


def is_exact_identity(t, E, repo):
    """t (over the roles X, Y) is an exact element-wise identity test of the two vectors"""
    if t in _exact_forms(E):
        return True
    if t[0] == 'and':
        shape_tests = []
        for a, b in (('X', 'Y'), ('Y', 'X')):
            shape_tests += [E(f'len({a}) == len({b})'), E(f'{a}.shape == {b}.shape'), E(f'{a}.size == {b}.size')]
        rest = [x for x in t[1] if x not in shape_tests]
        return len(rest) == 1 and is_exact_identity(rest[0], E, repo)
    if t[0] == 'call' and t[1][0] == 'lib' and not t[3] and sorted(t[2], key=repr) == sorted([('role', 'X'), ('role', 'Y')], key=repr):
        return elementwise_equality_helper(repo.find_func(t[1][1]))
    return False


def _exact_forms(E):
    exact = []
    for a, b in (('X', 'Y'), ('Y', 'X')):
        d = f'({a} - {b})'
        exact += [E(f'numpy.array_equal({a}, {b})'), E(f'numpy.array_equiv({a}, {b})'), E(f'numpy.all({a} == {b})'), E(f'({a} == {b}).all()'), E(f'not numpy.any({a} != {b})'), E(f'not ({a} != {b}).any()'),
                  E(f'numpy.count_nonzero({a} != {b}) == 0'), E(f'numpy.count_nonzero({d}) == 0'), E(f'numpy.sum({a} != {b}) == 0'), E(f'numpy.sum(numpy.abs({d})) == 0'), E(f'numpy.max(numpy.abs({d})) == 0'),
                  E(f'numpy.sum({d} ** 2) == 0'), E(f'numpy.sum({d} * {d}) == 0'), E(f'not numpy.any({d})'), E(f'numpy.sum({a} == {b}) == len({a})'), E(f'numpy.count_nonzero({a} == {b}) == len({a})')]
    return exact


# ---------------------------------------------------------------------------
# compile options of the kernels
# ---------------------------------------------------------------------------
NARROW_NUMBA = {'float32', 'float16', 'int8', 'int16', 'uint8', 'uint16', 'f4', 'f2', 'i1', 'i2', 'u1', 'u2'}


def compile_options(repo, chk, oid):
    """The kernels accumulate their sums in float64 locals (a Python float literal initialises them) and round once, on return.  `locals={name: type}`
    in the @njit options re-types a local: pinning an accumulator to a single-precision (or a narrow integer) type rounds / wraps at EVERY addition,
    so the error grows with the number of terms instead of staying at one rounding of the result."""
    n = 0
    for name in ('numba_unique', 'compute_conditional_entropy', 'compute_entropies', 'mutual_info_estimator_numba', 'stratified_subsampling'):
        fn = repo.mod(MI).funcs.get(name)
        if fn is None:
            continue
        n += 1
        for dname, kw in fn.decorator_info():
            loc = kw.get('locals')
            if loc is None:
                continue
            if not isinstance(loc, ast.Dict):
                chk.unsure(oid, 'R8', fn.site(), f'@njit(locals={ast.unparse(loc)[:60]})', 'the kernel re-types locals through a table that is not written out')
                continue
            for k, v in zip(loc.keys, loc.values):
                ty = ast.unparse(v).split('.')[-1]
                var = k.value if isinstance(k, ast.Constant) else ast.unparse(k)
                updated = any(isinstance(x, ast.AugAssign) and isinstance(x.target, ast.Name) and x.target.id == var for x in ast.walk(fn.node))
                if ty in NARROW_NUMBA and updated:
                    chk.bad(oid, 'R8', fn.site(), f'@njit(locals={{{var!r}: {ast.unparse(v)}}})', f'the accumulator {var} of {name} is pinned to {ty}: every `{var} +=` rounds (or wraps) to that type, so the error of the sum grows with '
                            'the number of strata / classes instead of being one single-precision rounding of the result')
                elif ty in NARROW_NUMBA:
                    chk.unsure(oid, 'R8', fn.site(), f'@njit(locals={{{var!r}: {ast.unparse(v)}}})', f'the local {var} of {name} is pinned to {ty}; whether a value it has to hold can exceed that type is not decided')
    chk.ok(oid, 'R8', 'outrank/algorithms/feature_ranking/ranking_mi_numba.py', '@njit(...) options of the kernels', f'{n} kernels: no accumulator is re-typed to a narrower type', inspected=n)


NARROW_INT_TEXT = ('int8', 'int16', 'uint8', 'uint16')


def narrow_kernel_storage(repo, chk, oid):
    """Every integer the kernel stores - a code, a slot number, a row position, a count - can be as large as the number of rows / distinct codes
    (up to 2^20 codes, 10^6 rows by the statement).  An array allocated with an 8- or 16-bit integer dtype, or a compiled signature that declares
    one, wraps those values silently: two classes share a slot, a count starts again from 0."""
    m = repo.mod(MI)
    n = 0
    for q, fn in m.funcs.items():
        for c in calls(fn):
            d = m.dotted(c.func) or ''
            if d in ('numpy.zeros', 'numpy.empty', 'numpy.full', 'numpy.ones', 'numpy.zeros_like', 'numpy.empty_like', 'numpy.arange', 'numpy.array', 'numpy.asarray'):
                dt = next((k.value for k in c.keywords if k.arg == 'dtype'), None)
                if dt is None:
                    continue
                n += 1
                txt = ast.unparse(dt).split('.')[-1].strip('\'"')
                if txt in NARROW_INT_TEXT:
                    chk.bad(oid, 'R8', fn.site(c), ast.unparse(c)[:100], f'the kernel allocates an array of {txt}: slot numbers, positions and counts above {2 ** (8 if "8" in txt else 16) - 1} wrap around in it '
                            '(with more than that many distinct codes / rows two classes share a slot or a count restarts), so the score is no longer the plug-in quantity')
        for dname, kw in fn.decorator_info():
            for d_ in fn.node.decorator_list:
                if isinstance(d_, ast.Call):
                    for a_ in d_.args:
                        if isinstance(a_, ast.Constant) and isinstance(a_.value, str):
                            n += 1
                            import re as _re
                            hit = _re.search(r'\bu?int(8|16)\b', a_.value)
                            if hit:
                                chk.bad(oid, 'R8', fn.site(), a_.value[:100], f'the compiled signature of {q} declares {hit.group(0)} storage: values above its range (codes, slots, counts) wrap around')
            break
    chk.ok(oid, 'R8', m.relpath, 'integer dtypes of the kernel arrays and signatures', f'{n} allocation / signature site(s): none narrower than 32 bits', inspected=max(1, n))
