"""C13 - data-quality statistics are exact and independent of the batch split.

 1 (R5)  rare-value store and retirement set use one key shape (column, value) in every write, read, membership test, deletion
 2 (R14) retirement is count > bound; retired keys are never counted again (membership test dominates the increment);
         the retirement set only ever grows (never re-bound to something else)
 3 (R3/R13, R2) per-column sketch / bounded counter constructed only under `column not in STORE`; stores written only by their owners
 4       cardinality insert: every non-empty distinct value of the batch, hashed by internal_hash (bytes to xxhash);
         bounded counter fed item by item with every row value
 5 (R15) coverage = (1 - missing/rows) * 100 with missing summed over the missing-symbol set; annotation = len(sketch), mean of batches
 6 (R15) repetition histogram: for n in {0, 1, 10, ..., 10^5}: number of tracked values with count > n
 7       rare table rows = (namespace, value, count) of the returned rare-value store

Split independence: with (1)-(2) a pair's fate depends only on its running total, which is additive over any split; with (3) the
sketches see the union of the batches; with C14 they are duplicate-blind.
"""
from __future__ import annotations

import ast

from ..cfg import CFG
from ..match import calls, expected_term, local_aliases, mutations_of, package_mutations, returns, term_of
from ..model import own_nodes, parents
from ..terms import Canon, Scope, show, walk_term
from .common import CR

EXPLANATION = ('Key-shape agreement (R5) between all uses of the rare-value store and the retirement set; comparison normal form (R14) of the retirement test and guard dominance (R3) of '
               'the increment by the membership test; init-once (R13) and who-may-write (R2) for the four process-global stores; loop-domain obligations on the sketch and counter feeding; '
               'canonical-term equality (R15) of the coverage, annotation and histogram formulas; API fact that xxhash receives bytes. Decides mechanism, not the statistics of actual data.')
TRUSTED_BASE = ['xxhash >= 4 rejects str input; bytes accepted by every version', 'collections.Counter semantics; list.count(x) is the exact number of occurrences',
                'the bounded counter and the sketch themselves: C15 / C14']
ASSUMPTIONS = ['cardinality is exact below the warm-up capacity and up to 32-bit hash collisions (statement)']

CU = 'outrank.core_utils'
TR = 'outrank.task_ranking'


def run(repo, chk, tier):
    rare_values(repo, chk)
    sketches(repo, chk)
    writers(repo, chk)
    hash_bytes(repo, chk)
    coverage(repo, chk)
    annotation_and_histogram(repo, chk)
    rare_table(repo, chk)


# -- 1 / 2 ---------------------------------------------------------------------------------
def rare_values(repo, chk):
    fn = repo.func(CR, 'compute_value_counts')
    m = fn.module
    par = parents(fn.node)
    store_al = {'GLOBAL_RARE_VALUE_STORAGE'} | local_aliases(fn, {'GLOBAL_RARE_VALUE_STORAGE'})
    ign_al = {'IGNORED_VALUES'} | local_aliases(fn, {'IGNORED_VALUES'})
    cfg = CFG(fn.node)
    scope = Scope(fn)

    def key_term(e):
        return Canon(m, scope, inline=True).t(e)

    # increments
    incs = [n for n in own_nodes(fn.node) if isinstance(n, ast.AugAssign) and isinstance(n.target, ast.Subscript) and isinstance(n.target.value, ast.Name) and n.target.value.id in store_al]
    if not incs:
        chk.bad('C13.1', 'R5', fn.site(), 'storage[(column, value)] += 1', 'no increment of the rare-value store found')
        return
    for inc in incs:
        kt = key_term(inc.target.slice)
        # shape: 2-tuple (column loop variable, value loop variable)
        loops = []
        cur = par.get(inc)
        while cur is not None:
            if isinstance(cur, ast.For):
                loops.append(cur)
            cur = par.get(cur)
        shape_ok = kt[0] == 'tuple' and len(kt) == 3
        col_ok = val_ok = False
        if shape_ok and len(loops) >= 2:
            inner, outer = loops[0], loops[1]
            col_ok = isinstance(outer.target, ast.Name) and kt[1] == ('name', outer.target.id)
            val_ok = isinstance(inner.target, ast.Name) and kt[2] == ('name', inner.target.id)
            # the value loop ranges over the values of that column; the column loop over all columns
            it_in = term_of(fn, inner.iter, inline=True)
            frame = fn.params[0]
            E = lambda s: expected_term(m, s)
            col = outer.target.id if isinstance(outer.target, ast.Name) else 'c'
            ok_inner = it_in in (E(f'{frame}[{col}].values'), E(f'{frame}[{col}]'), E(f'{frame}[{col}].values.tolist()'), E(f'{frame}[{col}].tolist()'))
            ok_outer = term_of(fn, outer.iter, inline=True) in (E(f'{frame}.columns'), E(f'{frame}'))
            chk.expect(ok_inner and ok_outer, 'C13.1c', 'R13', fn.site(inner), f'for {ast.unparse(outer.target)} in {ast.unparse(outer.iter)}: for {ast.unparse(inner.target)} in {ast.unparse(inner.iter)}',
                       'every value of every column of the batch is visited once', 'the counting loops must visit every row value of every column exactly once')
        chk.expect(shape_ok and col_ok and val_ok, 'C13.1a', 'R5', fn.site(inc), ast.unparse(inc), 'store key is (column, value)', f'the rare-value store must be keyed by (column, value); found key {show(kt)[:100]}')
        chk.expect(isinstance(inc.op, ast.Add) and isinstance(inc.value, ast.Constant) and inc.value.value == 1, 'C13.1d', 'R13', fn.site(inc), ast.unparse(inc), 'each occurrence counts 1', 'each occurrence must add exactly 1')
        # membership guard dominating the increment, with the SAME key
        node = cfg.node_of(inc)
        ok = False
        found = []
        for g in cfg.nodes:
            if g.kind == 'branch' and g.test is not None and cfg.dominates(g.id, node.id):
                t = g.test
                if isinstance(t, ast.Compare) and len(t.ops) == 1 and isinstance(t.ops[0], (ast.In, ast.NotIn)) and isinstance(t.comparators[0], ast.Name) and t.comparators[0].id in ign_al:
                    gk = key_term(t.left)
                    found.append((show(gk), type(t.ops[0]).__name__, g.polarity))
                    notin = isinstance(t.ops[0], ast.NotIn) == bool(g.polarity)
                    if gk == kt and notin:
                        ok = True
                    elif notin:
                        chk.bad('C13.1b', 'R5', fn.site(t), ast.unparse(t), f'the retirement set is tested with key {show(gk)} but filled with keys of shape {show(kt)}: a retired pair is never recognised and is counted again from zero in the next batch')
        if not ok and not any(o.oid == 'C13.1b' and o.status == 'violated' for o in chk.obs):
            chk.bad('C13.2b', 'R3', fn.site(inc), ast.unparse(inc), f'the increment is not dominated by `(column, value) not in <retired set>`: retired pairs are counted again (guards found: {found or "none"})')
        elif ok:
            chk.ok('C13.1b', 'R5', fn.site(inc), ast.unparse(inc), 'membership test on the retirement set uses the same key and dominates the increment')

    # retirement: for key, val in storage.items(): if val > bound: ignored.add(key); remove
    adds = [c for c in calls(fn, attr='add') if isinstance(c.func.value, ast.Name) and c.func.value.id in ign_al]
    if not adds:
        chk.bad('C13.2a', 'R14', fn.site(), 'ignored.add(key)', 'pairs above the threshold are no longer retired')
    for a in adds:
        st = par.get(a)
        loops, ifs = [], []
        cur = par.get(a)
        while cur is not None:
            if isinstance(cur, ast.For):
                loops.append(cur)
            if isinstance(cur, ast.If):
                ifs.append(cur)
            cur = par.get(cur)
        okshape = False
        if loops:
            lp = loops[0]
            it = lp.iter
            if isinstance(it, ast.Call) and isinstance(it.func, ast.Attribute) and it.func.attr == 'items' and isinstance(it.func.value, ast.Name) and it.func.value.id in store_al \
                    and isinstance(lp.target, ast.Tuple) and len(lp.target.elts) == 2 and isinstance(a.args[0], ast.Name) and a.args[0].id == lp.target.elts[0].id:
                okshape = True
                cnt = lp.target.elts[1].id
                bound_ok = False
                for i in ifs:
                    t = term_of(fn, i.test, inline=True)
                    if t == expected_term(m, f'{fn.params[1]}.rare_value_count_upper_bound < {cnt}'):
                        bound_ok = True
                    elif t[0] == 'cmp':
                        chk.bad('C13.2a', 'R14', fn.site(i), ast.unparse(i.test), f'retirement must be `count > args.rare_value_count_upper_bound` (rare = frequency <= bound); found {show(t)[:100]}')
                if bound_ok:
                    chk.ok('C13.2a', 'R14', fn.site(ifs[0]), ast.unparse(ifs[0].test), 'a pair is retired exactly when its running count exceeds the bound')
                elif not any(o.oid == 'C13.2a' and o.status == 'violated' for o in chk.obs):
                    chk.bad('C13.2a', 'R14', fn.site(a), ast.unparse(st), 'retirement is not guarded by `count > args.rare_value_count_upper_bound`')
        chk.expect(okshape, 'C13.1e', 'R5', fn.site(a), ast.unparse(a), 'retired keys are the keys of the store itself (same shape)', 'keys added to the retirement set must be the keys of the rare-value store (iteration over storage.items())')
    # deletions use the retired keys: every key added to the retirement set is also scheduled for deletion (same guard), and every scheduled key is deleted
    dels = [n for n in own_nodes(fn.node) if isinstance(n, ast.Delete)]
    pops = [c for c in calls(fn, attr='pop') if isinstance(c.func.value, ast.Name) and c.func.value.id in store_al]
    ok_del = False
    for a in adds:
        blk = par.get(par.get(a))
        body = getattr(blk, 'body', [])
        sched = [s for s in body if isinstance(s, ast.Expr) and isinstance(s.value, ast.Call) and isinstance(s.value.func, ast.Attribute) and s.value.func.attr == 'append' and ast.unparse(s.value.args[0]) == ast.unparse(a.args[0]) and isinstance(s.value.func.value, ast.Name)]
        direct = [s for s in body if isinstance(s, ast.Delete)]
        if sched:
            lst = sched[0].value.func.value.id
            for d in dels:
                lp = par.get(d)
                if isinstance(lp, ast.For) and ast.unparse(lp.iter) == lst and isinstance(lp.target, ast.Name) and len(d.targets) == 1 and isinstance(d.targets[0], ast.Subscript) \
                        and ast.unparse(d.targets[0].slice) == lp.target.id and isinstance(d.targets[0].value, ast.Name) and d.targets[0].value.id in store_al and not any(isinstance(x, ast.If) for x in ast.walk(lp)):
                    ok_del = True
        if direct:
            ok_del = True
    if pops:
        ok_del = True
    chk.expect(ok_del, 'C13.2c', 'R13', fn.site(dels[0]) if dels else fn.site(), 'keys_to_remove.append(key) ... for key in keys_to_remove: del storage[key]', 'every retired pair leaves the rare-value report',
               'a pair whose count exceeded the threshold is retired but not removed from the rare-value store: frequent values are reported as rare')
    # the retirement set persists: the global is re-bound only to its own alias; the alias is the global (not a fresh set)
    for n in own_nodes(fn.node):
        if isinstance(n, ast.Assign) and len(n.targets) == 1 and isinstance(n.targets[0], ast.Name):
            tn = n.targets[0].id
            if tn == 'IGNORED_VALUES':
                ok = isinstance(n.value, ast.Name) and n.value.id in ign_al
                chk.expect(ok, 'C13.2d', 'R13', fn.site(n), ast.unparse(n), 'retirement set persists across batches', 'IGNORED_VALUES is re-bound to a new object: pairs retired in earlier batches are forgotten and counted again')
            if tn == 'GLOBAL_RARE_VALUE_STORAGE':
                ok = isinstance(n.value, ast.Name) and n.value.id in store_al
                chk.expect(ok, 'C13.2d', 'R13', fn.site(n), ast.unparse(n), 'rare-value store persists across batches', 'GLOBAL_RARE_VALUE_STORAGE is re-bound to a new object: running counts are lost between batches')
            if tn in ign_al and tn != 'IGNORED_VALUES':
                ok = isinstance(n.value, ast.Name) and n.value.id in ign_al
                chk.expect(ok, 'C13.2d', 'R13', fn.site(n), ast.unparse(n), 'local alias of the retirement set', 'the local retirement set is not the global one')
    # the call: only for the rare-value task, on the batch frame
    cbr = repo.func(CR, 'compute_batch_ranking')
    cs = [c for c in calls(cbr) if cbr.module.dotted(c.func) == f'{CR}.compute_value_counts']
    chk.expect(len(cs) == 1, 'C13.1f', 'R7', cbr.site(cs[0]) if cs else cbr.site(), 'compute_value_counts(input_dataframe, args)', 'called once per batch', 'compute_value_counts must be called exactly once per batch')


# -- 3 / 4 ---------------------------------------------------------------------------------
def sketches(repo, chk):
    fn = repo.func(CR, 'compute_cardinalities')
    m = fn.module
    par = parents(fn.node)
    cfg = CFG(fn.node)
    frame = fn.params[0]
    col_loops = [n for n in own_nodes(fn.node) if isinstance(n, ast.For) and any(isinstance(x, ast.Assign) and isinstance(x.targets[0], ast.Subscript) and ast.unparse(x.targets[0].value) in ('GLOBAL_CARDINALITY_STORAGE',) for x in ast.walk(n))]
    if len(col_loops) != 1:
        chk.unsure('C13.3', 'R13', fn.site(), 'for column in frame.columns', 'column loop not found')
        return
    cl = col_loops[0]
    it = term_of(fn, cl.iter, inline=True)
    E = lambda s: expected_term(m, s)
    col = None
    if it in (E(f'enumerate({frame}.columns)'), E(f'enumerate({frame})')) and isinstance(cl.target, ast.Tuple):
        col = cl.target.elts[1].id
    elif it in (E(f'{frame}.columns'), E(frame)) and isinstance(cl.target, ast.Name):
        col = cl.target.id
    chk.expect(col is not None, 'C13.3a', 'R13', fn.site(cl), ast.unparse(cl.iter), 'every column of the batch is visited', 'the loop must range over all columns of the batch frame')
    if col is None:
        return
    for store, ctor, oid in (('GLOBAL_CARDINALITY_STORAGE', 'outrank.algorithms.sketches.counting_ultiloglog.HyperLogLogWCache', 'C13.3b'),
                             ('GLOBAL_COUNTS_STORAGE', 'outrank.algorithms.sketches.counting_counters_ordinary.PrimitiveConstrainedCounter', 'C13.3c')):
        inits = [n for n in ast.walk(cl) if isinstance(n, ast.Assign) and isinstance(n.targets[0], ast.Subscript) and ast.unparse(n.targets[0].value) == store]
        if not inits:
            chk.bad(oid, 'R13', fn.site(cl), f'{store}[{col}] = ...', f'no per-column construction of {store} entries found')
            continue
        for ini in inits:
            node = cfg.node_of(ini)
            want = E(f'{col} not in {store}')
            ok = any(g.kind == 'branch' and g.test is not None and cfg.dominates(g.id, node.id) and
                     ((g.polarity and term_of(fn, g.test, inline=False) == want) or (g.polarity is False and term_of(fn, g.test, inline=False) == E(f'{col} in {store}'))) for g in cfg.nodes)
            key_ok = ast.unparse(ini.targets[0].slice) == col
            c_ok = isinstance(ini.value, ast.Call) and m.dotted(ini.value.func) == ctor
            chk.expect(ok and key_ok and c_ok, oid, 'R3', fn.site(ini), ast.unparse(ini), f'constructed once per column (guard `{col} not in {store}`)',
                       f'{store}[{col}] must be constructed only under `{col} not in {store}`: otherwise the sketch/counter is reset every batch and the statistic depends on the batch split')
    # bounded counter: fed with every row value, item by item
    cadds = [c for c in ast.walk(cl) if isinstance(c, ast.Call) and isinstance(c.func, ast.Attribute) and isinstance(c.func.value, ast.Subscript) and ast.unparse(c.func.value.value) == 'GLOBAL_COUNTS_STORAGE']
    okc = False
    for c in cadds:
        lp = par.get(par.get(c))
        item = isinstance(lp, ast.For) and isinstance(lp.target, ast.Name) and c.func.attr == 'add' and len(c.args) == 1 and isinstance(c.args[0], ast.Name) and c.args[0].id == lp.target.id \
            and ast.unparse(c.func.value.slice) == col
        full = item and term_of(fn, lp.iter, inline=True) in (E(f'{frame}[{col}].values'), E(f'{frame}[{col}]'), E(f'{frame}[{col}].values.tolist()'), E(f'{frame}[{col}].tolist()'))
        if c.func.attr != 'add':
            chk.bad('C13.4a', 'R6', fn.site(c), ast.unparse(c)[:100], f'the bounded counter must be fed item by item with .add (the bound is checked per item); .{c.func.attr} checks the bound once per batch, so the number of tracked values depends on the batch split')
            okc = None
        elif full:
            okc = True
            chk.ok('C13.4a', 'R13', fn.site(c), ast.unparse(lp).replace('\n', ' ')[:120], 'every row value of the column is counted, item by item')
    if okc is False:
        chk.bad('C13.4a', 'R13', fn.site(cl), 'for value in column.values: COUNTS[column].add(value)', 'the bounded counter is not fed with every row value of the column item by item')
    # sketch: every non-empty distinct value, hashed
    sadds = [c for c in ast.walk(cl) if isinstance(c, ast.Call) and isinstance(c.func, ast.Attribute) and c.func.attr == 'add' and isinstance(c.func.value, ast.Subscript) and ast.unparse(c.func.value.value) == 'GLOBAL_CARDINALITY_STORAGE']
    oks = False
    for c in sadds:
        lp = None
        ifs = []
        cur = par.get(c)
        while cur is not None and cur is not cl:
            if isinstance(cur, ast.If):
                ifs.append(cur)
            if isinstance(cur, ast.For) and lp is None:
                lp = cur
            cur = par.get(cur)
        if lp is None or not isinstance(lp.target, ast.Name):
            continue
        v = lp.target.id
        it = term_of(fn, lp.iter, inline=True)
        dom_ok = it in (E(f'set({frame}[{col}])'), E(f'{frame}[{col}].unique()'), E(f'set({frame}[{col}].values)'), E(f'{frame}[{col}]'), E(f'{frame}[{col}].values'), E(f'set({frame}[{col}].tolist())'), E(f'set({frame}[{col}].values.tolist())'))
        a0 = c.args[0] if c.args else None
        hash_ok = isinstance(a0, ast.Call) and m.dotted(a0.func) == f'{CU}.internal_hash' and len(a0.args) == 1 and ast.unparse(a0.args[0]) in (v, f'str({v})')
        guards = [term_of(fn, i.test, inline=False) for i in ifs]
        empties = (E(f"{v} != ''"), E(f"not (isinstance({v}, str) and {v} == '')"), E(f"not isinstance({v}, str) or {v} != ''"), E(f'{v} is not None'), E(f"not (isinstance({v}, str) and len({v}) == 0)"))
        truthy = [i for i, g in zip(ifs, guards) if g == E(v)]
        if truthy:
            chk.bad('C13.4d', 'R14', fn.site(truthy[0]), ast.unparse(truthy[0].test), f'the truthiness test `if {v}:` skips the empty string but also the numeric values 0 / 0.0 (noise control columns): a constant-zero column gets cardinality 0')
        g_ok = all(g in empties or g == E(v) for g in guards)
        key_ok = ast.unparse(c.func.value.slice) == col
        chk.expect(dom_ok, 'C13.4b', 'R13', fn.site(lp), ast.unparse(lp.iter), 'all distinct values of the column in the batch are inserted', f'the sketch must be fed from all (distinct) values of the column; loop ranges over {show(it)[:100]}')
        chk.expect(hash_ok and key_ok, 'C13.4c', 'R6', fn.site(c), ast.unparse(c), 'value -> internal_hash(value) -> sketch of its column', 'the sketch of the column must receive internal_hash(value) of the value itself')
        chk.expect(g_ok, 'C13.4d', 'R14', fn.site(c), ' and '.join(ast.unparse(i.test) for i in ifs) or '(unguarded)', 'only empty values are skipped', f'only the empty value may be skipped when feeding the sketch; guards: {[show(g) for g in guards]}')
        oks = True
    if not oks:
        chk.bad('C13.4b', 'R13', fn.site(cl), 'for v in set(column): CARD[column].add(internal_hash(v))', 'the cardinality sketch is no longer fed with the distinct values of the batch')
    # called once per batch on the final frame
    cbr = repo.func(CR, 'compute_batch_ranking')
    cs = [c for c in calls(cbr) if cbr.module.dotted(c.func) == f'{CR}.compute_cardinalities']
    chk.expect(len(cs) == 1 and not _conditional(cbr, cs[0]), 'C13.3d', 'R1', cbr.site(cs[0]) if cs else cbr.site(), 'compute_cardinalities(input_dataframe, ...)', 'every batch updates the sketches', 'compute_cardinalities must run unconditionally once per batch')


def _conditional(fn, node):
    par = parents(fn.node)
    cur = par.get(node)
    while cur is not None and cur is not fn.node:
        if isinstance(cur, (ast.If, ast.For, ast.While, ast.Try)):
            return True
        cur = par.get(cur)
    return False


def writers(repo, chk):
    owners = {'GLOBAL_CARDINALITY_STORAGE': {'compute_cardinalities'}, 'GLOBAL_COUNTS_STORAGE': {'compute_cardinalities'},
              'GLOBAL_RARE_VALUE_STORAGE': {'compute_value_counts'}, 'IGNORED_VALUES': {'compute_value_counts'}}
    nfun = sum(len(m.funcs) for m in repo.modules.values())
    for store, own in owners.items():
        bad = [(f, n, k) for f, n, k in package_mutations(repo, CR, {store}) if f.qualname not in own]
        for f, n, k in bad:
            chk.bad('C13.3e', 'R2', f.site(n), ast.unparse(n)[:100], f'{store} is mutated outside {sorted(own)} ({k})')
        if not bad:
            chk.ok('C13.3e', 'R2', repo.mod(CR).relpath, f'writers of {store}: {sorted(own)}', f'{nfun} functions scanned', inspected=nfun)
    # what the streaming function hands out are copies of the stores themselves
    est = repo.func(CR, 'estimate_importances_minibatches')
    rets = returns(est)
    if len(rets) == 1 and isinstance(rets[0].value, ast.Tuple):
        txt = [ast.unparse(e) for e in rets[0].value.elts]
        for store in ('GLOBAL_CARDINALITY_STORAGE', 'GLOBAL_RARE_VALUE_STORAGE', 'GLOBAL_COUNTS_STORAGE'):
            chk.expect(f'{store}.copy()' in txt or store in txt, 'C13.3f', 'R6', est.site(rets[0]), f'{store}.copy()', 'the store is returned as is', f'{store} is no longer returned unmodified by the streaming function')


def hash_bytes(repo, chk):
    """internal_hash must hand bytes to xxhash for every kind of value a frame column can hold: str from the parsers, and numpy
    ints / floats from the noise control columns (a small type-flow over the function body: isinstance refinements, str(), .encode())."""
    fn = repo.func(CU, 'internal_hash')
    p = fn.params[0]
    cs = calls(fn, dotted=('xxhash.xxh32', 'xxhash.xxh64', 'xxhash.xxh3_64', 'xxhash.xxh128'))
    if len(cs) != 1:
        chk.unsure('C13.4e', 'API', fn.site(), 'xxhash.xxh32(...)', 'digest constructor not found')
        return
    c = cs[0]
    # what the cardinality step passes in
    card = repo.func(CR, 'compute_cardinalities')
    incoming = set()
    for cc in calls(card):
        if card.module.dotted(cc.func) == f'{CU}.internal_hash' and cc.args:
            a = cc.args[0]
            incoming |= {'str'} if (isinstance(a, ast.Call) and isinstance(a.func, ast.Name) and a.func.id == 'str') else {'str', 'int', 'float'}
    if not incoming:
        incoming = {'str', 'int', 'float'}
    problems = []
    unknown = []

    def types_of(test):
        """(negated, names) for isinstance(p, T) / not isinstance(p, T)"""
        neg = False
        while isinstance(test, ast.UnaryOp) and isinstance(test.op, ast.Not):
            neg, test = not neg, test.operand
        if isinstance(test, ast.Call) and isinstance(test.func, ast.Name) and test.func.id == 'isinstance' and len(test.args) == 2 and isinstance(test.args[0], ast.Name) and test.args[0].id == p:
            t = test.args[1]
            names = {ast.unparse(x) for x in (t.elts if isinstance(t, ast.Tuple) else [t])}
            return neg, names
        return None

    def value_type(e, types):
        if isinstance(e, ast.Name) and e.id == p:
            return set(types)
        if isinstance(e, ast.Call) and isinstance(e.func, ast.Name) and e.func.id in ('str', 'repr') and len(e.args) == 1:
            return {'str'}
        if isinstance(e, ast.Call) and isinstance(e.func, ast.Name) and e.func.id == 'bytes':
            return {'bytes'}
        if isinstance(e, ast.Call) and isinstance(e.func, ast.Attribute) and e.func.attr == 'encode':
            base = value_type(e.func.value, types)
            if base is None:
                return None
            bad = base - {'str'}
            if bad:
                problems.append((e, f'.encode() is applied to a value that may be {sorted(bad)} (AttributeError)'))
            return {'bytes'}
        if isinstance(e, ast.JoinedStr):
            return {'str'}
        return None

    def flow(stmts, types):
        for st in stmts:
            if isinstance(st, ast.Expr) and isinstance(st.value, ast.Constant):
                continue
            if isinstance(st, ast.If):
                r = types_of(st.test)
                if r is None:
                    unknown.append(st)
                    t1 = flow(st.body, set(types))
                    t2 = flow(st.orelse, set(types))
                    types = t1 | t2
                    continue
                neg, names = r
                inside = {t for t in types if t in names}
                tb, fb = (types - inside, inside) if neg else (inside, types - inside)
                t1 = flow(st.body, tb) if tb else set()
                t2 = flow(st.orelse, fb) if fb else set()
                types = t1 | t2
                continue
            if isinstance(st, ast.Assign) and len(st.targets) == 1 and isinstance(st.targets[0], ast.Name) and st.targets[0].id == p:
                vt = value_type(st.value, types)
                if vt is None:
                    unknown.append(st)
                    vt = set(types)
                types = vt
                continue
            for call in [n for n in ast.walk(st) if n is c]:
                a0 = call.args[0] if call.args else None
                vt = value_type(a0, types) if a0 is not None else None
                if vt is None:
                    unknown.append(st)
                else:
                    bad = vt - {'bytes'}
                    if bad:
                        problems.append((call, f'xxhash receives a value that may be {sorted(bad)} (TypeError: str must be encoded, numbers converted with str() first)'))
        return types
    flow(fn.node.body, set(incoming))
    if unknown and not problems:
        chk.unsure('C13.4e', 'R16', fn.site(unknown[0]), ast.unparse(unknown[0])[:100], 'statement outside the type-flow vocabulary (isinstance tests, str(), .encode())')
    else:
        chk.expect(not problems, 'C13.4e', 'R16', fn.site(problems[0][0]) if problems else fn.site(c), ast.unparse(c), f'values of kind {sorted(incoming)} all reach xxhash as bytes',
                   (problems[0][1] if problems else '') + ': the cardinality sketches cannot be updated for such a column (numeric noise controls / str values)')
    seed = [k for k in c.keywords if k.arg == 'seed']
    chk.expect(bool(seed) and isinstance(seed[0].value, ast.Constant), 'C13.4f', 'R8', fn.site(c), ast.unparse(c), 'constant seed: the hash of a value is the same in every batch and process', 'internal_hash must use a constant seed (same value -> same hash in every batch)')


# -- 5 -----------------------------------------------------------------------------------------
def coverage(repo, chk):
    fn = repo.func(CR, 'compute_coverage')
    m = fn.module
    frame, args = fn.params[0], fn.params[1]
    stores = [n for n in own_nodes(fn.node) if isinstance(n, ast.Assign) and isinstance(n.targets[0], ast.Subscript)]
    loops = [n for n in own_nodes(fn.node) if isinstance(n, ast.For)]
    if len(stores) != 1 or not loops:
        chk.unsure('C13.5', 'R15', fn.site(), 'coverage[column] = ...', 'unexpected structure of compute_coverage')
        return
    st = stores[0]
    lp = loops[0]
    col = lp.target.id if isinstance(lp.target, ast.Name) else None
    E = lambda s: expected_term(m, s)
    t = term_of(fn, st.value, inline=True)
    miss_sets = [f"set({args}.missing_value_symbols.split(','))", f"{args}.missing_value_symbols.split(',')"]
    vals = [f'{frame}[{col}].values.tolist()', f'{frame}[{col}].tolist()', f'list({frame}[{col}])']
    forms = []
    for ms in miss_sets:
        for v in vals:
            for summ in (f'sum([{v}.count(x) for x in {ms}])', f'sum({v}.count(x) for x in {ms})'):
                for rows in (f'{frame}.shape[0]', f'len({frame})'):
                    forms.append(E(f'(1 - {summ} / {rows}) * 100'))
                    forms.append(E(f'100 * (1 - {summ} / {rows})'))
    chk.expect(t in forms, 'C13.5a', 'R15', fn.site(st), ast.unparse(st)[:160], 'coverage = (1 - missing/rows) * 100, missing = exact occurrences of the missing symbols',
               f'coverage must be (1 - (sum of exact occurrence counts of the missing symbols) / rows) * 100; found {show(t)[:220]}')
    chk.expect(ast.unparse(st.targets[0].slice) == col and term_of(fn, lp.iter, inline=True) in (E(frame), E(f'{frame}.columns')), 'C13.5b', 'R13', fn.site(lp), ast.unparse(lp.iter), 'one percentage per column of the batch', 'coverage must be stored per column for all columns')
    # per-batch accumulation in the streaming loop: local_coverage_object[k].append(v)
    est = repo.func(CR, 'estimate_importances_minibatches')
    apps = [c for c in calls(est, attr='append') if isinstance(c.func.value, ast.Subscript) and 'coverage' in ast.unparse(c.func.value.value)]
    par = parents(est.node)
    good = 0
    for c in apps:
        lp2 = par.get(par.get(c))
        if isinstance(lp2, ast.For) and isinstance(lp2.target, ast.Tuple) and isinstance(lp2.iter, ast.Call) and ast.unparse(lp2.iter.func).endswith('.items') and ast.unparse(c.func.value.slice) == lp2.target.elts[0].id and ast.unparse(c.args[0]) == lp2.target.elts[1].id:
            good += 1
    chk.expect(good >= 2 and good == len(apps), 'C13.5c', 'R13', est.site(apps[0]) if apps else est.site(), f'{good} per-batch coverage accumulations', 'each processed batch (including the tail) contributes its percentage once', 'every processed batch (loop and tail) must append its coverage percentage once per column')


# -- 5 / 6 -------------------------------------------------------------------------------------
def annotation_and_histogram(repo, chk):
    fn = repo.func(TR, 'outrank_task_conduct_ranking')
    m = fn.module
    E = lambda s: expected_term(m, s)
    # annotation
    found = 0
    for n in own_nodes(fn.node):
        if isinstance(n, ast.Assign) and isinstance(n.targets[0], ast.Name) and n.targets[0].id.startswith('card_'):
            t = term_of(fn, n.value, inline=False)
            feat = 'feature_first' if 'first' in n.targets[0].id else 'feature_second'
            chk.expect(t == E(f'str(len(cardinality_object[{feat}]))'), 'C13.5d', 'R15', fn.site(n), ast.unparse(n), 'annotation shows len(sketch) of that feature', f'cardinality annotation must be str(len(cardinality_object[{feat}])); found {show(t)[:100]}')
            found += 1
        if isinstance(n, ast.Assign) and isinstance(n.targets[0], ast.Name) and n.targets[0].id.startswith('cov_'):
            t = term_of(fn, n.value, inline=False)
            feat = 'feature_first' if 'first' in n.targets[0].id else 'feature_second'
            forms = [E(f'int(round(numpy.mean(numpy.array(coverage_object[{feat}])), 1))'), E(f'int(round(numpy.mean(coverage_object[{feat}]), 1))')]
            chk.expect(t in forms, 'C13.5e', 'R15', fn.site(n), ast.unparse(n), 'coverage annotation = mean of the per-batch percentages', f'coverage annotation must be int(round(mean(per-batch percentages), 1)); found {show(t)[:120]}')
            found += 1
    chk.require_count('annotation terms (card_*/cov_*)', found, 4)
    # histogram
    dcs = [n for n in own_nodes(fn.node) if isinstance(n, ast.DictComp) and 'more_than' in ast.unparse(n)]
    lam = [n for n in own_nodes(fn.node) if isinstance(n, ast.Assign) and isinstance(n.value, ast.Lambda) and isinstance(n.targets[0], ast.Name) and n.targets[0].id == 'more_than']
    if len(dcs) != 1 or len(lam) != 1:
        chk.unsure('C13.6', 'R15', fn.site(), 'value-repetition histogram', 'histogram construction not found')
        return
    lt = term_of(fn, lam[0].value, inline=False)
    lam_forms = [E('lambda n, ary: len(numpy.where(ary > n)[0])'), E('lambda n, ary: numpy.count_nonzero(ary > n)'), E('lambda n, ary: int(numpy.sum(ary > n))'), E('lambda n, ary: numpy.sum(ary > n)')]
    chk.expect(lt in lam_forms, 'C13.6a', 'R15', fn.site(lam[0]), ast.unparse(lam[0]), 'counts tracked values whose count is > n', f'the histogram entry must be the number of values with count > n (strict); found {show(lt)[:120]}')
    dc = dcs[0]
    try:
        ns = eval(compile(ast.Expression(dc.generators[0].iter), '<thresholds>', 'eval'), {'__builtins__': {'range': range}})  # literal arithmetic only
        ns = list(ns)
    except Exception:
        ns = None
    chk.expect(ns == [0, 1, 10, 100, 1000, 10000, 100000], 'C13.6b', 'R8', fn.site(dc), ast.unparse(dc.generators[0].iter), 'thresholds 0, 1, 10, ..., 10^5', f'thresholds must be [0, 1, 10, 100, 1000, 10000, 100000]; folded {ns}')
    g = dc.generators[0]
    v = g.target.id if isinstance(g.target, ast.Name) else None
    okd = ast.unparse(dc.key) == v and isinstance(dc.value, ast.Call) and ast.unparse(dc.value.func) == 'more_than' and ast.unparse(dc.value.args[0]) == v and not g.ifs
    hist = dc.value.args[1] if okd and len(dc.value.args) > 1 else None
    ht = term_of(fn, hist, inline=True) if hist is not None else None
    # the histogram source: np.array(list(v.default_counter.values()))
    okh = ht is not None and any(x[0] == 'attr' and x[2] == 'default_counter' for x in walk_term(ht)) and any(x[0] == 'attr' and x[2] == 'values' for x in walk_term(ht))
    chk.expect(okd and okh, 'C13.6c', 'R15', fn.site(dc), ast.unparse(dc)[:120], 'one entry per threshold from the exact counts of the bounded counter', 'histogram must map each threshold n to more_than(n, counts of the bounded counter)')


# -- 7 -----------------------------------------------------------------------------------------
def rare_table(repo, chk):
    fn = repo.func(CU, 'summarize_rare_counts')
    tc = fn.params[0]
    loops = [n for n in own_nodes(fn.node) if isinstance(n, ast.For) and isinstance(n.iter, ast.Call) and ast.unparse(n.iter) == f'{tc}.items()']
    ok = False
    if loops:
        lp = loops[0]
        if isinstance(lp.target, ast.Tuple) and len(lp.target.elts) == 2:
            k, cnt = lp.target.elts[0].id, lp.target.elts[1].id
            unp = [s for s in lp.body if isinstance(s, ast.Assign) and isinstance(s.targets[0], ast.Tuple) and isinstance(s.value, ast.Name) and s.value.id == k]
            aps = [c for c in ast.walk(lp) if isinstance(c, ast.Call) and isinstance(c.func, ast.Attribute) and c.func.attr == 'append']
            if unp and len(aps) == 1 and isinstance(aps[0].args[0], ast.List):
                a, b = [e.id for e in unp[0].targets[0].elts]
                ok = [ast.unparse(e) for e in aps[0].args[0].elts] == [a, b, cnt] and not any(isinstance(x, ast.If) for x in ast.walk(lp))
    chk.expect(ok, 'C13.7a', 'R15', fn.site(loops[0]) if loops else fn.site(), 'rows [namespace, value, count] for every entry of the store', 'rare table lists every remaining (column, value) with its exact count',
               'the rare-value table must contain one row [namespace, value, count] for every entry of the rare-value store, unfiltered')
    wr = [c for c in calls(fn, attr='to_csv') if 'rare_values.tsv' in ast.unparse(c)]
    okw = len(wr) == 1 and isinstance(wr[0].func.value, ast.Name) and any(isinstance(n, (ast.Assign, ast.AnnAssign)) and n.value is not None and ast.unparse(n.targets[0] if isinstance(n, ast.Assign) else n.target) == wr[0].func.value.id and 'DataFrame(' in ast.unparse(n.value) and loops and any(isinstance(c, ast.Call) and isinstance(c.func, ast.Attribute) and c.func.attr == 'append' and isinstance(c.func.value, ast.Name) and f'DataFrame({c.func.value.id})' in ast.unparse(n.value) for c in ast.walk(loops[0])) for n in own_nodes(fn.node)) \
        and not _conditional(fn, wr[0])
    chk.expect(okw, 'C13.7d', 'origin', fn.site(wr[0]) if wr else fn.site(), ast.unparse(wr[0]).replace('\n', ' ')[:120] if wr else 'out_df.to_csv(rare_values.tsv)', 'rare_values.tsv is written from exactly these rows', 'rare_values.tsv must be written, unconditionally, from the frame of all [namespace, value, count] rows')
    cols = [n for n in own_nodes(fn.node) if isinstance(n, ast.Assign) and ast.unparse(n.targets[0]).endswith('.columns') and isinstance(n.value, ast.List)]
    okc = any([getattr(e, 'value', None) for e in n.value.elts] == ['Namespace', 'value', 'Count'] for n in cols)
    chk.expect(okc, 'C13.7b', 'R8', fn.site(cols[0]) if cols else fn.site(), "columns ['Namespace', 'value', 'Count']", 'columns in row order', 'column labels of the rare table must be Namespace, value, Count in row order')
    # the ranking task passes the returned store
    rk = repo.func(TR, 'outrank_task_conduct_ranking')
    est = repo.func(CR, 'estimate_importances_minibatches')
    rets = returns(est)
    idx = None
    if len(rets) == 1 and isinstance(rets[0].value, ast.Tuple):
        for i, e in enumerate(rets[0].value.elts):
            if 'GLOBAL_RARE_VALUE_STORAGE' in ast.unparse(e):
                idx = i
    name = None
    for n in own_nodes(rk.node):
        if isinstance(n, ast.Assign) and isinstance(n.targets[0], ast.Tuple) and isinstance(n.value, ast.Call) and rk.module.dotted(n.value.func) == f'{CR}.estimate_importances_minibatches' and idx is not None and idx < len(n.targets[0].elts):
            name = ast.unparse(n.targets[0].elts[idx])
    cs = [c for c in calls(rk) if rk.module.dotted(c.func) == f'{CU}.summarize_rare_counts']
    okp = bool(cs) and name is not None and ast.unparse(cs[0].args[0]) == name
    chk.expect(okp, 'C13.7c', 'R6', rk.site(cs[0]) if cs else rk.site(), ast.unparse(cs[0])[:100] if cs else 'summarize_rare_counts(...)', 'the table is built from the rare-value store returned by the streaming function', 'summarize_rare_counts must receive the rare-value store returned by estimate_importances_minibatches')
