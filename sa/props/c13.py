"""C13 - data-quality statistics are exact and independent of the batch split.

 1 (R5)  rare-value store and retirement set use one key shape (column, value) in every write, read, membership test, deletion
 2 (R14) retirement is count > bound; retired keys are never counted again (membership test dominates the increment);
         the retirement set only ever grows (never re-bound to something else)
 3 (R3/R13, R2) per-column sketch / bounded counter constructed only under `column not in STORE`; stores written only by their owners
 4       cardinality insert: every non-empty distinct value of the batch, hashed by internal_hash (bytes to xxhash);
         bounded counter fed item by item with every row value
 5 (R15) coverage = (1 - missing/rows) * 100 with missing summed over the missing-symbol set; annotation = len(sketch), mean of batches
 6 (R15) repetition histogram: for n in {0, 1, 10, ..., 10^5}: number of tracked values with count > n
 7       rare table rows = (namespace, value, count) of the returned rare-value store

Split independence: with (1)-(2) a pair's fate depends only on its running total, which is additive over any split; with (3) the
sketches see the union of the batches; with C14 they are duplicate-blind.
"""
from __future__ import annotations

import ast

from ..cfg import CFG
from ..match import calls, expected_term, local_aliases, mutations_of, package_mutations, returns, term_of
from ..model import own_nodes, parents
from ..terms import Canon, Scope, show, walk_term
from .common import CR

EXPLANATION = ('Key-shape agreement (R5) between all uses of the rare-value store and the retirement set; comparison normal form (R14) of the retirement test and guard dominance (R3) of '
               'the increment by the membership test; init-once (R13) and who-may-write (R2) for the four process-global stores; loop-domain obligations on the sketch and counter feeding; '
               'canonical-term equality (R15) of the coverage, annotation and histogram formulas; API fact that xxhash receives bytes. Decides mechanism, not the statistics of actual data.')
TRUSTED_BASE = ['xxhash >= 4 rejects str input; bytes accepted by every version', 'collections.Counter semantics; list.count(x) is the exact number of occurrences',
                'the bounded counter and the sketch themselves: C15 / C14']
ASSUMPTIONS = ['cardinality is exact below the warm-up capacity and up to 32-bit hash collisions (statement)']

CU = 'outrank.core_utils'
TR = 'outrank.task_ranking'


def run(repo, chk, tier):
    rare_values(repo, chk)
    sketches(repo, chk)
    writers(repo, chk)
    hash_bytes(repo, chk)
    coverage(repo, chk)
    annotation_and_histogram(repo, chk)
    rare_table(repo, chk)
    raw_values(repo, chk)


# -- 1 / 2 ---------------------------------------------------------------------------------
def _subst_env(stmt, res):
    """the statement with the path's final bindings substituted (to see through local aliases of the stores)"""
    import copy
    from ..match import _Subst
    try:
        return ast.fix_missing_locations(_Subst({k: v for k, v in (res.env or {}).items() if v is not None}).visit(copy.deepcopy(stmt)))
    except Exception:
        return stmt


def _retarget(g):
    """guard of a comprehension over store.items() re-expressed over the loop markers (key = lvar 0/0, count = lvar 0/1)"""
    def rec(t):
        if t == ('sub', ('cvar', 0, 0), ('num', 0)):
            return ('lvar', 0, 0)
        if t == ('sub', ('cvar', 0, 0), ('num', 1)):
            return ('lvar', 0, 1)
        if isinstance(t, tuple):
            return tuple(rec(x) for x in t)
        return t
    return rec(g)


from .common import loop_terms as _loop_terms  # noqa: E402


def _set_updates_as_loops(fn, set_names):
    """S.update(<iterable>) on a set S (a statement) adds the elements one by one: rewritten, on a copy of the function, as
    `for k in <iterable>: S.add(k)` so that the rules about `S.add(key)` see it.  S: the named module-level sets and local aliases of them."""
    import copy
    from ..model import Func
    names = set(set_names)
    for n in own_nodes(fn.node):
        if isinstance(n, ast.Assign) and len(n.targets) == 1 and isinstance(n.targets[0], ast.Name) and isinstance(n.value, ast.Name) and n.value.id in names:
            names.add(n.targets[0].id)
    hits = [n for n in own_nodes(fn.node) if isinstance(n, ast.Expr) and isinstance(n.value, ast.Call) and isinstance(n.value.func, ast.Attribute) and n.value.func.attr == 'update'
            and isinstance(n.value.func.value, ast.Name) and n.value.func.value.id in names and len(n.value.args) == 1 and not n.value.keywords]
    if not hits:
        return fn
    node = copy.deepcopy(fn.node)
    k = 0
    for holder in ast.walk(node):
        for field in ('body', 'orelse', 'finalbody'):
            body = getattr(holder, field, None)
            if not isinstance(body, list):
                continue
            for i, st in enumerate(body):
                if isinstance(st, ast.Expr) and isinstance(st.value, ast.Call) and isinstance(st.value.func, ast.Attribute) and st.value.func.attr == 'update' and isinstance(st.value.func.value, ast.Name) \
                        and st.value.func.value.id in names and len(st.value.args) == 1 and not st.value.keywords:
                    k += 1
                    var = f'__upd{k}'
                    loop = ast.For(target=ast.Name(var, ast.Store()), iter=st.value.args[0],
                                   body=[ast.Expr(ast.Call(func=ast.Attribute(value=ast.Name(st.value.func.value.id, ast.Load()), attr='add', ctx=ast.Load()), args=[ast.Name(var, ast.Load())], keywords=[]))], orelse=[])
                    ast.copy_location(loop, st)
                    ast.fix_missing_locations(loop)
                    for y in ast.walk(loop):
                        if not hasattr(y, 'lineno'):
                            y.lineno = st.lineno
                    body[i] = loop
    return Func(fn.module, fn.qualname, node, fn.cls, fn.outer)


def rare_values(repo, chk):
    """compute_value_counts evaluated as a whole (loops that only apply effects are summarised as `for every element: effect`):
       (a) every (column, value) occurrence of the batch adds 1 to the rare-value store under that pair, unless the pair is retired;
       (b) a pair whose running count exceeds the bound is added to the retirement set and removed from the store."""
    from ..match import run_paths
    fn = repo.func(CR, 'compute_value_counts')
    m = fn.module
    frame, args = fn.params[0], fn.params[1]
    E = lambda src, b=None: expected_term(m, src, b or {})
    STORE, IGN = ('name', 'GLOBAL_RARE_VALUE_STORAGE'), ('name', 'IGNORED_VALUES')
    fn = _set_updates_as_loops(fn, {'IGNORED_VALUES'})
    paths = run_paths(fn, None, None, max_forks=4)
    if paths is None or not paths:
        chk.unsure('C13.1', 'R5', fn.site(), 'compute_value_counts', 'too many undecidable tests')
        return
    seen = set()
    for assume, res in paths:
        if res.unknown is not None:
            chk.unsure('C13.1', 'R5', fn.site(res.unknown), ast.unparse(res.unknown)[:80], 'a statement outside the vocabulary of effect loops (for every element: update a container) decides the counts')
            continue
        ups = [u for u in res.updates if u['kind'] == 'foreach']
        flat = [u for u in res.updates if u['kind'] != 'foreach']
        sig = tuple(ast.unparse(u['node'])[:60] for u in res.updates)
        if sig in seen:
            continue
        seen.add(sig)
        L0, L1 = ('lvar', 0, 0), ('lvar', 1, 0)
        # (a) the increments
        incs = [(u, _loop_terms(fn, u)) for u in ups if u['op'] in ('inc', 'store')]
        incs = [(u, t) for u, t in incs if t[5] == STORE]
        other_store_writes = [u for u in flat if term_of(fn, u['target'], inline=False) == STORE]
        for u in other_store_writes:
            chk.bad('C13.1', 'R5', fn.site(u['node']), ast.unparse(u['node'])[:100], 'the rare-value store is written outside the per-occurrence counting loop')
        if not incs:
            opaque = [e for e in res.effects if 'GLOBAL_RARE_VALUE_STORAGE' in ast.unparse(_subst_env(e, res)) or any(isinstance(x, ast.AugAssign) for x in ast.walk(e))]
            opaque += [u['node'] for u in res.updates if term_of(fn, u['target'], inline=False) == STORE and u['kind'] != 'foreach']
            # Counter.update(<elements>) counts every element once: a bulk form of the increments, not analysed element by element here
            opaque += [u['node'] for u in ups if u['op'] == 'call' and u.get('method') in ('update', 'subtract') and _loop_terms(fn, u)[5] == STORE]
            if opaque:
                chk.unsure('C13.1', 'R5', fn.site(opaque[0]), ast.unparse(opaque[0]).replace('\n', ' ')[:100], 'the loop that counts occurrences is outside the vocabulary of effect loops')
            else:
                chk.bad('C13.1', 'R5', fn.site(), 'storage[(column, value)] += 1', 'no increment of the rare-value store found')
            continue
        # local tallies: names bound to an empty Counter / defaultdict(int) in this function (a batch is counted there first and merged afterwards)
        tallies = {n.targets[0].id for n in own_nodes(fn.node) if isinstance(n, ast.Assign) and len(n.targets) == 1 and isinstance(n.targets[0], ast.Name) and isinstance(n.value, ast.Call)
                   and (ast.unparse(n.value) in ('Counter()', 'collections.Counter()', 'defaultdict(int)', 'collections.defaultdict(int)')
                        or ast.unparse(n.value.func) in ('Counter', 'collections.Counter'))}           # Counter(<the pairs of this batch>) is a per-batch tally too
        tallies |= local_aliases(fn, tallies) if tallies else set()

        def over_tally(ch):
            return ch[0] == 'call' and ch[1][0] == 'attr' and ch[1][2] == 'items' and ch[1][1][0] == 'name' and ch[1][1][1] in tallies
        for u, (chain, key, val, guard, _a, tgt) in incs:
            site = fn.site(u['node'])
            shown = ast.unparse(u['node'])
            if len(chain) == 1 and over_tally(chain[0]):
                # for pair, n in tally.items(): store[pair] += n  - the merge of a local tally that is also used for something else (otherwise it
                # would have been fused with its counting loop before the rules run): how the tally was counted is not analysed by this rule
                chk.unsure('C13.1c', 'R13', site, shown, f'the rare-value store is updated from the local tally `{chain[0][1][1][1]}`, which is used for more than this merge: the per-occurrence counting rules are not applied to it')
                continue
            cols_ok = len(chain) == 2 and chain[0] in (E(f'{frame}.columns'), E(frame), E(f'list({frame}.columns)'))
            val_forms = [expected_term(m, f'{frame}[C]{sfx}', {'C': L0}) for sfx in ('.values', '', '.values.tolist()', '.tolist()', '.to_numpy()')]
            vals_ok = len(chain) == 2 and chain[1] in val_forms
            # the batch counted once per distinct value: for value, n in Counter(column values).items(): store[(column, value)] += n
            counted = len(chain) == 2 and chain[1][0] == 'call' and chain[1][1][0] == 'attr' and chain[1][1][2] == 'items' and not chain[1][2] and chain[1][1][1][0] == 'call' \
                and chain[1][1][1][1] == ('lib', 'collections.Counter') and len(chain[1][1][1][2]) == 1 and chain[1][1][1][2][0] in val_forms
            vals_ok = vals_ok or counted
            chk.expect(cols_ok and vals_ok, 'C13.1c', 'R13', site, ' x '.join(ast.unparse(i)[:50] for _, i, _ in u['chain']), 'every value of every column of the batch is visited once', 'the counting loops must visit every row value of every column exactly once')
            chk.expect(key == ('tuple', L0, L1), 'C13.1a', 'R5', site, shown, 'store key is (column, value)', f'the rare-value store must be keyed by (column, value); found key {show(key)[:100]}')
            chk.expect(u['op'] == 'inc' and u.get('method') == 'Add' and (val == ('num', 1) and not counted or counted and val == ('lvar', 1, 1)), 'C13.1d', 'R13', site, shown, 'each occurrence counts 1', 'each occurrence must add exactly 1')
            # guard: the same key is not in the retirement set
            want_guard = ('cmp', 'notin', key, IGN) if key is not None else None
            if guard == want_guard:
                chk.ok('C13.1b', 'R5', site, shown, 'membership test on the retirement set uses the same key and dominates the increment')
            elif guard is not None and guard[0] == 'cmp' and guard[1] == 'notin' and guard[3] == IGN:
                chk.bad('C13.1b', 'R5', site, ast.unparse(u['guard'])[:100], f'the retirement set is tested with key {show(guard[2])} but filled with keys of shape {show(key)}: a retired pair is never recognised and is counted again from zero in the next batch')
            elif guard is None or not any(x == IGN for x in walk_term(guard)):
                chk.bad('C13.2b', 'R3', site, shown, f'the increment is not guarded by `(column, value) not in <retired set>`: retired pairs are counted again (guard found: {show(guard)[:80] if guard else "none"})')
            else:
                chk.unsure('C13.1b', 'R5', site, ast.unparse(u['guard'])[:100], 'the guard of the increment mentions the retirement set in a form that is not recognised')
        # (b) retirement
        adds = [(u, _loop_terms(fn, u)) for u in ups if u['op'] == 'call' and u['method'] == 'add']
        adds = [(u, t) for u, t in adds if t[5] == IGN]
        K, V = ('lvar', 0, 0), ('lvar', 0, 1)
        bound_t = E(f'{args}.rare_value_count_upper_bound')
        if not adds:
            chk.bad('C13.2a', 'R14', fn.site(), 'ignored.add(key)', 'pairs above the threshold are no longer retired')
        collected = {}     # local list name -> (guard, key) of what it collects over store.items()
        for u in ups:
            if u['op'] == 'call' and u['method'] == 'append' and isinstance(u['target'], ast.Name):
                chain, key, val, guard, a_, tgt = _loop_terms(fn, u)
                if len(chain) == 1 and chain[0] == E('GLOBAL_RARE_VALUE_STORAGE.items()') and a_ and a_[0] == K:
                    collected[u['target'].id] = guard
        for assume2, res2 in [(assume, res)]:
            for k2, v2 in (res2.env or {}).items():
                # keys collected by a comprehension: [k for k, v in store.items() if v > bound]
                if v2 is not None and isinstance(v2, (ast.ListComp, ast.SetComp, ast.GeneratorExp)):
                    t2 = term_of(fn, v2, inline=False)
                    if t2[0] in ('listcomp', 'setcomp', 'genexp') and len(t2[2]) == 1 and t2[2][0][0] == E('GLOBAL_RARE_VALUE_STORAGE.items()') and t2[1] == ('sub', ('cvar', 0, 0), ('num', 0)) and len(t2[2][0][1]) == 1:
                        g2 = t2[2][0][1][0]
                        collected[k2] = _retarget(g2)
        def coll_guard(ch):
            """(True, guard) when `ch` is a collection of store keys: a local list filled from store.items(), or the comprehension itself"""
            if ch[0] == 'name' and ch[1] in collected:
                return True, collected[ch[1]]
            if ch[0] in ('listcomp', 'setcomp', 'genexp') and len(ch[2]) == 1 and ch[2][0][0] == E('GLOBAL_RARE_VALUE_STORAGE.items()') and ch[1] == ('sub', ('cvar', 0, 0), ('num', 0)) and len(ch[2][0][1]) <= 1:
                return True, (_retarget(ch[2][0][1][0]) if ch[2][0][1] else None)
            return False, None
        for u, (chain, key, val, guard, a_, tgt) in adds:
            site = fn.site(u['node'])
            direct = len(chain) == 1 and chain[0] == E('GLOBAL_RARE_VALUE_STORAGE.items()') and a_ and a_[0] == K
            # retired pairs drawn from the items of a local (per-batch) tally under a test of THAT count
            src_chain = chain[0] if len(chain) == 1 else None
            if src_chain is not None and src_chain[0] == 'name':
                v_ = (res.env or {}).get(src_chain[1])
                if v_ is not None and isinstance(v_, (ast.ListComp, ast.SetComp, ast.GeneratorExp)):
                    src_chain = term_of(fn, v_, inline=False)
            tally_src = None
            if src_chain is not None and src_chain[0] in ('listcomp', 'setcomp', 'genexp') and len(src_chain[2]) == 1 and over_tally(src_chain[2][0][0]) and src_chain[2][0][1]:
                tally_src = src_chain[2][0][0][1][1][1]
            elif src_chain is not None and over_tally(src_chain) and guard is not None:
                tally_src = src_chain[1][1][1]
            if tally_src is not None:
                chk.bad('C13.2a', 'R14', site, ast.unparse(u['node'])[:100], f'the pairs to retire are chosen from the per-batch tally `{tally_src}` by its count: a pair is retired only when it exceeds the bound within ONE batch; '
                        'a pair that exceeds it across batches stays in the rare-value report, so the report depends on how the rows are split into batches')
                continue
            via_list = len(chain) == 1 and coll_guard(chain[0])[0] and a_ and a_[0] == K
            if direct or via_list:
                chk.ok('C13.1e', 'R5', site, ast.unparse(u['node']), 'retired keys are the keys of the store itself (same shape)')
            else:
                # retirement inside another loop (e.g. while counting): every pair retired there must leave the store there - a removal of the
                # same key, over the same loops, whenever the pair is retired
                arg = a_[0] if a_ else None
                removed = False
                for u2 in ups:
                    if u2['op'] == 'del' or (u2['op'] == 'call' and u2['method'] in ('pop', '__delitem__')):
                        ch2, key2, _v2, g2, a2, tgt2 = _loop_terms(fn, u2)
                        k2 = key2 if u2['op'] == 'del' else (a2[0] if a2 else None)
                        if tgt2 == STORE and ch2 == chain and k2 == arg and (g2 == guard or g2 is None):
                            removed = True
                if arg is not None and not removed:
                    chk.bad('C13.2c', 'R13', site, ast.unparse(u['node']), f'a pair is retired (added to the retirement set) under `{show(guard)[:100] if guard else "no condition"}` without being removed from the rare-value store on that path: '
                            'a count stored for it by an earlier batch stays in the store and is reported as a rare value')
                else:
                    chk.unsure('C13.1e', 'R5', site, ast.unparse(u['node']), 'pairs are retired outside a loop over the items of the rare-value store: whether exactly the pairs above the bound are retired is not decided')
            g = guard if direct else (coll_guard(chain[0])[1] if via_list else None)
            if direct or via_list:
                if g == ('cmp', '<', bound_t, V):
                    chk.ok('C13.2a', 'R14', site, show(g)[:100], 'a pair is retired exactly when its running count exceeds the bound')
                elif g is not None and g[0] == 'cmp' and any(x == V for x in walk_term(g)):
                    chk.bad('C13.2a', 'R14', site, show(g)[:100], f'retirement must be `count > args.rare_value_count_upper_bound` (rare = frequency <= bound); found {show(g)[:100]}')
                elif g is None:
                    chk.bad('C13.2a', 'R14', site, ast.unparse(u['node']), 'retirement is not guarded by `count > args.rare_value_count_upper_bound`')
                else:
                    chk.unsure('C13.2a', 'R14', site, show(g)[:100], 'the condition under which a pair is retired is not recognised')
        # every retired key leaves the store
        dels = [(u, _loop_terms(fn, u)) for u in ups if (u['op'] == 'del' or (u['op'] == 'call' and u['method'] == 'pop'))]
        dels = [(u, t) for u, t in dels if t[5] == STORE]
        ok_del = False
        for u, (chain, key, val, guard, a_, tgt) in dels:
            k_t = key if u['op'] == 'del' else (a_[0] if a_ else None)
            if len(chain) == 1 and chain[0] == E('GLOBAL_RARE_VALUE_STORAGE.items()') and k_t == K:
                # the removal ranges over the store's own items under a guard: the same guard as the retirement
                add_guards = [t[3] if (len(t[0]) == 1 and t[0][0] == E('GLOBAL_RARE_VALUE_STORAGE.items()')) else coll_guard(t[0][0])[1] for _, t in adds if t[0]]
                ok_del = guard in add_guards or not adds
            elif len(chain) == 1 and coll_guard(chain[0])[0] and k_t == K and guard is None:
                # the list holds exactly the keys that were retired (same guard as the additions to the retirement set)
                add_guards = [t[3] if (len(t[0]) == 1 and t[0][0] == E('GLOBAL_RARE_VALUE_STORAGE.items()')) else coll_guard(t[0][0])[1] for _, t in adds if t[0]]
                ok_del = coll_guard(chain[0])[1] in add_guards or not adds
        if adds and not dels:
            chk.bad('C13.2c', 'R13', fn.site(), 'for key in keys_to_remove: del storage[key]', 'a pair whose count exceeded the threshold is retired but not removed from the rare-value store: frequent values are reported as rare')
        elif adds:
            chk.expect(ok_del, 'C13.2c', 'R13', fn.site(dels[0][0]['node']), ast.unparse(dels[0][0]['node']), 'every retired pair leaves the rare-value report',
                       'a pair whose count exceeded the threshold is retired but not removed from the rare-value store: frequent values are reported as rare', soft=True)
    # 2d (independent of the path model): the pairs that exceed the bound are looked for among the RUNNING counts, never in a per-batch tally
    tallies_ = {n.targets[0].id for n in own_nodes(fn.node) if isinstance(n, ast.Assign) and len(n.targets) == 1 and isinstance(n.targets[0], ast.Name) and isinstance(n.value, ast.Call)
                and ast.unparse(n.value.func) in ('Counter', 'collections.Counter', 'defaultdict', 'collections.defaultdict')}
    tallies_ |= local_aliases(fn, tallies_) if tallies_ else set()
    bound_names = {'rare_value_count_upper_bound'} | {n.targets[0].id for n in own_nodes(fn.node) if isinstance(n, ast.Assign) and len(n.targets) == 1 and isinstance(n.targets[0], ast.Name)
                                                      and isinstance(n.value, ast.Attribute) and n.value.attr == 'rare_value_count_upper_bound'}
    for n in own_nodes(fn.node):
        gens = n.generators if isinstance(n, (ast.ListComp, ast.SetComp, ast.GeneratorExp, ast.DictComp)) else []
        for g in gens:
            it = g.iter
            if isinstance(it, ast.Call) and isinstance(it.func, ast.Attribute) and it.func.attr == 'items' and isinstance(it.func.value, ast.Name) and it.func.value.id in tallies_ \
                    and any(isinstance(x, ast.Compare) and any((isinstance(y, ast.Name) and y.id in bound_names) or (isinstance(y, ast.Attribute) and y.attr == 'rare_value_count_upper_bound') for y in ast.walk(x)) for c_ in g.ifs for x in ast.walk(c_)):
                chk.bad('C13.2a', 'R14', fn.site(n), ast.unparse(n).replace('\n', ' ')[:120], f'the pairs above the bound are looked for in the per-batch tally `{it.func.value.id}`: a pair is retired only when it exceeds the bound within ONE batch; '
                        'a pair that exceeds it across batches stays in the rare-value report, so the report depends on how the rows are split into batches')
    store_al = {'GLOBAL_RARE_VALUE_STORAGE'} | local_aliases(fn, {'GLOBAL_RARE_VALUE_STORAGE'})
    ign_al = {'IGNORED_VALUES'} | local_aliases(fn, {'IGNORED_VALUES'})
    # the retirement set persists: the global is re-bound only to its own alias; the alias is the global (not a fresh set)
    for n in own_nodes(fn.node):
        if isinstance(n, ast.Assign) and len(n.targets) == 1 and isinstance(n.targets[0], ast.Name):
            tn = n.targets[0].id
            if tn == 'IGNORED_VALUES':
                ok = isinstance(n.value, ast.Name) and n.value.id in ign_al
                chk.expect(ok, 'C13.2d', 'R13', fn.site(n), ast.unparse(n), 'retirement set persists across batches', 'IGNORED_VALUES is re-bound to a new object: pairs retired in earlier batches are forgotten and counted again')
            if tn == 'GLOBAL_RARE_VALUE_STORAGE':
                ok = isinstance(n.value, ast.Name) and n.value.id in store_al
                chk.expect(ok, 'C13.2d', 'R13', fn.site(n), ast.unparse(n), 'rare-value store persists across batches', 'GLOBAL_RARE_VALUE_STORAGE is re-bound to a new object: running counts are lost between batches')
            if tn in ign_al and tn != 'IGNORED_VALUES':
                ok = isinstance(n.value, ast.Name) and n.value.id in ign_al
                chk.expect(ok, 'C13.2d', 'R13', fn.site(n), ast.unparse(n), 'local alias of the retirement set', 'the local retirement set is not the global one')
    # the call: only for the rare-value task, on the batch frame
    cbr = repo.func(CR, 'compute_batch_ranking')
    cs = [c for c in calls(cbr) if cbr.module.dotted(c.func) == f'{CR}.compute_value_counts']
    chk.expect(len(cs) == 1, 'C13.1f', 'R7', cbr.site(cs[0]) if cs else cbr.site(), 'compute_value_counts(input_dataframe, args)', 'called once per batch', 'compute_value_counts must be called exactly once per batch')


# -- 3 / 4 ---------------------------------------------------------------------------------
def sketches(repo, chk):
    """One column of one batch in compute_cardinalities, path by path (tests forked, assignments substituted, effect loops summarised):
       the sketch / bounded counter of the column is constructed only when the column has none yet; the counter receives every row value
       item by item; the sketch receives internal_hash(v) of every distinct value v of the column except the empty string."""
    from ..match import run_paths
    fn = repo.func(CR, 'compute_cardinalities')
    m = fn.module
    frame = fn.params[0]
    E = lambda src, bnd=None: expected_term(m, src, bnd or {})
    col_loops = [n for n in fn.node.body if isinstance(n, ast.For)]
    cl, col = None, None
    for n in col_loops:
        it = term_of(fn, n.iter, inline=True)
        if it in (E(f'enumerate({frame}.columns)'), E(f'enumerate({frame})'), E(f'enumerate({frame}.columns, 1)'), E(f'enumerate({frame}.columns, start=1)')) and isinstance(n.target, ast.Tuple) and len(n.target.elts) == 2 and isinstance(n.target.elts[1], ast.Name):
            cl, col = n, n.target.elts[1].id
        elif it in (E(f'{frame}.columns'), E(frame)) and isinstance(n.target, ast.Name):
            cl, col = n, n.target.id
    if cl is None:
        cand = [n for n in col_loops if any('GLOBAL_CARDINALITY_STORAGE' in ast.unparse(x) for x in ast.walk(n))]
        if cand:
            chk.bad('C13.3a', 'R13', fn.site(cand[0]), ast.unparse(cand[0].iter), 'the loop must range over all columns of the batch frame', soft=True)
        else:
            chk.unsure('C13.3', 'R13', fn.site(), 'for column in frame.columns', 'column loop not found')
        return
    chk.ok('C13.3a', 'R13', fn.site(cl), ast.unparse(cl.iter), 'every column of the batch is visited')
    paths = run_paths(fn, None, None, max_forks=6, body=cl.body)
    if paths is None:
        chk.unsure('C13.3', 'R13', fn.site(cl), 'per-column body', 'too many undecidable tests in the per-column body')
        return
    C = ('name', col)
    stores = {'GLOBAL_CARDINALITY_STORAGE': ('outrank.algorithms.sketches.counting_ultiloglog.HyperLogLogWCache', 'C13.3b'), 'GLOBAL_COUNTS_STORAGE': ('outrank.algorithms.sketches.counting_counters_ordinary.PrimitiveConstrainedCounter', 'C13.3c')}
    col_vals = [E(f'{frame}[{col}]{sfx}') for sfx in ('.values', '', '.values.tolist()', '.tolist()', '.to_numpy()')]
    distinct = [E(f'set({frame}[{col}])'), E(f'{frame}[{col}].unique()'), E(f'set({frame}[{col}].values)'), E(f'set({frame}[{col}].tolist())'), E(f'set({frame}[{col}].values.tolist())'), E(f'{frame}[{col}].drop_duplicates()')] + col_vals
    res_ok = {k: [] for k in ('C13.3b', 'C13.3c', 'C13.4a', 'C13.4b', 'C13.4c', 'C13.4d')}
    problems = {}
    n_eval = 0
    for assume, res in paths:
        if res.unknown is not None:
            chk.unsure('C13.3', 'R13', fn.site(res.unknown), ast.unparse(res.unknown)[:80], 'a statement outside the vocabulary of effect loops in the per-column body')
            continue
        n_eval += 1
        has = {}
        for t_ast, v in res.assumed:
            tt = term_of(fn, t_ast, inline=False)
            for st in stores:
                if tt == E(f'{col} not in {st}'):
                    has[st] = not v
                elif tt == E(f'{col} in {st}'):
                    has[st] = v
                elif tt in (E(f'{st}.get({col}) is None'), E(f'{st}.get({col}) == None')):
                    has[st] = not v          # (the stores hold sketches / counters, never None)
                elif tt in (E(f'{st}.get({col}) is not None'), E(f'{st}.get({col}) != None')):
                    has[st] = v
        # construction of the per-column objects
        for st, (ctor, oid) in stores.items():
            inits = [u for u in res.updates if u['kind'] == 'store1' and term_of(fn, u['target'], inline=False) == ('name', st)]
            for u in inits:
                key_ok = term_of(fn, u['key'], inline=False) == C
                c_ok = isinstance(u['value'], ast.Call) and m.dotted(u['value'].func) == ctor
                if has.get(st) is False and key_ok and c_ok:
                    res_ok[oid].append(u)
                else:
                    problems.setdefault(oid, (u['node'], f'{st}[{col}] must be constructed only under `{col} not in {st}`: otherwise the sketch/counter is reset every batch and the statistic depends on the batch split'))
            if has.get(st) is False and not inits:
                problems.setdefault(oid, (cl, f'no construction of {st}[{col}] on the path where the column has no entry yet'))
        # the feeding loops
        feeds = [u for u in res.updates if u['kind'] == 'foreach' and u['op'] == 'call']
        cnt_feeds, sk_feeds = [], []
        # other spellings of "the object of this column": STORE.get(column) where it exists, and the object that was just stored under STORE[column]
        same_obj = {}
        for st in stores:
            same_obj[('call', ('attr', ('name', st), 'get'), (C,), ())] = ('sub', ('name', st), C)
            for u0 in res.updates:
                if u0['kind'] == 'store1' and term_of(fn, u0['target'], inline=False) == ('name', st) and term_of(fn, u0['key'], inline=False, bound={col: C}) == C:
                    same_obj[term_of(fn, u0['value'], inline=False, bound={col: C})] = ('sub', ('name', st), C)
                    nd0 = u0.get('node')
                    if isinstance(nd0, ast.Assign) and isinstance(nd0.value, ast.Name):
                        same_obj[('name', nd0.value.id)] = ('sub', ('name', st), C)      # STORE[column] = obj: obj is that object from here on
        for u in feeds:
            chain, key, val, guard, a_, tgt = _loop_terms(fn, u, {col: C})
            tgt = same_obj.get(tgt, tgt)
            if tgt == ('sub', ('name', 'GLOBAL_COUNTS_STORAGE'), C):
                cnt_feeds.append((u, chain, guard, a_))
            elif tgt == ('sub', ('name', 'GLOBAL_CARDINALITY_STORAGE'), C):
                sk_feeds.append((u, chain, guard, a_))
            elif tgt[0] == 'sub' and tgt[1] in (('name', 'GLOBAL_COUNTS_STORAGE'), ('name', 'GLOBAL_CARDINALITY_STORAGE')):
                problems.setdefault('C13.4c', (u['node'], f'the statistic of column `{col}` is fed into the object of another key ({show(tgt)[:60]})'))
        flat_calls = [(term_of(fn, c['call'], inline=False), c) for c in res.calls]
        for t, c in flat_calls:
            if t[0] == 'call' and t[1][0] == 'attr' and t[1][1] == ('sub', ('name', 'GLOBAL_COUNTS_STORAGE'), C) and t[1][2] != 'add':
                problems.setdefault('C13.4a', (c['node'], f'the bounded counter must be fed item by item with .add (the bound is checked per item); .{t[1][2]} checks the bound once per batch, so the number of tracked values depends on the batch split'))
        L = ('lvar', 0, 0)
        if len(cnt_feeds) == 1:
            u, chain, guard, a_ = cnt_feeds[0]
            ok = u['method'] == 'add' and len(chain) == 1 and chain[0] in col_vals and guard is None and a_ == [L]
            if u['method'] != 'add':
                problems.setdefault('C13.4a', (u['node'], f'the bounded counter must be fed item by item with .add (the bound is checked per item); .{u["method"]} is used'))
            elif ok:
                res_ok['C13.4a'].append(u)
            else:
                problems.setdefault('C13.4a', (u['node'], 'the bounded counter is not fed with every row value of the column item by item'))
        elif not cnt_feeds and 'C13.4a' not in problems:
            opaque = [e for e in res.effects if 'GLOBAL_COUNTS_STORAGE' in ast.unparse(_subst_env(e, res))]
            problems.setdefault('C13.4a', (opaque[0] if opaque else cl, 'the bounded counter is not fed with every row value of the column item by item', bool(opaque)))
        if len(sk_feeds) == 1:
            u, chain, guard, a_ = sk_feeds[0]
            dom_ok = u['method'] == 'add' and len(chain) == 1 and chain[0] in distinct
            if dom_ok:
                res_ok['C13.4b'].append(u)
            else:
                problems.setdefault('C13.4b', (u['node'], f'the sketch must be fed from all (distinct) values of the column; loop ranges over {show(chain[0])[:100] if chain else None}'))
            hash_ok = a_ in ([expected_term(m, f'{CU}.internal_hash(V)', {'V': L})], [expected_term(m, f'{CU}.internal_hash(str(V))', {'V': L})])
            if hash_ok:
                res_ok['C13.4c'].append(u)
            else:
                problems.setdefault('C13.4c', (u['node'], 'the sketch of the column must receive internal_hash(value) of the value itself'))
            empties = [expected_term(m, src, {'V': L}) for src in ("V != ''", "not (isinstance(V, str) and V == '')", "not isinstance(V, str) or V != ''", 'V is not None', "not (isinstance(V, str) and len(V) == 0)")]
            if guard is None or guard in empties:
                res_ok['C13.4d'].append(u)
            elif guard == L:
                problems.setdefault('C13.4d', (u['node'], 'the truthiness test skips the empty string but also the numeric values 0 / 0.0 (noise control columns): a constant-zero column gets cardinality 0'))
            else:
                problems.setdefault('C13.4d', (u['node'], f'only the empty value may be skipped when feeding the sketch; guard: {show(guard)[:100]}'))
        elif not sk_feeds and 'C13.4b' not in problems:
            opaque = [e for e in res.effects if 'GLOBAL_CARDINALITY_STORAGE' in ast.unparse(_subst_env(e, res))]
            problems.setdefault('C13.4b', (opaque[0] if opaque else cl, 'the cardinality sketch is no longer fed with the distinct values of the batch', bool(opaque)))
    good = {'C13.3b': 'sketch constructed once per column', 'C13.3c': 'bounded counter constructed once per column', 'C13.4a': 'every row value of the column is counted, item by item',
            'C13.4b': 'all distinct values of the column in the batch are inserted', 'C13.4c': 'value -> internal_hash(value) -> sketch of its column', 'C13.4d': 'only empty values are skipped'}
    for oid, why_ok in good.items():
        if oid in problems:
            pr = problems[oid]
            node, why = pr[0], pr[1]
            if len(pr) > 2 and pr[2]:
                chk.unsure(oid, 'R13', fn.site(node), ast.unparse(node).replace('\n', ' ')[:100], 'the statement that feeds the statistic is outside the vocabulary of effect loops; the rule would report: ' + why)
            else:
                chk.bad(oid, 'R13' if oid != 'C13.4c' else 'R6', fn.site(node), ast.unparse(node).replace('\n', ' ')[:100], why)
        elif res_ok[oid] or n_eval:
            chk.ok(oid, 'R13', fn.site(cl), f'{n_eval} path(s) of the per-column body', why_ok)
    # called once per batch on the final frame
    cbr = repo.func(CR, 'compute_batch_ranking')
    cs = [c for c in calls(cbr) if cbr.module.dotted(c.func) == f'{CR}.compute_cardinalities']
    chk.expect(len(cs) == 1 and not _conditional(cbr, cs[0]), 'C13.3d', 'R1', cbr.site(cs[0]) if cs else cbr.site(), 'compute_cardinalities(input_dataframe, ...)', 'every batch updates the sketches', 'compute_cardinalities must run unconditionally once per batch')


def _conditional(fn, node):
    par = parents(fn.node)
    cur = par.get(node)
    while cur is not None and cur is not fn.node:
        if isinstance(cur, (ast.If, ast.For, ast.While, ast.Try)):
            return True
        cur = par.get(cur)
    return False


def writers(repo, chk):
    owners = {'GLOBAL_CARDINALITY_STORAGE': {'compute_cardinalities'}, 'GLOBAL_COUNTS_STORAGE': {'compute_cardinalities'},
              'GLOBAL_RARE_VALUE_STORAGE': {'compute_value_counts'}, 'IGNORED_VALUES': {'compute_value_counts'}}
    nfun = sum(len(m.funcs) for m in repo.modules.values())
    for store, own in owners.items():
        bad = [(f, n, k) for f, n, k in package_mutations(repo, CR, {store}) if f.qualname not in own]
        for f, n, k in bad:
            chk.bad('C13.3e', 'R2', f.site(n), ast.unparse(n)[:100], f'{store} is mutated outside {sorted(own)} ({k})')
        if not bad:
            chk.ok('C13.3e', 'R2', repo.mod(CR).relpath, f'writers of {store}: {sorted(own)}', f'{nfun} functions scanned', inspected=nfun)
    # what the streaming function hands out are copies of the stores themselves
    est = repo.func(CR, 'estimate_importances_minibatches')
    rets = returns(est)
    if len(rets) == 1 and isinstance(rets[0].value, ast.Tuple):
        txt = [ast.unparse(e) for e in rets[0].value.elts]
        for store in ('GLOBAL_CARDINALITY_STORAGE', 'GLOBAL_RARE_VALUE_STORAGE', 'GLOBAL_COUNTS_STORAGE'):
            chk.expect(f'{store}.copy()' in txt or store in txt, 'C13.3f', 'R6', est.site(rets[0]), f'{store}.copy()', 'the store is returned as is', f'{store} is no longer returned unmodified by the streaming function')


def hash_bytes(repo, chk):
    """internal_hash must hand bytes to xxhash for every kind of value a frame column can hold: str from the parsers, and numpy
    ints / floats from the noise control columns (a small type-flow over the function body: isinstance refinements, str(), .encode())."""
    fn = repo.func(CU, 'internal_hash')
    p = fn.params[0]
    cs = calls(fn, dotted=('xxhash.xxh32', 'xxhash.xxh64', 'xxhash.xxh3_64', 'xxhash.xxh128'))
    if len(cs) != 1:
        chk.unsure('C13.4e', 'API', fn.site(), 'xxhash.xxh32(...)', 'digest constructor not found')
        return
    c = cs[0]
    # what the cardinality step passes in
    card = repo.func(CR, 'compute_cardinalities')
    incoming = set()
    for cc in calls(card):
        if card.module.dotted(cc.func) == f'{CU}.internal_hash' and cc.args:
            a = cc.args[0]
            incoming |= {'str'} if (isinstance(a, ast.Call) and isinstance(a.func, ast.Name) and a.func.id == 'str') else {'str', 'int', 'float'}
    if not incoming:
        incoming = {'str', 'int', 'float'}
    problems = []
    unknown = []

    def types_of(test):
        """(negated, names) for isinstance(p, T) / not isinstance(p, T)"""
        neg = False
        while isinstance(test, ast.UnaryOp) and isinstance(test.op, ast.Not):
            neg, test = not neg, test.operand
        if isinstance(test, ast.Call) and isinstance(test.func, ast.Name) and test.func.id == 'isinstance' and len(test.args) == 2 and isinstance(test.args[0], ast.Name) and test.args[0].id == p:
            t = test.args[1]
            names = {ast.unparse(x) for x in (t.elts if isinstance(t, ast.Tuple) else [t])}
            return neg, names
        return None

    def value_type(e, types):
        if isinstance(e, ast.Name) and e.id == p:
            return set(types)
        if isinstance(e, ast.Call) and isinstance(e.func, ast.Name) and e.func.id in ('str', 'repr') and len(e.args) == 1:
            return {'str'}
        if isinstance(e, ast.Call) and isinstance(e.func, ast.Name) and e.func.id == 'bytes':
            return {'bytes'}
        if isinstance(e, ast.Call) and isinstance(e.func, ast.Attribute) and e.func.attr == 'encode':
            base = value_type(e.func.value, types)
            if base is None:
                return None
            bad = base - {'str'}
            if bad:
                problems.append((e, f'.encode() is applied to a value that may be {sorted(bad)} (AttributeError)'))
            return {'bytes'}
        if isinstance(e, ast.JoinedStr):
            return {'str'}
        return None

    def flow(stmts, types):
        for st in stmts:
            if isinstance(st, ast.Expr) and isinstance(st.value, ast.Constant):
                continue
            if isinstance(st, ast.If):
                r = types_of(st.test)
                if r is None:
                    unknown.append(st)
                    t1 = flow(st.body, set(types))
                    t2 = flow(st.orelse, set(types))
                    types = t1 | t2
                    continue
                neg, names = r
                inside = {t for t in types if t in names}
                tb, fb = (types - inside, inside) if neg else (inside, types - inside)
                t1 = flow(st.body, tb) if tb else set()
                t2 = flow(st.orelse, fb) if fb else set()
                types = t1 | t2
                continue
            if isinstance(st, ast.Assign) and len(st.targets) == 1 and isinstance(st.targets[0], ast.Name) and st.targets[0].id == p:
                vt = value_type(st.value, types)
                if vt is None:
                    unknown.append(st)
                    vt = set(types)
                types = vt
                continue
            for call in [n for n in ast.walk(st) if n is c]:
                a0 = call.args[0] if call.args else None
                vt = value_type(a0, types) if a0 is not None else None
                if vt is None:
                    unknown.append(st)
                else:
                    bad = vt - {'bytes'}
                    if bad:
                        problems.append((call, f'xxhash receives a value that may be {sorted(bad)} (TypeError: str must be encoded, numbers converted with str() first)'))
        return types
    flow(fn.node.body, set(incoming))
    if unknown and not problems:
        chk.unsure('C13.4e', 'R16', fn.site(unknown[0]), ast.unparse(unknown[0])[:100], 'statement outside the type-flow vocabulary (isinstance tests, str(), .encode())')
    else:
        chk.expect(not problems, 'C13.4e', 'R16', fn.site(problems[0][0]) if problems else fn.site(c), ast.unparse(c), f'values of kind {sorted(incoming)} all reach xxhash as bytes',
                   (problems[0][1] if problems else '') + ': the cardinality sketches cannot be updated for such a column (numeric noise controls / str values)')
    seed = [k for k in c.keywords if k.arg == 'seed']
    def _const_seed(e):
        if isinstance(e, ast.Constant):
            return True
        if isinstance(e, ast.Name):
            vs = fn.module.assigns.get(e.id, [])
            return len(vs) == 1 and isinstance(vs[0], ast.Constant) and not fn.module.rebinds_global(e.id) and e.id not in fn.params
        return False
    chk.expect(bool(seed) and _const_seed(seed[0].value), 'C13.4f', 'R8', fn.site(c), ast.unparse(c), 'constant seed: the hash of a value is the same in every batch and process', 'internal_hash must use a constant seed (same value -> same hash in every batch)')


# -- 5 -----------------------------------------------------------------------------------------
def coverage(repo, chk):
    fn = repo.func(CR, 'compute_coverage')
    m = fn.module
    frame, args = fn.params[0], fn.params[1]
    stores = [n for n in own_nodes(fn.node) if isinstance(n, ast.Assign) and isinstance(n.targets[0], ast.Subscript)]
    loops = [n for n in own_nodes(fn.node) if isinstance(n, ast.For)]
    if len(stores) != 1 or not loops:
        chk.unsure('C13.5', 'R15', fn.site(), 'coverage[column] = ...', 'unexpected structure of compute_coverage')
        return
    from .common import stale_parameter_caches
    for cname, node in stale_parameter_caches(fn):
        chk.bad('C13.5a', 'R10', fn.site(node), ast.unparse(node)[:100], f'the configuration is cached in the module-level `{cname}` on first use (filled only while it is empty) and read from there afterwards: every later call in the process - another data set, other missing-value symbols - '
                'is computed with the first call\'s symbols, so the coverage no longer equals the exact recomputation for the configured symbols')
    st = stores[0]
    lp = loops[0]
    col = lp.target.id if isinstance(lp.target, ast.Name) else None
    E = lambda s: expected_term(m, s)
    t = term_of(fn, st.value, inline=True)
    # flow-sensitive: one iteration of the column loop evaluated as a path (locals substituted in program order, an accumulation loop summarised)
    try:
        from ..match import run_paths
        ps = run_paths(fn, None, None, max_forks=2, body=lp.body)
        if ps and len(ps) == 1 and ps[0][1].unknown is None:
            ups = [u for u in ps[0][1].updates if u['kind'] == 'store1']
            if len(ups) == 1:
                # names bound before the loop
                pre = {}
                for b in fn.node.body:
                    if b is lp:
                        break
                    if isinstance(b, ast.Assign) and len(b.targets) == 1 and isinstance(b.targets[0], ast.Name):
                        pre[b.targets[0].id] = term_of(fn, b.value, inline=False, bound=dict(pre))
                t2 = term_of(fn, ups[0]['value'], inline=False, bound=pre)

                def fold_is_sum(x):
                    if isinstance(x, tuple):
                        x = tuple(fold_is_sum(y) for y in x)
                        if len(x) == 4 and x[0] == 'call' and x[1] == ('name', '__fold_add__'):
                            return ('call', ('name', 'sum'), x[2], x[3])
                    return x
                t = fold_is_sum(t2)
    except Exception:
        pass
    # the symbols are a SET: the flag may list a symbol twice (`',{},'` yields '' twice), and a list would count its occurrences twice
    miss_sets = [f"set({args}.missing_value_symbols.split(','))", f"frozenset({args}.missing_value_symbols.split(','))", f"dict.fromkeys({args}.missing_value_symbols.split(','))",
                 f"sorted(set({args}.missing_value_symbols.split(',')))", f"list(set({args}.missing_value_symbols.split(',')))"]
    bare = E(f"{args}.missing_value_symbols.split(',')")
    dedup = {E(x) for x in miss_sets}

    def _dup_counted(x):
        """the per-symbol counts are summed over the bare split list"""
        for y in walk_term(x):
            if isinstance(y, tuple) and y and y[0] in ('listcomp', 'genexp') and len(y) > 2 and any(g[0] == bare for g in y[2]):
                return True
        return False
    if _dup_counted(t) and not any(d in list(walk_term(t)) for d in dedup):
        chk.bad('C13.5a', 'R15', fn.site(st), ast.unparse(st)[:140], 'the occurrences of the missing symbols are summed over the raw list `missing_value_symbols.split(\',\')`: a symbol that the flag lists twice '
                '(a trailing or doubled comma lists the empty string twice) is counted twice, so the coverage is under-reported and can fall below 0')
        return
    vals = [f'{frame}[{col}].values.tolist()', f'{frame}[{col}].tolist()', f'list({frame}[{col}])']
    forms = []
    for ms in miss_sets:
        for v in vals:
            for summ in (f'sum([{v}.count(x) for x in {ms}])', f'sum({v}.count(x) for x in {ms})'):
                for rows in (f'{frame}.shape[0]', f'len({frame})'):
                    forms.append(E(f'(1 - {summ} / {rows}) * 100'))
                    forms.append(E(f'100 * (1 - {summ} / {rows})'))
    chk.expect_term(t, forms, 'C13.5a', 'R15', fn.site(st), ast.unparse(st)[:160], 'coverage = (1 - missing/rows) * 100, missing = exact occurrences of the missing symbols',
               f'coverage must be (1 - (sum of exact occurrence counts of the missing symbols) / rows) * 100; found {show(t)[:220]}')
    chk.expect(ast.unparse(st.targets[0].slice) == col and term_of(fn, lp.iter, inline=True) in (E(frame), E(f'{frame}.columns')), 'C13.5b', 'R13', fn.site(lp), ast.unparse(lp.iter), 'one percentage per column of the batch', 'coverage must be stored per column for all columns')
    # per-batch accumulation in the streaming loop: local_coverage_object[k].append(v)
    est = repo.func(CR, 'estimate_importances_minibatches')
    apps = [c for c in calls(est, attr='append') if isinstance(c.func.value, ast.Subscript) and 'coverage' in ast.unparse(c.func.value.value)]
    par = parents(est.node)
    good = 0
    for c in apps:
        lp2 = par.get(par.get(c))
        if isinstance(lp2, ast.For) and isinstance(lp2.target, ast.Tuple) and isinstance(lp2.iter, ast.Call) and ast.unparse(lp2.iter.func).endswith('.items') and ast.unparse(c.func.value.slice) == lp2.target.elts[0].id and ast.unparse(c.args[0]) == lp2.target.elts[1].id:
            good += 1
    # the per-batch percentages are kept, one per batch: a store that replaces a column's list by an aggregate of itself (a running mean) makes the
    # final figure a mean of means that weights later batches more
    for n_ in own_nodes(est.node):
        if isinstance(n_, ast.Assign) and len(n_.targets) == 1 and isinstance(n_.targets[0], ast.Subscript) and 'coverage' in ast.unparse(n_.targets[0].value) \
                and any(isinstance(x, ast.Subscript) and ast.unparse(x.value) == ast.unparse(n_.targets[0].value) and ast.unparse(x.slice) == ast.unparse(n_.targets[0].slice) and isinstance(x.ctx, ast.Load) for x in ast.walk(n_.value)) \
                and any(isinstance(x, ast.Call) and ((est.module.dotted(x.func) or '') in ('numpy.mean', 'numpy.average', 'statistics.mean', 'numpy.median') or (isinstance(x.func, ast.Name) and x.func.id == 'sum')) for x in ast.walk(n_.value)):
            chk.bad('C13.5c', 'R13', est.site(n_), ast.unparse(n_).replace('\n', ' ')[:120], 'the list of per-batch coverage percentages of a column is replaced by an aggregate of itself and the new batch (a running mean): '
                    'the reported coverage is then not the mean of the per-batch percentages (later batches weigh more), and depends on the batch order')
    n_eval = len([c for c in calls(est) if (est.module.dotted(c.func) or '').endswith('.compute_batch_ranking')])
    # every place that evaluates a batch (the loop, the tail) is followed by one accumulation; where the accumulations live in code this rule does
    # not see (a ledger object) there are none to count and the rule abstains
    firm = n_eval >= 1 and len(apps) >= 1
    chk.expect(good == len(apps) and ((good >= 2 and good >= n_eval) if firm else good >= 2), 'C13.5c', 'R13', est.site(apps[0]) if apps else est.site(), f'{good} per-batch coverage accumulations for {n_eval} batch evaluation site(s)',
               'each processed batch (including the tail) contributes its percentage once', 'every processed batch (loop and tail) must append its coverage percentage once per column', soft=not firm)


# -- 5 / 6 -------------------------------------------------------------------------------------
def annotation_and_histogram(repo, chk):
    fn = repo.func(TR, 'outrank_task_conduct_ranking')
    m = fn.module
    E = lambda s: expected_term(m, s)
    # annotation
    found = 0
    for n in own_nodes(fn.node):
        if isinstance(n, ast.Assign) and isinstance(n.targets[0], ast.Name) and n.targets[0].id.startswith('card_'):
            t = term_of(fn, n.value, inline=False)
            feat = 'feature_first' if 'first' in n.targets[0].id else 'feature_second'
            # an integer interpolated into an f-string is formatted like str() of it
            only_fmt = all(isinstance(parents(fn.node).get(x), ast.FormattedValue) for x in own_nodes(fn.node) if isinstance(x, ast.Name) and x.id == n.targets[0].id and isinstance(x.ctx, ast.Load))
            chk.expect(t == E(f'str(len(cardinality_object[{feat}]))') or (only_fmt and t == E(f'len(cardinality_object[{feat}])')), 'C13.5d', 'R15', fn.site(n), ast.unparse(n), 'annotation shows len(sketch) of that feature', f'cardinality annotation must be str(len(cardinality_object[{feat}])); found {show(t)[:100]}')
            found += 1
        if isinstance(n, ast.Assign) and isinstance(n.targets[0], ast.Name) and n.targets[0].id.startswith('cov_'):
            t = term_of(fn, n.value, inline=False)
            feat = 'feature_first' if 'first' in n.targets[0].id else 'feature_second'
            forms = [E(f'int(round(numpy.mean(numpy.array(coverage_object[{feat}])), 1))'), E(f'int(round(numpy.mean(coverage_object[{feat}]), 1))')]
            chk.expect(t in forms, 'C13.5e', 'R15', fn.site(n), ast.unparse(n), 'coverage annotation = mean of the per-batch percentages', f'coverage annotation must be int(round(mean(per-batch percentages), 1)); found {show(t)[:120]}')
            found += 1
    chk.require_count('annotation terms (card_*/cov_*)', found, 4)
    # histogram
    dcs = [n for n in own_nodes(fn.node) if isinstance(n, ast.DictComp) and 'more_than' in ast.unparse(n)]
    lam = [n for n in own_nodes(fn.node) if isinstance(n, ast.Assign) and isinstance(n.value, ast.Lambda) and isinstance(n.targets[0], ast.Name) and n.targets[0].id == 'more_than']
    if len(dcs) != 1 or len(lam) != 1:
        chk.unsure('C13.6', 'R15', fn.site(), 'value-repetition histogram', 'histogram construction not found')
        return
    lt = term_of(fn, lam[0].value, inline=False)
    lam_forms = [E('lambda n, ary: len(numpy.where(ary > n)[0])'), E('lambda n, ary: numpy.count_nonzero(ary > n)'), E('lambda n, ary: int(numpy.sum(ary > n))'), E('lambda n, ary: numpy.sum(ary > n)')]
    chk.expect(lt in lam_forms, 'C13.6a', 'R15', fn.site(lam[0]), ast.unparse(lam[0]), 'counts tracked values whose count is > n', f'the histogram entry must be the number of values with count > n (strict); found {show(lt)[:120]}')
    dc = dcs[0]
    try:
        ns = eval(compile(ast.Expression(dc.generators[0].iter), '<thresholds>', 'eval'), {'__builtins__': {'range': range}})  # literal arithmetic only
        ns = list(ns)
    except Exception:
        ns = None
    chk.expect(ns == [0, 1, 10, 100, 1000, 10000, 100000], 'C13.6b', 'R8', fn.site(dc), ast.unparse(dc.generators[0].iter), 'thresholds 0, 1, 10, ..., 10^5', f'thresholds must be [0, 1, 10, 100, 1000, 10000, 100000]; folded {ns}')
    g = dc.generators[0]
    v = g.target.id if isinstance(g.target, ast.Name) else None
    okd = ast.unparse(dc.key) == v and isinstance(dc.value, ast.Call) and ast.unparse(dc.value.func) == 'more_than' and ast.unparse(dc.value.args[0]) == v and not g.ifs
    hist = dc.value.args[1] if okd and len(dc.value.args) > 1 else None
    ht = term_of(fn, hist, inline=True) if hist is not None else None
    # the histogram source: np.array(list(v.default_counter.values()))
    okh = ht is not None and any(x[0] == 'attr' and x[2] == 'default_counter' for x in walk_term(ht)) and any(x[0] == 'attr' and x[2] == 'values' for x in walk_term(ht))
    chk.expect(okd and okh, 'C13.6c', 'R15', fn.site(dc), ast.unparse(dc)[:120], 'one entry per threshold from the exact counts of the bounded counter', 'histogram must map each threshold n to more_than(n, counts of the bounded counter)')


# -- 7 -----------------------------------------------------------------------------------------
def rare_table(repo, chk):
    fn = repo.func(CU, 'summarize_rare_counts')
    tc = fn.params[0]
    # path evaluation: the frame that is written to rare_values.tsv, as one expression over the parameters
    from ..match import run_paths
    from ..terms import pattern, unify, unkind
    m = fn.module
    paths = run_paths(fn, None, None, max_forks=4)
    wrote = 0
    if paths is None:
        chk.unsure('C13.7a', 'R15', fn.site(), 'summarize_rare_counts', 'too many undecidable tests')
        paths = []
    rows_pats = [pattern(m, f'[[kv[0][0], kv[0][1], kv[1]] for kv in {tc}.items()]'), pattern(m, f'[(kv[0][0], kv[0][1], kv[1]) for kv in {tc}.items()]'), pattern(m, f'[[*kv[0], kv[1]] for kv in {tc}.items()]'),
                 pattern(m, f'[(*kv[0], kv[1]) for kv in {tc}.items()]')]
    for assume, res in paths:
        if res.unknown is not None:
            chk.unsure('C13.7a', 'R15', fn.site(res.unknown), ast.unparse(res.unknown)[:80], 'a statement outside the path vocabulary in summarize_rare_counts')
            continue
        wr = [c for c in res.calls if isinstance(c['call'].func, ast.Attribute) and c['call'].func.attr == 'to_csv' and 'rare_values.tsv' in ast.unparse(c['call'])]
        if not wr:
            if not assume:
                chk.bad('C13.7d', 'origin', fn.site(), 'out_df.to_csv(rare_values.tsv)', 'rare_values.tsv must be written, unconditionally, from the frame of all [namespace, value, count] rows')
            else:
                chk.bad('C13.7d', 'origin', fn.site(), ', '.join(f'{ast.unparse(t)[:40]} is {v}' for t, v in assume), 'rare_values.tsv must be written, unconditionally: on this path it is not written')
            continue
        wrote += 1
        recv = wr[0]['call'].func.value
        rt = term_of(fn, recv, inline=False)
        # the frame: pd.DataFrame(ROWS[, columns=...]) possibly followed by order-only operations
        core = rt
        while core[0] == 'call' and core[1][0] == 'attr' and core[1][2] in ('sort_values', 'reset_index', 'copy'):
            core = core[1][1]
        b_ = None
        for src in ('pandas.DataFrame(ROWS)', 'pandas.DataFrame(ROWS, columns=COLS)', 'pandas.DataFrame(data=ROWS)', 'pandas.DataFrame(data=ROWS, columns=COLS)'):
            b_ = unify(pattern(m, src, ['ROWS', 'COLS']), core)
            if b_ is not None:
                break
        site = fn.site(wr[0]['node'])
        shown = ast.unparse(recv)[:160]
        if b_ is None:
            if core[0] == 'name':
                chk.unsure('C13.7a', 'R15', site, shown, 'the frame that is written is built step by step: its rows could not be written as one expression')
            else:
                chk.bad('C13.7a', 'R15', site, shown, 'the rare-value table must contain one row [namespace, value, count] for every entry of the rare-value store, unfiltered', soft=True)
            continue
        rows = unkind(b_['ROWS'])
        if any(unify(unkind(pt), rows) is not None for pt in rows_pats):
            chk.ok('C13.7a', 'R15', site, shown, 'rare table lists every remaining (column, value) with its exact count')
            chk.ok('C13.7d', 'origin', site, ast.unparse(wr[0]['call'])[:120], 'rare_values.tsv is written from exactly these rows')
        elif rows[0] in ('listcomp',) and any(g[1] for g in rows[2]):
            chk.bad('C13.7a', 'R15', site, shown, 'the rare-value table must contain one row [namespace, value, count] for every entry of the rare-value store, unfiltered (the rows are filtered)')
        else:
            chk.expect_term(rows, [unkind(pt) for pt in rows_pats], 'C13.7a', 'R15', site, shown, '', 'the rare-value table must contain one row [namespace, value, count] for every entry of the rare-value store, unfiltered')
    cols = [n for n in own_nodes(fn.node) if isinstance(n, ast.Assign) and ast.unparse(n.targets[0]).endswith('.columns') and isinstance(n.value, ast.List)]
    okc = any([getattr(e, 'value', None) for e in n.value.elts] == ['Namespace', 'value', 'Count'] for n in cols)
    chk.expect(okc, 'C13.7b', 'R8', fn.site(cols[0]) if cols else fn.site(), "columns ['Namespace', 'value', 'Count']", 'columns in row order', 'column labels of the rare table must be Namespace, value, Count in row order')
    # the ranking task passes the returned store
    rk = repo.func(TR, 'outrank_task_conduct_ranking')
    est = repo.func(CR, 'estimate_importances_minibatches')
    rets = returns(est)
    idx = None
    if len(rets) == 1 and isinstance(rets[0].value, ast.Tuple):
        for i, e in enumerate(rets[0].value.elts):
            if 'GLOBAL_RARE_VALUE_STORAGE' in ast.unparse(e):
                idx = i
    name = None
    for n in own_nodes(rk.node):
        if isinstance(n, ast.Assign) and isinstance(n.targets[0], ast.Tuple) and isinstance(n.value, ast.Call) and rk.module.dotted(n.value.func) == f'{CR}.estimate_importances_minibatches' and idx is not None and idx < len(n.targets[0].elts):
            name = ast.unparse(n.targets[0].elts[idx])
    cs = [c for c in calls(rk) if rk.module.dotted(c.func) == f'{CU}.summarize_rare_counts']
    okp = bool(cs) and name is not None and ast.unparse(cs[0].args[0]) == name
    chk.expect(okp, 'C13.7c', 'R6', rk.site(cs[0]) if cs else rk.site(), ast.unparse(cs[0])[:100] if cs else 'summarize_rare_counts(...)', 'the table is built from the rare-value store returned by the streaming function', 'summarize_rare_counts must receive the rare-value store returned by estimate_importances_minibatches')


# -- 8 the statistics see the values as read ---------------------------------------------------------------
def raw_values(repo, chk):
    """C13.8 - coverage, cardinalities and value counts are computed in compute_batch_ranking from the running frame.  Exactness and independence
    of the batch split require that a value is the same token in every batch: a per-batch rewrite of an existing column (type inference, parsing,
    normalisation that depends on what else is in the batch) makes '1' and 1.0 different keys in different batches."""
    from .common import column_overwrites
    fn = repo.func(CR, 'compute_batch_ranking')
    ow = column_overwrites(fn)
    for n, F, k, why in ow:
        chk.bad('C13.8', 'R11', fn.site(n), ast.unparse(n).replace('\n', ' ')[:120], f'an existing column of the batch frame is rewritten per batch before the statistics are taken ({why}): the same token can be a different '
                'key in different batches, so cardinalities, histograms and the rare-value report depend on the batch split')
    if not ow:
        chk.ok('C13.8', 'R11', fn.site(), 'stores into the batch frame in compute_batch_ranking', 'the statistics are taken from the columns as they were read (no per-batch rewrite of an existing column)')
