"""C09 - results independent of worker count and scheduling, and reproducible.

 1 order or names: the pool API is order-preserving (map, imap, amap) OR results are never re-associated with inputs by position
 2 worker purity: nothing reachable from the callable handed to the pool writes a module-level store or a captured object, reads
   a process-global RNG, or constructs a stochastic estimator without a constant integer random_state
 3 pool size is inert: args.num_threads flows into the Pool constructor and nowhere else
 4 seeds: every random.* / np.random.* draw reachable from the ranking task is covered by a module-level seed call with literal
   arguments in a module imported unconditionally; no seed with a non-constant argument; no unseeded generator object
 5 no per-process entropy in ordered sinks: iteration over a set (of strings) must not determine a column order, a list order
   or which candidates survive a prefix slice; commutative consumers are listed (frozen instance table)
"""
from __future__ import annotations

import ast

from ..match import calls, import_closure, mutations_of, reachable_funcs, term_of
from ..model import const_value, own_nodes, parents
from ..terms import show

EXPLANATION = ('Determinism-effect analysis (R10) over the call graph of the ranking task: classification of the pool API and of positional re-association of results; effect closure of the worker '
               'callable (writes to module-level stores / captured objects, global-RNG reads, stochastic estimator constructors and their random_state); flow of args.num_threads; coverage of RNG draws by '
               'constant module-level seeds along the unconditional import closure; ordered-ness analysis of every set-iteration site (set-typed inference, consumer classification into commutative '
               'consumers and ordered sinks, frozen table for the sites the classifier cannot decide). Decides sources of nondeterminism in the code, not actual interleavings.')
TRUSTED_BASE = ['pathos ProcessPool.amap = map_async (results in input order); map, imap ordered; uimap = imap_unordered',
                "iteration order of a set of str depends on PYTHONHASHSEED (randomised per process); sorted() removes the dependence",
                'sklearn: SGDClassifier, SVC(probability=True), TruncatedSVD, SparseRandomProjection, KMeans draw from random_state; None means the process-global NumPy RNG; an int gives a fresh, fixed stream per fit',
                'workers are forked: module-level RNG state is copied and then advances per worker with the tasks that worker happens to receive']
ASSUMPTIONS = ['glob order for multi-file inputs is file-system dependent (noted, not decided)', 'bit-for-bit equality of numba results across machines is not decided']

CR = 'outrank.core_ranking'
TR = 'outrank.task_ranking'
ORDERED_API = {'amap', 'map', 'imap', 'apipe', 'pipe'}
UNORDERED_API = {'uimap', 'imap_unordered'}
STOCHASTIC = {'sklearn.linear_model.SGDClassifier': None, 'sklearn.svm.SVC': 'probability', 'sklearn.decomposition.TruncatedSVD': None, 'sklearn.random_projection.SparseRandomProjection': None,
              'sklearn.random_projection.GaussianRandomProjection': None, 'sklearn.cluster.KMeans': None, 'sklearn.linear_model.SGDRegressor': None, 'sklearn.ensemble.RandomForestClassifier': None,
              'sklearn.model_selection.KFold': 'shuffle', 'sklearn.model_selection.StratifiedKFold': 'shuffle'}

# set-iteration sites the consumer classifier cannot decide on its own; each with the reason it is harmless (DESIGN.md Appendix C)
FROZEN_COMMUTATIVE = {
    ('outrank.algorithms.sketches.counting_ultiloglog', 'HyperLogLogWCache.add', 'self.warmup_set'): 'register update is max(): order-blind (C14)',
    ('outrank.algorithms.importance_estimator', 'rank_features_3MR', 'all_features - set(ranked_features)'): 'arg-max scan: order matters only for exact ties, which C17 allows; 3mr_ranks.tsv is not a pairwise score',
}


def run(repo, chk, tier):
    pool_api(repo, chk)
    worker_purity(repo, chk)
    pool_size(repo, chk)
    seeds(repo, chk)
    set_order(repo, chk)


# -- 1 ------------------------------------------------------------------------------------
def pool_api(repo, chk):
    fn = repo.func(CR, 'mixed_rank_graph')
    m = fn.module
    subs = [c for c in calls(fn) if isinstance(c.func, ast.Attribute) and c.func.attr in ORDERED_API | UNORDERED_API and len(c.args) >= 2]
    chk.require_count('pool submissions in mixed_rank_graph', len(subs), 1)
    for c in subs:
        meth = c.func.attr
        comb = c.args[1].id if isinstance(c.args[1], ast.Name) else None
        positional = []
        for n in own_nodes(fn.node):
            if isinstance(n, ast.Call) and isinstance(n.func, ast.Name) and n.func.id == 'zip' and comb and any(isinstance(a, ast.Name) and a.id == comb for a in n.args):
                positional.append(n)
            if isinstance(n, ast.Subscript) and isinstance(n.value, ast.Name) and n.value.id == comb and isinstance(n.ctx, ast.Load) and not isinstance(n.slice, ast.Slice) and getattr(n, 'lineno', 0) > c.lineno:
                positional.append(n)
        if meth in UNORDERED_API and positional:
            chk.bad('C09.1', 'R10', fn.site(positional[0]), f'{ast.unparse(c)[:80]} ... {ast.unparse(positional[0])[:80]}', f'results of the unordered pool API `{meth}` (completion order) are re-associated with the submitted combinations by position: under contention scores land under the wrong pair names')
        elif meth in UNORDERED_API:
            chk.ok('C09.1', 'R10', fn.site(c), ast.unparse(c)[:100], 'unordered API, but results carry their own names and are never matched by position')
        else:
            chk.ok('C09.1', 'R10', fn.site(c), ast.unparse(c)[:100], f'`{meth}` returns results in input order')
    partition_by_pool_size(repo, chk, fn, subs)
    # the function that waits for the pool draws nothing from the process-global generators: how often it polls depends on pool size and timing,
    # and every draw moves the seeded stream that later batches (noise controls, shuffles) read
    polls = [w for w in own_nodes(fn.node) if isinstance(w, ast.While)]
    for w in polls:
        for c in ast.walk(w):
            if isinstance(c, ast.Call):
                d = m.dotted(c.func) or ''
                if (d.startswith('numpy.random.') or d.startswith('random.')) and not d.endswith('.seed') and d.split('.')[-1] not in ('RandomState', 'default_rng', 'Random', 'Generator'):
                    chk.bad('C09.1d', 'R10', fn.site(c), ast.unparse(c)[:100], 'the loop that waits for the pool draws from the process-global random generator: the number of polls depends on pool size and '
                            'timing, so the seeded stream that the next batch reads (noise controls, shuffles) is at a different position from run to run')
                    break
    # the worker returns the names with the score (so no positional matching is needed)
    w = repo.func('outrank.algorithms.importance_estimator', 'get_importances_estimate_pairwise')
    rets = [n for n in own_nodes(w.node) if isinstance(n, ast.Return)]
    ok = len(rets) == 1 and isinstance(rets[0].value, ast.Tuple) and len(rets[0].value.elts) == 3
    if not ok and subs and subs[0].func.attr in ORDERED_API:
        chk.note('worker result does not carry names; ordered API is relied upon')
    chk.expect(ok or (subs and subs[0].func.attr in ORDERED_API), 'C09.1b', 'R10', w.site(rets[0]) if rets else w.site(), ast.unparse(rets[0]) if rets else 'return', 'scores are keyed by the names carried inside each triplet (or the API is ordered)',
               'the worker result carries no names and the pool API is unordered')


def partition_by_pool_size(repo, chk, fn, subs):
    """C09.1c - when the work handed to the pool is cut into pieces whose number depends on the size of the pool, the pieces must cover every
    combination for every pool size.  The iterable of the submission is traced backwards (value_origins); a comprehension of slices
        X[i * s:(i + 1) * s] for i in range(k)      covers X exactly when k * s >= len(X):   s = ceil(len(X) / k)   -   not s = len(X) // k
        X[i:i + s] for i in range(0, len(X), s)     always covers X
    """
    from .common import value_origins
    m = fn.module
    for c in subs:
        origins = value_origins(m, fn.node, c.args[1], limit=120)
        sized = [e for _, e in origins if (isinstance(e, ast.Attribute) and e.attr in ('ncpus', 'nodes', 'num_threads', '_processes')) or
                 (isinstance(e, ast.Call) and isinstance(e.func, ast.Name) and e.func.id == 'getattr' and len(e.args) >= 2 and isinstance(e.args[1], (ast.Constant, ast.Name))) or
                 (isinstance(e, ast.Call) and (m.dotted(e.func) or '') in ('os.cpu_count', 'multiprocessing.cpu_count'))]
        if not sized:
            chk.ok('C09.1c', 'R10', fn.site(c), ast.unparse(c.args[1])[:80], 'what is handed to the pool does not depend on the size of the pool')
            continue
        parts = [(g, e) for g, e in origins if isinstance(e, (ast.ListComp, ast.GeneratorExp)) and len(e.generators) == 1 and any(isinstance(x, ast.Subscript) and isinstance(x.slice, ast.Slice) for x in ast.walk(e.elt))]
        if not parts:
            chk.unsure('C09.1c', 'R10', fn.site(c), ast.unparse(c.args[1])[:80], f'the work handed to the pool is computed from the size of the pool ({ast.unparse(sized[0])[:40]}); that every combination is still scored '
                       'exactly once for every pool size is not decided')
            continue
        g, e = parts[0]
        sl = next(x for x in ast.walk(e.elt) if isinstance(x, ast.Subscript) and isinstance(x.slice, ast.Slice))
        gen = e.generators[0]
        X = ast.unparse(sl.value)

        def resolve(x, depth=0):
            if isinstance(x, ast.Name) and depth < 4:
                b = [n.value for n in ast.walk(g) if isinstance(n, ast.Assign) and len(n.targets) == 1 and isinstance(n.targets[0], ast.Name) and n.targets[0].id == x.id]
                if len(b) == 1:
                    return resolve(b[0], depth + 1)
            return x
        lo, hi = sl.slice.lower, sl.slice.upper
        site = m.relpath + f':{e.lineno} {g.name}'
        i = gen.target.id if isinstance(gen.target, ast.Name) else None
        rng = gen.iter if isinstance(gen.iter, ast.Call) and isinstance(gen.iter.func, ast.Name) and gen.iter.func.id == 'range' else None
        if i is None or rng is None or gen.ifs:
            chk.unsure('C09.1c', 'R10', site, ast.unparse(e)[:100], 'the split of the work over the pool is not one of the recognised slice partitions')
            continue
        lenX = (f'len({X})',)
        # stride form: X[i:i + s] for i in range(0, len(X), s)
        if len(rng.args) == 3 and isinstance(lo, ast.Name) and lo.id == i and isinstance(hi, ast.BinOp) and isinstance(hi.op, ast.Add) and ast.unparse(hi.left) == i and ast.unparse(hi.right) == ast.unparse(rng.args[2]) \
                and ast.unparse(rng.args[0]) == '0' and ast.unparse(resolve(rng.args[1])) in lenX:
            chk.ok('C09.1c', 'R10', site, ast.unparse(e)[:100], 'consecutive slices of one stride over the whole list: every combination is in exactly one piece, whatever the pool size')
            continue
        # block form: X[i * s:(i + 1) * s] for i in range(k)
        def block(lo, hi):
            if not (isinstance(lo, ast.BinOp) and isinstance(lo.op, ast.Mult) and isinstance(hi, ast.BinOp) and isinstance(hi.op, ast.Mult)):
                return None
            a, b = (lo.left, lo.right) if ast.unparse(lo.left) == i else (lo.right, lo.left)
            if ast.unparse(a) != i:
                return None
            s_ = ast.unparse(b)
            h1, h2 = (hi.left, hi.right) if ast.unparse(hi.right) == s_ else (hi.right, hi.left)
            if ast.unparse(h2) != s_ or ast.unparse(h1).replace(' ', '') not in (f'({i}+1)', f'{i}+1', f'(1+{i})'):
                return None
            return b
        sname = block(lo, hi) if len(rng.args) == 1 else None
        if sname is None:
            chk.unsure('C09.1c', 'R10', site, ast.unparse(e)[:100], 'the split of the work over the pool is not one of the recognised slice partitions')
            continue
        k_txt = ast.unparse(rng.args[0])
        sv = resolve(sname)
        st = ast.unparse(sv).replace(' ', '')
        n_ = f'len({X})'.replace(' ', '')
        ceil_forms = {f'-(-{n_}//{k_txt})', f'({n_}+{k_txt}-1)//{k_txt}', f'math.ceil({n_}/{k_txt})', f'int(math.ceil({n_}/{k_txt}))', f'int(np.ceil({n_}/{k_txt}))', f'-(-{n_}//{k_txt})'.replace('-(-', '-(-'),
                      f'({n_}-1)//{k_txt}+1'}
        floor_forms = {f'{n_}//{k_txt}', f'max(1,{n_}//{k_txt})', f'int({n_}/{k_txt})', f'max(1,int({n_}/{k_txt}))', f'round({n_}/{k_txt})', f'max({n_}//{k_txt},1)'}
        if st in ceil_forms:
            chk.ok('C09.1c', 'R10', site, f'{ast.unparse(e)[:80]} with {ast.unparse(sname)} = {ast.unparse(sv)[:40]}', 'the pieces have ceil(n / k) elements: k pieces cover all n combinations for every pool size')
        elif st in floor_forms:
            chk.bad('C09.1c', 'R10', site, f'{ast.unparse(e)[:80]} with {ast.unparse(sname)} = {ast.unparse(sv)[:40]}', f'the {k_txt} pieces have floor(n / k) elements each: whenever the pool size does not divide the number of '
                    'combinations the last n mod k combinations are in no piece and are never scored - which pairs are scored depends on the number of workers')
        else:
            chk.unsure('C09.1c', 'R10', site, f'{ast.unparse(e)[:80]} with {ast.unparse(sname)} = {ast.unparse(sv)[:40]}', 'whether pieces of this size cover every combination for every pool size is not decided')


# -- 2 ------------------------------------------------------------------------------------
def _worker_root(repo):
    """functions whose code runs in the workers: resolved from the pool submission of the path summary of mixed_rank_graph
    (a local closure, functools.partial(f, ...), a lambda around f, or f itself)"""
    from .common import mrg_model
    M = mrg_model(repo)
    fn = M.fn
    roots = []
    cands = []
    for p in M.paths:
        sub = M.submission(p) if p.res.unknown is None else None
        if sub is not None:
            cands.append(sub.args[0])
    if not cands:
        cands = [c.args[0] for c in calls(fn) if isinstance(c.func, ast.Attribute) and c.func.attr in ORDERED_API | UNORDERED_API and len(c.args) >= 2]
    for a in cands:
        tgt = None
        if isinstance(a, ast.Name):
            q = fn.qualname + '.' + a.id
            tgt = fn.module.funcs.get(q) or fn.module.funcs.get(a.id) or repo.find_func(fn.module.dotted(a) or '')
        elif isinstance(a, ast.Call) and fn.module.dotted(a.func) == 'functools.partial' and a.args:
            tgt = repo.find_func(fn.module.dotted(a.args[0]) or '')       # a partial adds no code of its own
        elif isinstance(a, ast.Lambda):
            inner = [c for c in ast.walk(a.body) if isinstance(c, ast.Call)]
            tgt = repo.find_func(fn.module.dotted(inner[0].func) or '') if inner else None
        elif isinstance(a, ast.Attribute):
            tgt = repo.find_func(fn.module.dotted(a) or '')
        if tgt is not None and tgt not in roots:
            roots.append(tgt)
    return roots


def _const_int(expr, module, repo):
    try:
        v = const_value(expr)
        return isinstance(v, int) and not isinstance(v, bool)
    except ValueError:
        pass
    if isinstance(expr, ast.Name):
        d = module.assigns.get(expr.id, [])
        if len(d) == 1:
            return _const_int(d[0], module, repo)
        tgt = module.imports.get(expr.id)
        if tgt:
            mn, _, nm = tgt.rpartition('.')
            if mn in repo.modules and len(repo.modules[mn].assigns.get(nm, [])) == 1:
                return _const_int(repo.modules[mn].assigns[nm][0], repo.modules[mn], repo)
    return False


def _is_message(st, m, state):
    """a statement with no effect on results: a log / warning / print call, or an update of the report-once memo itself"""
    if isinstance(st, ast.Pass):
        return True
    if isinstance(st, ast.Expr) and isinstance(st.value, ast.Call):
        c = st.value
        d = m.dotted(c.func) or ast.unparse(c.func)
        if d.startswith('logging.') or d.startswith('warnings.') or d == 'print' or d.split('.')[0] in ('logger', 'log', 'LOGGER') or (isinstance(c.func, ast.Attribute) and c.func.attr in ('debug', 'info', 'warning', 'error', 'warn', 'critical') and
                                                                                                     isinstance(c.func.value, ast.Name) and 'log' in c.func.value.id.lower()):
            return True
        if isinstance(c.func, ast.Attribute) and isinstance(c.func.value, ast.Name) and c.func.value.id == state and c.func.attr in ('add', 'append', 'update', 'discard', 'clear'):
            return True
    return False


def _only_gates_messages(repo, reach, f, node, names):
    """The module-level object mutated at `node` is a report-once memo: every read of it (in the functions that run inside the workers) is in the test of
    an `if` whose branches do nothing but log and update the memo.  Then each worker's copy only decides how often a message is printed."""
    state = None
    for x in ast.walk(node):
        if isinstance(x, ast.Name) and x.id in names:
            state = x.id
            break
    if state is None:
        return False
    for g in reach:
        if g.module is not f.module:
            if any(isinstance(x, ast.Name) and x.id == state for x in own_nodes(g.node)) and state in g.module.imports:
                return False
            continue
        par = parents(g.node)
        for x in own_nodes(g.node):
            if not (isinstance(x, ast.Name) and x.id == state):
                continue
            # climb to the statement
            q, inside_test = x, None
            while q in par and not isinstance(q, ast.stmt):
                q = par[q]
            if isinstance(q, ast.If) and any(y is x for y in ast.walk(q.test)):
                if all(_is_message(b, g.module, state) for b in q.body + q.orelse):
                    continue
                return False
            if _is_message(q, g.module, state) and isinstance(par.get(q), ast.If) and all(_is_message(b, g.module, state) for b in par[q].body + par[q].orelse):
                continue
            return False
    return True


def worker_purity(repo, chk):
    roots = _worker_root(repo)
    if not roots:
        chk.unsure('C09.2', 'R10', CR, 'callable handed to the pool', 'cannot resolve the callable handed to the pool')
        return
    reach = reachable_funcs(repo, roots)
    chk.analysed['worker_reachable_functions'] = sorted(f'{f.module.name.split(".")[-1]}.{f.qualname}' for f in reach)
    chk.require_count('package functions reachable from the pool worker', len(reach), 8)
    nbad = 0
    n_ctor = 0
    for f in reach:
        m = f.module
        # module-level mutable stores of the function's own module and imported ones
        names = {k for k, v in m.assigns.items() if k.isupper() or isinstance(v[0], (ast.Call, ast.Dict, ast.List, ast.Set))}
        for alias, target in m.imports.items():
            mn, _, nm = target.rpartition('.')
            if mn in repo.modules and nm in repo.modules[mn].assigns:
                names.add(alias)
        for node, kind in mutations_of(f, names):
            if kind == 'rebind' or kind.startswith('call') or kind in ('store', 'augstore', 'del'):
                if _only_gates_messages(repo, reach, f, node, names):
                    continue
                nbad += 1
                chk.bad('C09.2a', 'R10', f.site(node), ast.unparse(node)[:100], f'{f.qualname} runs inside pool workers and mutates module-level state ({kind}): each forked worker has its own copy, so the effect depends on pool size and scheduling')
        for n in own_nodes(f.node):
            if isinstance(n, ast.Call):
                d = m.dotted(n.func) or ''
                if (d.startswith('numpy.random.') or d.startswith('random.')) and not d.endswith('.seed') and d.split('.')[-1] not in ('RandomState', 'default_rng', 'Random', 'Generator'):
                    nbad += 1
                    chk.bad('C09.2b', 'R10', f.site(n), ast.unparse(n)[:100], f'{f.qualname} runs inside pool workers and draws from the process-global RNG: each worker\'s copy advances with the tasks it happens to receive, so scores depend on --num_threads and scheduling')
                if d in STOCHASTIC:
                    cond_kw = STOCHASTIC[d]
                    if cond_kw is not None:
                        kv = next((k.value for k in n.keywords if k.arg == cond_kw), None)
                        if not (isinstance(kv, ast.Constant) and kv.value is True):
                            continue
                    n_ctor += 1
                    rs = next((k.value for k in n.keywords if k.arg == 'random_state'), None)
                    if rs is None:
                        nbad += 1
                        chk.bad('C09.2c', 'R10', f.site(n), ast.unparse(n)[:120], f'{d.split(".")[-1]} is constructed without random_state inside a pool worker: it draws from the worker\'s copy of the global NumPy RNG, so scores depend on --num_threads and scheduling')
                    elif not _const_int(rs, m, repo):
                        nbad += 1
                        chk.bad('C09.2c', 'R10', f.site(n), ast.unparse(n)[:120], f'random_state of {d.split(".")[-1]} is not a constant integer ({ast.unparse(rs)}): a shared generator object advances with every task a worker handles, so scores depend on --num_threads and scheduling')
            # mutating method calls on arguments or aliases of them (lst = param or []; lst.append(...))
            if isinstance(n, ast.Call) and isinstance(n.func, ast.Attribute) and n.func.attr in ('append', 'extend', 'insert', 'pop', 'remove', 'clear', 'sort', 'reverse', 'update', 'add', 'discard', 'setdefault', 'popitem') \
                    and isinstance(n.func.value, ast.Name) and not (f.module.name.endswith('ranking_mi_numba') or f.module.name.endswith('counting_cms')):
                from ..match import local_aliases
                pset = {p for p in f.params if p != 'self'}
                al = pset | local_aliases(f, pset)
                if n.func.value.id in al:
                    nbad += 1
                    chk.bad('C09.2d', 'R10', f.site(n), ast.unparse(n)[:100], f'{f.qualname} runs inside pool workers and mutates `{n.func.value.id}`, which is (or may alias) one of its arguments - an object captured by the worker closure and shared by all tasks a worker receives in one chunk: scores depend on chunking, i.e. on --num_threads')
            # writes to captured objects / arguments (args.x = ..., tmp_df[...] = ...)
            if isinstance(n, (ast.Assign, ast.AugAssign)):
                tgs = n.targets if isinstance(n, ast.Assign) else [n.target]
                for t in tgs:
                    base = t
                    while isinstance(base, (ast.Attribute, ast.Subscript)):
                        base = base.value
                    if isinstance(t, (ast.Attribute, ast.Subscript)) and isinstance(base, ast.Name) and base.id in f.params and base.id != 'self':
                        # numba kernels writing their own freshly allocated arrays are fine; parameters of njit helpers are arrays passed by the caller
                        if f.module.name.endswith('ranking_mi_numba') or f.module.name.endswith('counting_cms'):
                            continue
                        nbad += 1
                        chk.bad('C09.2d', 'R10', f.site(n), ast.unparse(n)[:100], f'{f.qualname} runs inside pool workers and writes into its argument `{base.id}` (a captured/shared object)')
    if nbad == 0:
        chk.ok('C09.2', 'R10', CR, f'{len(reach)} functions reachable from the worker callable; {n_ctor} stochastic estimator constructors, all with constant integer random_state', 'the worker closure is free of shared-state writes and global-RNG reads', inspected=len(reach))


# -- 3 ------------------------------------------------------------------------------------
def pool_size(repo, chk):
    uses = []
    for m in repo.modules.values():
        par = None
        for n in ast.walk(m.tree):
            if isinstance(n, ast.Attribute) and n.attr == 'num_threads' and isinstance(n.ctx, ast.Load):
                par = par or parents(m.tree)
                p = par.get(n)
                ok = isinstance(p, ast.Call) and n in p.args and (m.dotted(p.func) or '').split('.')[-1] in ('Pool', 'ProcessingPool', 'ProcessPool', 'ThreadPool')
                uses.append((m, n, ok, p))
    chk.require_count('reads of args.num_threads', len(uses), 1)
    for m, n, ok, p in uses:
        chk.expect(ok, 'C09.3', 'R10', f'{m.relpath}:{n.lineno}', ast.unparse(p)[:100] if p is not None else 'num_threads', 'the thread count only sizes the pool',
                   'args.num_threads is used outside the Pool constructor: the computation (chunking, seeds, sampling) may depend on the worker count')


    worker_count_flow(repo, chk)


WORKER_COUNT_ATTRS = {'ncpus', 'nodes', '_processes', 'num_threads', 'n_jobs', 'max_workers', '_max_workers'}
WORKER_COUNT_CALLS = {'os.cpu_count', 'multiprocessing.cpu_count', 'os.sched_getaffinity', 'psutil.cpu_count', 'pathos.helpers.cpu_count', 'numba.get_num_threads'}


def worker_count_flow(repo, chk):
    """C09.3b - nothing that is computed may depend on how many workers there are.  Every read of a worker count (pool.ncpus / .nodes,
    args.num_threads, cpu_count()) is followed through local assignments; it may size the pool, be logged, or be a chunksize argument of the
    pool's map.  Where it reaches the *data* (slice bounds, ranges, arithmetic): a partition of the work into len(work) // workers sized slices
    drops the last len(work) % workers items (violated); any other use is left inconclusive (a partition that covers everything is harmless,
    but this rule does not decide coverage)."""
    n_reads = 0
    for m in repo.modules.values():
        for f in m.funcs.values():
            par = None
            tainted = set()
            # names bound (directly or through arithmetic) from a worker count
            def is_src(e):
                if isinstance(e, ast.Attribute) and e.attr in WORKER_COUNT_ATTRS and isinstance(e.ctx, ast.Load):
                    return True
                if isinstance(e, ast.Call) and (m.dotted(e.func) or '') in WORKER_COUNT_CALLS:
                    return True
                return False

            def carries(e):
                return any(is_src(x) or (isinstance(x, ast.Name) and x.id in tainted) for x in ast.walk(e))
            srcs = [n for n in own_nodes(f.node) if is_src(n)]
            if not srcs:
                continue
            n_reads += len(srcs)
            for _ in range(4):
                for n in own_nodes(f.node):
                    if isinstance(n, ast.Assign) and len(n.targets) == 1 and isinstance(n.targets[0], ast.Name) and carries(n.value):
                        tainted.add(n.targets[0].id)
            par = parents(f.node)
            drops = None
            data_use = None
            for n in own_nodes(f.node):
                if not (is_src(n) or (isinstance(n, ast.Name) and n.id in tainted and isinstance(n.ctx, ast.Load))):
                    continue
                up, cur = par.get(n), n
                while up is not None and not isinstance(up, ast.stmt):
                    if isinstance(up, ast.Call):
                        d = (m.dotted(up.func) or '')
                        if d.split('.')[-1] in ('Pool', 'ProcessingPool', 'ProcessPool', 'ThreadPool', 'ThreadPoolExecutor', 'ProcessPoolExecutor'):
                            break
                        if any(k.value is cur and k.arg in ('chunksize', 'nodes', 'ncpus', 'processes', 'max_workers') for k in up.keywords):
                            break
                    if isinstance(up, ast.BinOp) and isinstance(up.op, ast.FloorDiv) and up.right is cur and isinstance(up.left, ast.Call) and isinstance(up.left.func, ast.Name) and up.left.func.id == 'len':
                        drops = drops or up
                    if isinstance(up, (ast.Slice, ast.BinOp, ast.Compare)) or (isinstance(up, ast.Call) and isinstance(up.func, ast.Name) and up.func.id in ('range', 'max', 'min', 'int', 'divmod')):
                        data_use = data_use or n
                    cur, up = up, par.get(up)
                else:
                    continue
            from ..match import is_noise_stmt
            sliced = any(isinstance(x, ast.Slice) and any(isinstance(y, ast.Name) and y.id in tainted for y in ast.walk(x)) for x in own_nodes(f.node))
            if drops is not None and sliced:
                chk.bad('C09.3b', 'R10', f.site(drops), ast.unparse(drops)[:100], 'the work is cut into slices of len(work) // workers items: whenever the worker count does not divide the number of items the last len(work) % workers items are never '
                        'evaluated, so the scores written depend on the pool size')
            elif data_use is not None:
                st = data_use
                while par.get(st) is not None and not isinstance(st, ast.stmt):
                    st = par.get(st)
                if not is_noise_stmt(st):
                    chk.unsure('C09.3b', 'R10', f.site(data_use), ast.unparse(st).split('\n')[0][:100], 'a worker count takes part in the computation (not only in sizing the pool): whether the result is the same for every pool size is not decided by this rule')
    chk.analysed['worker_count_reads'] = n_reads
    if not any(o.oid == 'C09.3b' for o in chk.obs):
        chk.ok('C09.3b', 'R10', 'outrank', f'{n_reads} read(s) of a worker count', 'a worker count only sizes the pool (or is logged): what is computed does not depend on it')


# -- 4 ------------------------------------------------------------------------------------
def seeds(repo, chk):
    root = repo.func(TR, 'outrank_task_conduct_ranking')
    reach = reachable_funcs(repo, [root])
    chk.analysed['functions_reachable_from_ranking_task'] = len(reach)
    imported = import_closure(repo, TR)   # what the ranking task itself imports (library use does not go through __main__)
    # module-level seed calls (unconditional) per family
    seeded = {'random': [], 'numpy.random': []}
    for mn in imported:
        m = repo.modules[mn]
        for s in m.tree.body:
            if isinstance(s, ast.Expr) and isinstance(s.value, ast.Call):
                d = m.dotted(s.value.func) or ''
                if d in ('random.seed', 'numpy.random.seed'):
                    fam = d.rsplit('.', 1)[0]
                    const = all(_is_const(a) for a in s.value.args) and all(_is_const(k.value) for k in s.value.keywords)
                    seeded[fam].append((m, s, const))
    draws = []
    for f in reach:
        m = f.module
        for n in own_nodes(f.node):
            if isinstance(n, ast.Call):
                d = m.dotted(n.func) or ''
                if d.startswith('numpy.random.') or d.startswith('random.'):
                    last = d.split('.')[-1]
                    fam = 'numpy.random' if d.startswith('numpy.random.') else 'random'
                    if last == 'seed':
                        const = all(_is_const(a) for a in n.args) and all(_is_const(k.value) for k in n.keywords)
                        chk.expect(const, 'C09.4a', 'R10', f.site(n), ast.unparse(n)[:80], 'seed is a constant', 'the RNG is (re-)seeded with a non-constant value on the ranking path: runs are not reproducible')
                        continue
                    if last in ('RandomState', 'default_rng', 'Random', 'Generator', 'SeedSequence'):
                        ok = bool(n.args or n.keywords) and all(_is_const(a) for a in n.args)
                        chk.expect(ok, 'C09.4b', 'R10', f.site(n), ast.unparse(n)[:80], 'generator constructed from a constant seed', 'a generator object is constructed without a constant seed (OS entropy): runs are not reproducible')
                        continue
                    draws.append((f, n, fam))
    chk.analysed['rng_draw_sites_on_ranking_path'] = len(draws)
    for fam in ('random', 'numpy.random'):
        fam_draws = [(f, n) for f, n, fm in draws if fm == fam]
        if not fam_draws:
            continue
        good = [x for x in seeded[fam] if x[2]]
        bad_seed = [x for x in seeded[fam] if not x[2]]
        if good and not bad_seed:
            m, s, _ = good[0]
            chk.ok(f'C09.4-{fam}', 'R10', f'{m.relpath}:{s.lineno}', f'{ast.unparse(s)} covers {len(fam_draws)} {fam} draw site(s) on the ranking path (e.g. {ast.unparse(fam_draws[0][1])[:50]})', 'draws are dominated (in import order) by a constant module-level seed', inspected=len(fam_draws))
        else:
            f, n = fam_draws[0]
            chk.bad(f'C09.4-{fam}', 'R10', f.site(n), ast.unparse(n)[:100], f'{len(fam_draws)} draw(s) from the global `{fam}` generator are reachable from the ranking task but no unconditionally imported module seeds it with a constant at import time: repeated fresh runs differ')
    for fam, lst in seeded.items():
        for m, s, const in lst:
            if not const:
                chk.bad('C09.4a', 'R10', f'{m.relpath}:{s.lineno}', ast.unparse(s), 'module-level seed with a non-constant argument')


def _is_const(e):
    try:
        const_value(e)
        return True
    except ValueError:
        return False


# -- 5 ------------------------------------------------------------------------------------
SET_METHODS = {'union', 'difference', 'intersection', 'symmetric_difference', 'copy'}
COMMUTATIVE_WRAPPERS = {'sorted', 'set', 'frozenset', 'sum', 'any', 'all', 'len', 'max', 'min', 'Counter', 'collections.Counter'}


class SetTypes:
    def __init__(self, repo, fn):
        self.repo, self.fn, self.m = repo, fn, fn.module
        self.names = set()
        self.attrs = set()
        ann = {a.arg: a.annotation for a in fn.node.args.args + fn.node.args.kwonlyargs if a.annotation is not None}
        for k, v in ann.items():
            if ast.unparse(v).replace('typing.', '').lower().startswith(('set[', 'set', 'frozenset')):
                self.names.add(k)
        if fn.cls is not None:
            init = fn.module.funcs.get(fn.cls.name + '.__init__')
            if init is not None:
                for n in own_nodes(init.node):
                    if isinstance(n, (ast.Assign, ast.AnnAssign)):
                        tgs = n.targets if isinstance(n, ast.Assign) else [n.target]
                        for t in tgs:
                            if isinstance(t, ast.Attribute) and isinstance(t.value, ast.Name) and t.value.id == 'self' and n.value is not None and self._is_set_expr(n.value, init_scope=True):
                                self.attrs.add(t.attr)
        changed = True
        while changed:
            changed = False
            for n in own_nodes(fn.node):
                if isinstance(n, ast.Assign) and len(n.targets) == 1 and isinstance(n.targets[0], ast.Name) and n.targets[0].id not in self.names and self.is_set(n.value):
                    # every definition of the name must be set-typed
                    defs = [d for d in own_nodes(fn.node) if isinstance(d, ast.Assign) and any(isinstance(t, ast.Name) and t.id == n.targets[0].id for t in d.targets)]
                    if all(self.is_set(d.value) for d in defs):
                        self.names.add(n.targets[0].id)
                        changed = True

    def _is_set_expr(self, e, init_scope=False):
        if isinstance(e, (ast.Set, ast.SetComp)):
            return True
        if isinstance(e, ast.Call):
            if isinstance(e.func, ast.Name) and e.func.id in ('set', 'frozenset'):
                return True
            if isinstance(e.func, ast.Attribute) and e.func.attr in SET_METHODS and (self.is_set(e.func.value) or (isinstance(e.func.value, ast.Name) and e.func.value.id == 'set')):
                return True
            d = self.m.dotted(e.func)
            tgt = self.repo.find_func(d) if d else None
            if tgt is not None:
                r = tgt.node.returns
                if r is not None and ast.unparse(r).lower().startswith(('set', 'frozenset')):
                    return True
        if isinstance(e, ast.BinOp) and isinstance(e.op, (ast.Sub, ast.BitOr, ast.BitAnd, ast.BitXor)):
            return self.is_set(e.left) or self.is_set(e.right)
        return False

    def is_set(self, e):
        if isinstance(e, ast.Name):
            if e.id in self.names:
                return True
            # a name with several definitions: the one that reaches this use (straight-line approximation)
            line = getattr(e, 'lineno', None)
            if line is not None:
                defs = [d for d in own_nodes(self.fn.node) if isinstance(d, ast.Assign) and any(isinstance(t, ast.Name) and t.id == e.id for t in d.targets)]
                before = [d for d in defs if d.lineno < line or (d.lineno == line and not any(x is e for x in ast.walk(d.value)))]
                inside = [d for d in defs if any(x is e for x in ast.walk(d.value))]
                before = [d for d in before if d not in inside]
                if before and len(defs) > 1:
                    last = max(before, key=lambda d: d.lineno)
                    return self._is_set_expr(last.value)
            return False
        if isinstance(e, ast.Attribute) and isinstance(e.value, ast.Name) and e.value.id == 'self':
            return e.attr in self.attrs
        return self._is_set_expr(e)


def _classify_loop(fn, lp, par):
    """('sink', node, why) | ('commutative', why) | ('unknown', why) for `for x in <set>`"""
    tvars = {x.id for x in ast.walk(lp.target) if isinstance(x, ast.Name)}
    changed = True
    while changed:      # names derived from the loop variable inside the body (feature_name = f'{column}{k}')
        changed = False
        for n in ast.walk(lp):
            if isinstance(n, ast.Assign) and len(n.targets) == 1 and isinstance(n.targets[0], ast.Name) and n.targets[0].id not in tvars \
                    and any(isinstance(x, ast.Name) and x.id in tvars for x in ast.walk(n.value)):
                tvars.add(n.targets[0].id)
                changed = True
    sinks = []
    unknown = []
    for n in ast.walk(lp):
        if n is lp:
            continue
        if isinstance(n, ast.Call) and isinstance(n.func, ast.Attribute):
            a = n.func.attr
            uses_var = any(isinstance(x, ast.Name) and x.id in tvars for arg in n.args for x in ast.walk(arg))
            if a in ('append', 'extend', 'insert', 'appendleft') and isinstance(n.func.value, ast.Name):
                sinks.append((n, f'appends to the list `{n.func.value.id}` in set order'))
            elif a in ('add', 'remove', 'discard', 'update', 'difference_update', 'intersection_update'):
                continue
            elif a in ('set_description', 'info', 'debug', 'warning', 'error', 'get', 'count', 'split', 'join', 'format', 'replace', 'strip', 'tolist', 'items', 'keys', 'values', 'union', 'difference'):
                continue
            elif uses_var:
                unknown.append((n, f'call {ast.unparse(n)[:50]}'))
        if isinstance(n, (ast.Assign, ast.AugAssign)):
            tgs = n.targets if isinstance(n, ast.Assign) else [n.target]
            for t in tgs:
                if isinstance(t, ast.Subscript) and isinstance(t.value, ast.Name):
                    key_uses = any(isinstance(x, ast.Name) and x.id in tvars for x in ast.walk(t.slice))
                    const_val = isinstance(n, ast.Assign) and isinstance(n.value, ast.Constant)
                    if key_uses and not const_val:
                        sinks.append((n, f'inserts keys into `{t.value.id}` in set order (dict order becomes column order when the dict is turned into a frame)'))
    if sinks:
        return ('sink',) + sinks[0]
    if unknown:
        return ('unknown', unknown[0][0], unknown[0][1])
    return ('commutative', None, 'body only tests membership / updates sets, counters or scalars')


def set_order(repo, chk):
    root = repo.func(TR, 'outrank_task_conduct_ranking')
    reach = reachable_funcs(repo, [root])
    n_sites = 0
    for f in reach:
        if f.module.name.endswith('synthetic_data_generators.cc_generator') or f.module.name.endswith('visualizations.ranking_visualization'):
            continue
        st = SetTypes(repo, f)
        if not st.names and not st.attrs and 'set' not in ast.unparse(f.node):
            continue
        par = parents(f.node)
        for n in own_nodes(f.node):
            site = None
            if isinstance(n, ast.For) and st.is_set(n.iter):
                n_sites += 1
                key = (f.module.name, f.qualname, ast.unparse(n.iter))
                if key in FROZEN_COMMUTATIVE:
                    chk.ok('C09.5', 'R10', f.site(n), f'for {ast.unparse(n.target)} in {ast.unparse(n.iter)}', f'commutative consumer (frozen table): {FROZEN_COMMUTATIVE[key]}')
                    continue
                kind, node, why = _classify_loop(f, n, par)
                if kind == 'sink':
                    chk.bad('C09.5', 'R10', f.site(n), f'for {ast.unparse(n.target)} in {ast.unparse(n.iter)}: ... {ast.unparse(node)[:70]}', f'iteration over a set {why}: string hashing is randomised per process, so the resulting order - and with it pair orientation and which candidates survive the cap - differs between runs of the same command (wrap the set in sorted())')
                elif kind == 'unknown':
                    chk.unsure('C09.5', 'R10', f.site(n), f'for {ast.unparse(n.target)} in {ast.unparse(n.iter)}', f'cannot classify the consumer of this set iteration ({why}); add it to the frozen table with a reason or sort the set')
                else:
                    chk.ok('C09.5', 'R10', f.site(n), f'for {ast.unparse(n.target)} in {ast.unparse(n.iter)}', f'commutative consumer: {why}')
            elif isinstance(n, (ast.ListComp, ast.GeneratorExp, ast.DictComp)) and any(st.is_set(g.iter) for g in n.generators):
                n_sites += 1
                p = par.get(n)
                wrapped = isinstance(p, ast.Call) and ((isinstance(p.func, ast.Name) and p.func.id in COMMUTATIVE_WRAPPERS) or (f.module.dotted(p.func) or '') in COMMUTATIVE_WRAPPERS)
                g = next(g for g in n.generators if st.is_set(g.iter))
                # a lazy generator (possibly through map / filter / another generator) that is the iterable of a for loop: the loop body is the consumer
                top, q = n, p
                while isinstance(n, ast.GeneratorExp) and q is not None and ((isinstance(q, ast.Call) and isinstance(q.func, ast.Name) and q.func.id in ('map', 'filter', 'iter') and top in q.args)
                                                                           or (isinstance(q, ast.comprehension) and q.iter is top) or (isinstance(q, ast.GeneratorExp) and any(c.iter is top or c is top for c in q.generators))):
                    top, q = q, par.get(q)
                if isinstance(n, ast.GeneratorExp) and isinstance(q, ast.For) and q.iter is top:
                    kind, node, why = _classify_loop(f, q, par)
                    if kind == 'sink':
                        chk.bad('C09.5', 'R10', f.site(q), f'for {ast.unparse(q.target)} in {ast.unparse(q.iter)[:80]}: ... {ast.unparse(node)[:70]}', f'iteration over a set {why}: string hashing is randomised per process, so the resulting order differs between processes')
                    elif kind == 'unknown':
                        chk.unsure('C09.5', 'R10', f.site(q), f'for {ast.unparse(q.target)} in {ast.unparse(q.iter)[:80]}', f'cannot classify the consumer of this set iteration ({why})')
                    else:
                        chk.ok('C09.5', 'R10', f.site(q), f'for {ast.unparse(q.target)} in {ast.unparse(q.iter)[:80]}', f'commutative consumer: {why}')
                    continue
                into_array = isinstance(p, ast.Call) and (f.module.dotted(p.func) or '') in ('numpy.fromiter', 'numpy.array', 'numpy.asarray') and isinstance(par.get(p), ast.Assign)
                # recv.update(<generator over the set>) as a statement: the elements are added to recv one by one, exactly like `for v in <set>: recv.add(v)`
                bulk = isinstance(n, ast.GeneratorExp) and isinstance(p, ast.Call) and isinstance(p.func, ast.Attribute) and p.func.attr in ('update', 'union_update', 'extend_distinct') and p.args == [n] and isinstance(par.get(p), ast.Expr)
                if bulk:
                    key = (f.module.name, f.qualname, ast.unparse(g.iter))
                    if key in FROZEN_COMMUTATIVE:
                        chk.ok('C09.5', 'R10', f.site(n), ast.unparse(p)[:100], f'commutative consumer (frozen table), fed in bulk: {FROZEN_COMMUTATIVE[key]}')
                    else:
                        chk.unsure('C09.5', 'R10', f.site(n), ast.unparse(p)[:100], 'the elements of a set are added to a container in bulk (.update): order-blind for a set / counter / sketch, observable for a dict - the kind of the receiver is not decided')
                    continue
                if wrapped:
                    chk.ok('C09.5', 'R10', f.site(n), ast.unparse(p)[:100], 'order-blind consumer of the comprehension')
                elif into_array:
                    chk.unsure('C09.5', 'R10', f.site(n), ast.unparse(p)[:100], 'an array is filled in set-iteration order; whether that order is observable depends on how the array is consumed (element-wise operations and commutative scatter updates are order-blind), which is not classified')
                elif isinstance(n, ast.GeneratorExp) and isinstance(p, ast.Call) and isinstance(p.func, ast.Attribute) and p.func.attr == 'join':
                    chk.bad('C09.5', 'R10', f.site(n), ast.unparse(p)[:100], 'a string is joined in set order')
                elif isinstance(n, ast.DictComp) and isinstance(par.get(n), (ast.Assign, ast.AnnAssign)) and _only_addressed_by_key(f, par.get(n)):
                    chk.ok('C09.5', 'R10', f.site(n), ast.unparse(n)[:100], 'the dict built over the set is only ever addressed by key (d[k], d.get(k), k in d, len(d)): its insertion order is never observed')
                elif isinstance(par.get(n), ast.Assign) and len(par.get(n).targets) == 1 and isinstance(par.get(n).targets[0], ast.Name) and \
                        _only_order_blind_uses(f, par, par.get(n).targets[0].id, par.get(n)):
                    chk.unsure('C09.5', 'R10', f.site(n), ast.unparse(n)[:120], f'a list is built by iterating the set `{ast.unparse(g.iter)[:50]}`, but it is only unpacked into / consumed by operations that do not obviously depend on its order '
                               '(scatter maximum / sum, set, sorted): whether the order is observable is not decided')
                else:
                    chk.bad('C09.5', 'R10', f.site(n), ast.unparse(n)[:120], f'a list/dict is built by iterating the set `{ast.unparse(g.iter)[:50]}`: its order differs between processes (PYTHONHASHSEED) and reaches column order / candidate order (wrap the set in sorted())')
            elif isinstance(n, ast.Call) and ((isinstance(n.func, ast.Name) and n.func.id in ('sorted', 'min', 'max')) or (f.module.dotted(n.func) or '') in ('heapq.nsmallest', 'heapq.nlargest')) \
                    and any(k.arg == 'key' for k in n.keywords) and any(st.is_set(a) for a in n.args):
                n_sites += 1
                chk.bad('C09.5', 'R10', f.site(n), ast.unparse(n)[:120], 'a set is ordered by a key: elements with equal keys keep their set-iteration order (stable sort), which differs between processes (PYTHONHASHSEED) - so which elements come first / survive a prefix slice differs between runs (order the original list, or add the element itself as a tie-breaker)')
            elif isinstance(n, ast.Call) and isinstance(n.func, ast.Name) and n.func.id in ('list', 'tuple', 'enumerate', 'iter') and len(n.args) == 1 and st.is_set(n.args[0]):
                n_sites += 1
                p = par.get(n)
                wrapped = isinstance(p, ast.Call) and isinstance(p.func, ast.Name) and p.func.id in COMMUTATIVE_WRAPPERS
                chk.expect(wrapped, 'C09.5', 'R10', f.site(n), ast.unparse(p if p is not None and not isinstance(p, ast.stmt) else n)[:120], 'order-blind consumer',
                           f'`{ast.unparse(n)}` turns a set into a sequence: the order differs between processes (PYTHONHASHSEED) and becomes a column / candidate order (use sorted())')
    chk.analysed['set_iteration_sites_on_ranking_path'] = n_sites
    chk.require_count('set-iteration sites on the ranking path', n_sites, 4)


ORDER_BLIND_CONSUMERS = {'set', 'frozenset', 'sorted', 'sum', 'min', 'max', 'any', 'all', 'len', 'Counter', 'collections.Counter', 'zip', 'numpy.maximum.at', 'numpy.add.at', 'numpy.minimum.at',
                         'numpy.asarray', 'numpy.array', 'numpy.max', 'numpy.min', 'numpy.sum', 'numpy.unique'}


def _only_addressed_by_key(f, definition):
    """the dict bound by `definition` to a local name is used for nothing but key look-ups / key stores / membership tests / len (anywhere in the
    function, closures included) and is bound only there"""
    tg = definition.targets[0] if isinstance(definition, ast.Assign) and len(definition.targets) == 1 else getattr(definition, 'target', None)
    if not isinstance(tg, ast.Name):
        return False
    name = tg.id
    full_par = parents(f.node)
    for x in ast.walk(f.node):
        if not (isinstance(x, ast.Name) and x.id == name) or x is tg:
            continue
        if isinstance(x.ctx, (ast.Store, ast.Del)):
            return False
        p = full_par.get(x)
        if isinstance(p, ast.Subscript) and p.value is x and not isinstance(p.slice, ast.Slice):
            continue
        if isinstance(p, ast.Attribute) and p.value is x and p.attr in ('get', 'setdefault', '__contains__', '__getitem__') and isinstance(full_par.get(p), ast.Call):
            continue
        if isinstance(p, ast.Compare) and x in p.comparators and all(isinstance(o, (ast.In, ast.NotIn)) for o in p.ops):
            continue
        if isinstance(p, ast.Call) and isinstance(p.func, ast.Name) and p.func.id == 'len' and p.args == [x]:
            continue
        return False
    return True


def _only_order_blind_uses(f, par, name, definition):
    """every later use of the local `name` hands it (possibly unpacked with *) to an order-blind consumer, or tests it for emptiness; values derived
    from it by zip(*name) are followed one step (indices, ranks = zip(*slots); np.maximum.at(M, indices, ranks))"""
    uses = [x for x in own_nodes(f.node) if isinstance(x, ast.Name) and x.id == name and isinstance(x.ctx, ast.Load)]
    if not uses:
        return False
    follow = []
    for u in uses:
        p = par.get(u)
        if isinstance(p, ast.Starred):
            p = par.get(p)
        if isinstance(p, ast.UnaryOp) and isinstance(p.op, ast.Not):
            continue
        if isinstance(p, (ast.If, ast.While)) and p.test is u:
            continue
        # map(g, name) / filter(g, name) / (h(x) for x in name): a lazy stage; what matters is who consumes it
        hops = 0
        while isinstance(p, ast.Call) and (f.module.dotted(p.func) or ast.unparse(p.func)) in ('map', 'filter') and hops < 3:
            u, p = p, par.get(p)
            hops += 1
        if isinstance(p, ast.For) and p.iter is u:
            # a loop whose body only feeds commutative sinks: x.add(..) / x.update(..) / x.discard(..)
            if all(isinstance(b, ast.Expr) and isinstance(b.value, ast.Call) and isinstance(b.value.func, ast.Attribute) and b.value.func.attr in ('add', 'update', 'discard') for b in p.body) and not p.orelse:
                continue
            return False
        if isinstance(p, ast.Call):
            d = f.module.dotted(p.func) or ast.unparse(p.func)
            if d not in ORDER_BLIND_CONSUMERS:
                return False
            if d == 'zip':
                st = par.get(p)
                if isinstance(st, ast.Assign) and len(st.targets) == 1 and isinstance(st.targets[0], ast.Tuple) and all(isinstance(e, ast.Name) for e in st.targets[0].elts):
                    follow += [(e.id, st) for e in st.targets[0].elts]
                else:
                    return False
            continue
        return False
    for nm, st in follow:
        for u in [x for x in own_nodes(f.node) if isinstance(x, ast.Name) and x.id == nm and isinstance(x.ctx, ast.Load)]:
            p = par.get(u)
            while isinstance(p, ast.Call) and (f.module.dotted(p.func) or '') in ('numpy.asarray', 'numpy.array', 'list', 'tuple') :
                u, p = p, par.get(p)
            if not (isinstance(p, ast.Call) and (f.module.dotted(p.func) or '') in ('numpy.maximum.at', 'numpy.add.at', 'numpy.minimum.at')):
                return False
    return True
