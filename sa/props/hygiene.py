"""Rules that look outside the anchored functions (round 7): a property's behaviour also depends on code its anchors merely use.

 H1 (R2, who-may-write)  the run configuration (`args`) is read-only: the attributes a property's behaviour is a function of are assigned nowhere
                         in the package except at the frozen, confirmed sites (the 3MR clamp, the task-forced heuristic)
 H2                      no function on the property's path keeps state between calls through a mutable default argument that it mutates
 H3                      the record classes that carry the property's data hold what they were given: no hook (`__post_init__`, `__setattr__`,
                         a hand-written `__init__`) rewrites a field after / while it is stored

All three are decided on the *raw* syntax trees (before helper expansion - expanding a helper binds its defaults as fresh locals and would hide H2)
and positively: the forbidden construct is present and named.  What cannot be classified is reported inconclusive.
"""
from __future__ import annotations

import ast

from ..model import norm

PKG = 'outrank'
CR = 'outrank.core_ranking'
TR = 'outrank.task_ranking'
IE = 'outrank.algorithms.importance_estimator'
MI = 'outrank.algorithms.feature_ranking.ranking_mi_numba'
CU = 'outrank.core_utils'
TS = 'outrank.task_summary'
RT = 'outrank.feature_transformations.ranking_transformers'
CC = 'outrank.algorithms.synthetic_data_generators.cc_generator'

# configuration attributes each property's behaviour is a function of
CONFIG = {
    'C04': {'mi_stratified_sampling_ratio'},
    'C05': {'heuristic', 'label_column', 'reference_model_JSON'},
    'C06': {'target_ranking_only', 'heuristic', 'label_column'},          # the cap itself: who-may-write rule C06.3w
    'C07': {'feature_set_focus'},
    'C08': {'minibatch_size', 'subsampling'},
    'C09': {'num_threads'},
    'C10': {'interaction_order'},
    'C11': {'transformers', 'subfeature_mapping', 'explode_multivalue_features', 'include_noise_baseline_features', 'interaction_order'},
    'C12': {'transformers'},
    'C13': {'rare_value_count_upper_bound', 'max_unique_hist_constraint', 'missing_value_symbols'},
    'C16': {'data_source', 'data_path'},
    'C17': {'heuristic'},
    'C18': {'label_column', 'interaction_order', 'heuristic'},
}
# confirmed writers, recognised by what they do (not by where they stand, so that moving them into a helper changes nothing)
def _confirmed_writer(attr, node, parents_of):
    """reason when the store is one of the confirmed writes of the configuration"""
    if attr == 'heuristic' and isinstance(node, ast.Assign) and isinstance(node.value, ast.Constant) and node.value.value == 'Constant':
        g = parents_of.get(node)
        while g is not None:
            if isinstance(g, ast.If) and any(isinstance(x, ast.Attribute) and x.attr == 'task' for x in ast.walk(g.test)):
                return 'tasks that do not rank force the Constant heuristic before anything reads it'
            g = parents_of.get(g)
    return None


# functions whose whole callee closure belongs to the property (history independence is what the property states); every other property owns
# its anchored functions and the new helpers extracted from them
ROOTS = {
    'C01': [(MI, 'compute_conditional_entropy'), (MI, 'compute_entropies'), (MI, 'mutual_info_estimator_numba'), (MI, 'numba_unique')],
    'C02': [(MI, 'compute_entropies'), (MI, 'mutual_info_estimator_numba'), (CR, 'mixed_rank_graph')],
    'C03': [(MI, 'compute_entropies'), (IE, 'numba_mi')],
    'C04': [(MI, 'mutual_info_estimator_numba'), (MI, 'stratified_subsampling'), (IE, 'numba_mi')],
    'C05': [(IE, 'conduct_feature_ranking'), (IE, 'generate_data_for_ranking'), (IE, 'get_importances_estimate_pairwise'), (CR, 'mixed_rank_graph')],
    'C06': [(CR, 'get_combinations_from_columns'), (CR, 'mixed_rank_graph'), (CR, 'prior_combinations_sample')],
    'C07': [(CR, 'prior_combinations_sample')],
    'C08': [(CR, 'compute_batch_ranking'), (CR, 'estimate_importances_minibatches'), (CR, 'get_grouped_df')],
    'C09': [(IE, 'get_importances_estimate_pairwise'), (CR, 'mixed_rank_graph')],
    'C10': [(CR, 'compute_combined_features')],
    'C11': [(CR, 'compute_combined_features'), (CR, 'compute_expanded_multivalue_features'), (CR, 'compute_subfeatures'), (RT, 'FeatureTransformerNoise.construct_new_features')],
    'C12': [(RT, 'FeatureTransformerGeneric.__init__'), (RT, 'FeatureTransformerGeneric.construct_new_features'), (RT, 'FeatureTransformerGeneric.get_vals')],
    'C13': [(CR, 'compute_coverage'), (CR, 'compute_value_counts'), (CR, 'compute_cardinalities'), (CU, 'summarize_feature_bounds_for_transformers'), (CU, 'summarize_rare_counts')],
    'C16': [(CU, 'generic_line_parser'), (CU, 'parse_namespace'), (CU, 'parse_ob_csv_line'), (CU, 'parse_ob_line'), (CU, 'parse_ob_line_vw')],
    'C17': [(IE, 'rank_features_3MR')],
    'C18': [(TS, 'create_final_dataframe'), (TS, 'filter_transformers_only'), (TS, 'generate_final_ranking'), (TS, 'handle_interaction_order'), (TS, 'outrank_task_result_summary')],
    'C19': [(CC, 'CategoricalClassification._generate_feature'), (CC, 'CategoricalClassification.generate_data')],
    'C20': [(CC, 'CategoricalClassification.generate_combinations'), (CC, 'CategoricalClassification.generate_correlated'), (CC, 'CategoricalClassification.generate_duplicates'),
            (CC, 'CategoricalClassification.generate_labels'), (CC, 'CategoricalClassification.generate_noise'), (CC, 'CategoricalClassification._cluster_data'),
            (CC, 'CategoricalClassification.downsample_dataset')],
}
HLL = 'outrank.algorithms.sketches.counting_ultiloglog'
CMS = 'outrank.algorithms.sketches.counting_cms'
CNT = 'outrank.algorithms.sketches.counting_counters_ordinary'
ROOTS['C14'] = [(HLL, 'HyperLogLogWCache.*')]
ROOTS['C15'] = [(CMS, 'CountMinSketch.*'), (CMS, 'cms_hash'), (CNT, 'PrimitiveConstrainedCounter.*')]
ROOTS['C13'] = ROOTS['C13'] + [(HLL, 'HyperLogLogWCache.*'), (CNT, 'PrimitiveConstrainedCounter.*')]
DEEP = {'C08', 'C09', 'C05'}
# per-batch statistics that do not feed the scores: a deep closure does not descend into them (they belong to C13)
DEEP_STOP = {(CR, 'compute_cardinalities'), (CR, 'compute_coverage'), (CR, 'compute_value_counts'), (CR, 'compute_bounds_increment'), (CR, 'compute_feature_memory_consumption')}

RECORDS = {
    'C05': {'BatchRankingSummary': {'triplet_scores'}},
    'C06': {'BatchRankingSummary': {'triplet_scores'}},
    'C08': {'BatchRankingSummary': {'triplet_scores'}, 'DatasetInformationStorage': {'column_names', 'column_types'}},
    'C09': {'BatchRankingSummary': {'triplet_scores'}},
    'C16': {'DatasetInformationStorage': {'column_names', 'column_types', 'col_delimiter', 'fw_map'}},
    'C12': {'NumericFeatureSummary': {'minimum', 'maximum', 'median', 'num_unique', 'feature_name'}},
}

BUILTIN_METHODS = {x for t in (dict, set, list, str, tuple, frozenset, bytes) for x in dir(t)} | {'most_common', 'elements', 'subtract', 'total'}
MUTATORS = {'append', 'extend', 'insert', 'update', 'add', 'setdefault', 'pop', 'popitem', 'remove', 'clear', 'sort', 'reverse', 'discard', 'appendleft', 'fill', 'put', 'resize'}
MUTABLE_CTORS = {'list', 'dict', 'set', 'defaultdict', 'Counter', 'OrderedDict', 'deque', 'bytearray', 'collections.defaultdict', 'collections.Counter', 'collections.OrderedDict',
                 'collections.deque', 'np.zeros', 'np.ones', 'np.empty', 'np.array', 'numpy.zeros', 'numpy.ones', 'numpy.empty', 'numpy.array', 'pd.DataFrame', 'pd.Series'}


# ---------------------------------------------------------------------------
# raw index and call graph
# ---------------------------------------------------------------------------

class RawIndex:
    def __init__(self, repo):
        self.repo = repo
        self.funcs: dict[tuple[str, str], ast.AST] = {}
        self.cls_of: dict[tuple[str, str], str | None] = {}
        self.classes: dict[tuple[str, str], ast.ClassDef] = {}
        self.methods: dict[str, list[tuple[str, str]]] = {}
        for mn, m in repo.modules.items():
            tree = raw_tree(m)
            self._index(mn, tree.body, '', None)

    def _index(self, mn, body, prefix, cls):
        for n in body:
            if isinstance(n, (ast.FunctionDef, ast.AsyncFunctionDef)):
                self.funcs[(mn, prefix + n.name)] = n
                self.cls_of[(mn, prefix + n.name)] = cls
                if cls is not None:
                    self.methods.setdefault(n.name, []).append((mn, prefix + n.name))
            elif isinstance(n, ast.ClassDef):
                self.classes[(mn, prefix + n.name)] = n
                self._index(mn, n.body, prefix + n.name + '.', prefix + n.name)
            elif isinstance(n, (ast.If, ast.Try)):
                for part in ('body', 'orelse', 'finalbody'):
                    self._index(mn, getattr(n, part, []), prefix, cls)

    def is_new(self, key) -> bool:
        base = self.repo.baseline
        if base is None:
            return False
        return key[1] not in base.get(key[0], set())

    def callees(self, key):
        mn, qn = key
        m = self.repo.modules[mn]
        node = self.funcs[key]
        cls = self.cls_of.get(key)
        out = set()
        for n in ast.walk(node):
            if isinstance(n, ast.Name) and isinstance(n.ctx, ast.Load):
                k = self._resolve_name(m, mn, n.id)
                if k:
                    out |= k
            elif isinstance(n, ast.Attribute) and isinstance(n.ctx, ast.Load):
                if isinstance(n.value, ast.Name) and n.value.id in ('self', 'cls') and cls is not None:
                    if (mn, f'{cls}.{n.attr}') in self.funcs:
                        out.add((mn, f'{cls}.{n.attr}'))
                    continue
                d = m.dotted(n)
                if d:
                    k = self._resolve_dotted(d)
                    if k:
                        out |= k
                        continue
                # a method called on an object of unknown class: the package method of that name when the name is not also a method of the
                # built-in containers (dict.update, set.add, list.append ... would tie every function to the sketch classes)
                if n.attr not in BUILTIN_METHODS:
                    for k in self.methods.get(n.attr, ()):
                        out.add(k)
        out.discard(key)
        return out

    def _resolve_name(self, m, mn, name):
        if (mn, name) in self.funcs:
            return {(mn, name)}
        if (mn, name) in self.classes:
            return {k for k in self.funcs if k[0] == mn and k[1] in (f'{name}.__init__', f'{name}.__post_init__')}
        d = m.imports.get(name)
        if d and d.startswith(PKG):
            return self._resolve_dotted(d)
        return None

    def _resolve_dotted(self, d):
        parts = d.split('.')
        for i in range(len(parts) - 1, 0, -1):
            mn = '.'.join(parts[:i])
            if mn in self.repo.modules:
                qn = '.'.join(parts[i:])
                if (mn, qn) in self.funcs:
                    return {(mn, qn)}
                if (mn, qn) in self.classes:
                    return {k for k in self.funcs if k[0] == mn and k[1] in (f'{qn}.__init__', f'{qn}.__post_init__')}
                m2 = self.repo.modules[mn]
                if parts[i] in m2.imports and m2.imports[parts[i]] != d:
                    return self._resolve_dotted('.'.join([m2.imports[parts[i]]] + parts[i + 1:]))
                return None
        return None

    def expand(self, roots):
        out = []
        for mn, qn in roots:
            if qn.endswith('.*'):
                out += [k for k in self.funcs if k[0] == mn and k[1].startswith(qn[:-1]) and '.' not in k[1][len(qn) - 1:]]
            else:
                out.append((mn, qn))
        return out

    def closure(self, roots, deep: bool):
        """roots, plus (deep) everything they reach, or (shallow) the functions new since the confirmed tree that they reach through new functions"""
        seen, work = set(), [r for r in self.expand(roots) if r in self.funcs]
        while work:
            k = work.pop()
            if k in seen:
                continue
            seen.add(k)
            for c in self.callees(k):
                if c in seen:
                    continue
                if (deep and c not in DEEP_STOP) or self.is_new(c):
                    work.append(c)
        return seen


def raw_tree(m):
    t = getattr(m, '_raw_tree', None)
    if t is None:
        t = ast.parse(m.src, filename=m.path)
        m._raw_tree = t
    return t


_INDEX: dict[int, RawIndex] = {}


def index(repo) -> RawIndex:
    ix = _INDEX.get(id(repo))
    if ix is None:
        ix = _INDEX[id(repo)] = RawIndex(repo)
    return ix


def site(repo, mn, qn, node):
    return f'{repo.modules[mn].relpath}:{getattr(node, "lineno", 0)} {qn}'


# ---------------------------------------------------------------------------
# H1 configuration is read-only
# ---------------------------------------------------------------------------

def _is_args(e, aliases):
    return isinstance(e, ast.Name) and (e.id == 'args' or e.id in aliases)


def config_writes(repo):
    """[(module, function, attribute or None, node, how)] - every store into the run configuration"""
    ix = index(repo)
    out = []
    for (mn, qn), fn in ix.funcs.items():
        aliases = set()
        for n in ast.walk(fn):
            if isinstance(n, ast.Assign) and isinstance(n.value, ast.Name) and n.value.id == 'args':
                aliases |= {t.id for t in n.targets if isinstance(t, ast.Name)}
        for n in ast.walk(fn):
            tgts = []
            if isinstance(n, ast.Assign):
                tgts = n.targets
            elif isinstance(n, (ast.AugAssign, ast.AnnAssign)) and (not isinstance(n, ast.AnnAssign) or n.value is not None):
                tgts = [n.target]
            elif isinstance(n, ast.Delete):
                tgts = n.targets
            flat = []
            for t in tgts:
                flat += list(t.elts) if isinstance(t, (ast.Tuple, ast.List)) else [t]
            for t in flat:
                if isinstance(t, ast.Attribute) and _is_args(t.value, aliases):
                    out.append((mn, qn, t.attr, n, 'assignment'))
                elif isinstance(t, ast.Subscript):
                    b = t.value
                    dyn = (isinstance(b, ast.Attribute) and b.attr == '__dict__' and _is_args(b.value, aliases)) or \
                          (isinstance(b, ast.Call) and isinstance(b.func, ast.Name) and b.func.id == 'vars' and b.args and _is_args(b.args[0], aliases))
                    if dyn:
                        key = t.slice.value if isinstance(t.slice, ast.Constant) and isinstance(t.slice.value, str) else None
                        out.append((mn, qn, key, n, 'store into its __dict__'))
            if isinstance(n, ast.Call):
                f = n.func
                if isinstance(f, ast.Name) and f.id in ('setattr', 'delattr') and n.args and _is_args(n.args[0], aliases):
                    key = n.args[1].value if len(n.args) > 1 and isinstance(n.args[1], ast.Constant) and isinstance(n.args[1].value, str) else None
                    out.append((mn, qn, key, n, f.id))
                elif isinstance(f, ast.Attribute) and f.attr in ('update', 'setdefault', 'pop', 'clear', '__setattr__'):
                    b = f.value
                    if (isinstance(b, ast.Attribute) and b.attr == '__dict__' and _is_args(b.value, aliases)) or \
                       (isinstance(b, ast.Call) and isinstance(b.func, ast.Name) and b.func.id == 'vars' and b.args and _is_args(b.args[0], aliases)) or \
                       (f.attr == '__setattr__' and _is_args(b, aliases)):
                        keys = [k.arg for k in n.keywords if k.arg] or [None]
                        if n.args and isinstance(n.args[0], ast.Constant) and isinstance(n.args[0].value, str):
                            keys = [n.args[0].value]
                        elif n.args and isinstance(n.args[0], ast.Dict):
                            keys = [k.value if isinstance(k, ast.Constant) else None for k in n.args[0].keys]
                        for key in keys:
                            out.append((mn, qn, key, n, f'{f.attr} of its __dict__'))
    # nested functions are walked with their owner and on their own: report once
    uniq, seen = [], set()
    for w in sorted(out, key=lambda w: -len(w[1])):
        if id(w[3]) in seen:
            continue
        seen.add(id(w[3]))
        uniq.append(w)
    return uniq


def check_config(repo, chk, pid):
    attrs = CONFIG.get(pid)
    if not attrs:
        return
    oid = f'{pid}.H1'
    writes = config_writes(repo)
    n_ok = 0
    for mn, qn, attr, node, how in writes:
        if attr is None:
            chk.unsure(oid, 'R2', site(repo, mn, qn, node), norm(node)[:120], f'the run configuration is written under a computed name ({how}); whether {", ".join(sorted(attrs))} can be among the names is not decided')
            continue
        if attr not in attrs:
            continue
        fnode = index(repo).funcs[(mn, qn)]
        par = {c: p_ for p_ in ast.walk(fnode) for c in ast.iter_child_nodes(p_)}
        if _confirmed_writer(attr, node, par):
            n_ok += 1
            continue
        chk.bad(oid, 'R2', site(repo, mn, qn, node), norm(node)[:120],
                f'args.{attr} is part of the run configuration this property\'s behaviour is a function of; it is reassigned here ({how}), so every later reader in the same process '
                f'(the next batch, the next stage, the summary) works with a value the user did not give')
    chk.ok(oid, 'R2', 'outrank/', f'stores into args.{{{", ".join(sorted(attrs))}}}', f'{len(writes)} store(s) into the run configuration in the package, {n_ok} at confirmed sites for these attributes, none elsewhere', inspected=max(1, len(writes)))


# ---------------------------------------------------------------------------
# H2 mutable default arguments
# ---------------------------------------------------------------------------

def _mutable_default(d, m):
    if isinstance(d, (ast.List, ast.Dict, ast.Set, ast.ListComp, ast.DictComp, ast.SetComp)):
        return True
    if isinstance(d, ast.Call):
        name = m.dotted(d.func) or (norm(d.func) if isinstance(d.func, (ast.Name, ast.Attribute)) else None)
        plain = norm(d.func)
        return plain in MUTABLE_CTORS or (name or '') in MUTABLE_CTORS or (name or '').replace('numpy.', 'np.') in MUTABLE_CTORS
    return False


def default_leaks(repo, key):
    """[(parameter, default, mutating node)] for one raw function"""
    ix = index(repo)
    fn = ix.funcs[key]
    m = repo.modules[key[0]]
    a = fn.args
    pos = a.posonlyargs + a.args
    pairs = list(zip(pos[len(pos) - len(a.defaults):], a.defaults)) + [(p, d) for p, d in zip(a.kwonlyargs, a.kw_defaults) if d is not None]
    out = []
    for p, d in pairs:
        if not _mutable_default(d, m):
            continue
        name = p.arg
        muts = []
        for n in ast.walk(fn):
            if isinstance(n, ast.Call) and isinstance(n.func, ast.Attribute) and n.func.attr in MUTATORS and isinstance(n.func.value, ast.Name) and n.func.value.id == name:
                muts.append(n)
            elif isinstance(n, (ast.Assign, ast.AugAssign, ast.Delete)):
                tg = n.targets if isinstance(n, (ast.Assign, ast.Delete)) else [n.target]
                for t in tg:
                    if isinstance(t, ast.Subscript) and isinstance(t.value, ast.Name) and t.value.id == name:
                        muts.append(n)
                    elif isinstance(n, ast.AugAssign) and isinstance(t, ast.Name) and t.id == name:
                        muts.append(n)
        # `x += [...]` both mutates and rebinds: it counts as a mutation, not as protection
        aug = {id(s.target) for s in ast.walk(fn) if isinstance(s, ast.AugAssign)}
        plain_rebind = any(isinstance(n, ast.Name) and n.id == name and isinstance(n.ctx, ast.Store) and id(n) not in aug for n in ast.walk(fn))
        if muts and not plain_rebind:
            out.append((name, d, muts[0]))
        elif muts and plain_rebind:
            out.append((name, d, None))
    return out


def check_defaults(repo, chk, pid):
    roots = ROOTS.get(pid)
    if not roots:
        return
    ix = index(repo)
    oid = f'{pid}.H2'
    missing = [r for r in roots if r not in ix.funcs and not r[1].endswith('.*')]
    funcs = ix.closure(roots, pid in DEEP)
    n = 0
    for key in sorted(funcs):
        for name, d, mut in default_leaks(repo, key):
            fn = ix.funcs[key]
            if mut is None:
                chk.unsure(oid, 'R19', site(repo, key[0], key[1], fn), f'{name}={norm(d)}', f'the parameter {name} has a mutable default that the function both rebinds and mutates; whether the shared default object is the one mutated is not decided')
                continue
            chk.bad(oid, 'R19', site(repo, key[0], key[1], mut), f'def {key[1].split(".")[-1]}(.., {name}={norm(d)}): {norm(mut)[:80]}',
                    f'the default value of {name} is created once, when the function is defined, and is mutated here: every call that relies on the default continues from what the previous '
                    f'calls left in it, so the result depends on the history of calls in the process (earlier batches, earlier pairs) and not on the arguments alone')
        n += 1
    chk.ok(oid, 'R19', 'outrank/', f'mutable default arguments of the {n} function(s) on this property\'s path', f'roots {", ".join(q for _, q in roots)}' + (' and everything they call' if pid in DEEP else ' and the helpers extracted from them') +
           (f'; not present: {", ".join(q for _, q in missing)}' if missing else ''), inspected=n)


# ---------------------------------------------------------------------------
# H3 record classes hold what they were given
# ---------------------------------------------------------------------------

def _self_field_store(n, fields):
    """(field, value) when n stores into self.<field>"""
    if isinstance(n, ast.Assign) and len(n.targets) == 1:
        t, v = n.targets[0], n.value
    elif isinstance(n, ast.AnnAssign) and n.value is not None:
        t, v = n.target, n.value
    elif isinstance(n, ast.AugAssign):
        t, v = n.target, n
    elif isinstance(n, ast.Expr) and isinstance(n.value, ast.Call):
        c = n.value
        f = c.func
        # object.__setattr__(self, 'field', v) / setattr(self, 'field', v)
        if ((isinstance(f, ast.Attribute) and f.attr == '__setattr__') or (isinstance(f, ast.Name) and f.id == 'setattr')) and len(c.args) >= 3 and isinstance(c.args[-2], ast.Constant):
            return c.args[-2].value, c.args[-1]
        # self.field.sort() / .clear() ...
        if isinstance(f, ast.Attribute) and f.attr in MUTATORS and isinstance(f.value, ast.Attribute) and isinstance(f.value.value, ast.Name) and f.value.value.id == 'self':
            return f.value.attr, c
        return None
    else:
        return None
    if isinstance(t, ast.Attribute) and isinstance(t.value, ast.Name) and t.value.id == 'self':
        return t.attr, v
    if isinstance(t, ast.Subscript) and isinstance(t.value, ast.Attribute) and isinstance(t.value.value, ast.Name) and t.value.value.id == 'self':
        return t.value.attr, n
    return None


def _classify_rewrite(field, v, params):
    """'same' | 'rewritten' | 'unknown' for the value stored into self.<field>"""
    def is_field(e):
        return (isinstance(e, ast.Attribute) and isinstance(e.value, ast.Name) and e.value.id == 'self' and e.attr == field) or (isinstance(e, ast.Name) and e.id == field and field in params)
    if is_field(v):
        return 'same'
    if isinstance(v, ast.Call) and isinstance(v.func, ast.Name) and v.func.id in ('list', 'tuple', 'dict') and len(v.args) == 1 and not v.keywords and is_field(v.args[0]):
        return 'same'
    if isinstance(v, (ast.ListComp, ast.SetComp, ast.GeneratorExp, ast.DictComp)) and len(v.generators) == 1 and is_field(v.generators[0].iter):
        g = v.generators[0]
        if g.ifs:
            return 'rewritten'
        elt = v.elt if not isinstance(v, ast.DictComp) else None
        if elt is not None and isinstance(g.target, ast.Name) and not (isinstance(elt, ast.Name) and elt.id == g.target.id):
            return 'rewritten'
        if elt is not None and isinstance(v, ast.ListComp):
            return 'same'
    if isinstance(v, ast.Call) and isinstance(v.func, ast.Name) and v.func.id in ('list', 'tuple', 'set', 'sorted') and v.args and isinstance(v.args[0], (ast.ListComp, ast.GeneratorExp)):
        inner = _classify_rewrite(field, v.args[0] if isinstance(v.args[0], ast.ListComp) else ast.ListComp(elt=v.args[0].elt, generators=v.args[0].generators), params)
        if inner == 'rewritten':
            return 'rewritten'
    if isinstance(v, ast.Call) and isinstance(v.func, ast.Name) and v.func.id == 'filter':
        return 'rewritten'
    return 'unknown'


def check_records(repo, chk, pid):
    recs = RECORDS.get(pid)
    if not recs:
        return
    ix = index(repo)
    oid = f'{pid}.H3'
    for cname, fields in sorted(recs.items()):
        key = (CU, cname)
        cls = ix.classes.get(key)
        if cls is None:
            chk.unsure(oid, 'R11', 'outrank/core_utils.py', cname, f'the record class {cname} was not found in core_utils; where the data it carried lives now is not analysed')
            continue
        hooks = 0
        for st in cls.body:
            if not isinstance(st, (ast.FunctionDef, ast.AsyncFunctionDef)):
                continue
            is_setter = any(isinstance(d, ast.Attribute) and d.attr == 'setter' for d in st.decorator_list)
            is_prop = any(isinstance(d, ast.Name) and d.id in ('property', 'cached_property') for d in st.decorator_list)
            if is_prop and st.name in fields:
                hooks += 1
                chk.unsure(oid, 'R11', site(repo, CU, f'{cname}.{st.name}', st), f'@property {st.name}', f'the field {st.name} of {cname} is read through a computed property; whether readers still get the stored value is not decided')
                continue
            if st.name in ('__getattribute__', '__getattr__'):
                hooks += 1
                chk.unsure(oid, 'R11', site(repo, CU, f'{cname}.{st.name}', st), st.name, f'reads of {cname} go through {st.name}; whether readers still get the stored value is not decided')
                continue
            if st.name not in ('__post_init__', '__init__', '__setattr__') and not is_setter:
                continue
            hooks += 1
            params = {a.arg for a in st.args.args}
            for n in ast.walk(st):
                fs = _self_field_store(n, fields)
                if fs is None:
                    continue
                f, v = fs
                if f not in fields and not (st.name == '__setattr__'):
                    continue
                kind = _classify_rewrite(f, v, params) if isinstance(v, ast.expr) else 'unknown'
                if st.name == '__init__' and isinstance(v, ast.Name) and v.id in params:
                    kind = 'same' if v.id == f else 'unknown'
                if kind == 'same':
                    continue
                s = site(repo, CU, f'{cname}.{st.name}', n)
                if kind == 'rewritten':
                    chk.bad(oid, 'R11', s, norm(n)[:120], f'{cname}.{f} carries this property\'s data from the producer to the consumer; {st.name} replaces it with a filtered / element-wise rewritten copy at construction, '
                            f'so what the consumer reads is not what the producer stored (entries dropped or changed on the way)')
                else:
                    chk.unsure(oid, 'R11', s, norm(n)[:120], f'{cname}.{f} is re-assigned in {st.name}; whether the stored value still equals what the producer passed is not decided')
        chk.ok(oid, 'R11', f'{repo.modules[CU].relpath}:{cls.lineno} {cname}', f'{cname}({", ".join(sorted(fields))})', f'{hooks} construction / access hook(s) inspected; no field is rewritten between producer and consumer')


# ---------------------------------------------------------------------------
# H4 the anchored function is the one the package calls
# ---------------------------------------------------------------------------

def check_redirection(repo, chk, pid):
    """The rules of a property read the anchored functions.  A module that binds an anchor's name to something else (an import under the old
    name, a module-level re-assignment) makes its callers run code the rules never looked at: reported inconclusive, naming the binding."""
    roots = ROOTS.get(pid)
    if not roots:
        return
    oid = f'{pid}.H4'
    names = {}
    for mn, qn in roots:
        if '.' not in qn:
            names.setdefault(qn, []).append(mn)
    n_sites = 0
    for mn, m in repo.modules.items():
        tree = raw_tree(m)
        for n in ast.walk(tree):
            if isinstance(n, ast.ImportFrom):
                for a in n.names:
                    bound = a.asname or a.name
                    if bound in names and a.name != bound:
                        n_sites += 1
                        chk.unsure(oid, 'R6', f'{m.relpath}:{n.lineno} <module>', f'from {n.module} import {a.name} as {bound}',
                                   f'callers of {bound} in {mn} run {a.name}: the anchored function {names[bound][0]}.{bound} that this property\'s rules analyse is not the code that is executed there')
        for st in tree.body:
            tg = []
            if isinstance(st, ast.Assign):
                tg = [t for t in st.targets if isinstance(t, ast.Name)]
            elif isinstance(st, ast.AnnAssign) and st.value is not None and isinstance(st.target, ast.Name):
                tg = [st.target]
            for t in tg:
                if t.id in names and (mn in names[t.id] or t.id in m.imports):
                    n_sites += 1
                    chk.unsure(oid, 'R6', f'{m.relpath}:{st.lineno} <module>', ast.unparse(st)[:100],
                               f'the name {t.id} is re-bound at module level: callers run the new binding, not (only) the anchored function that this property\'s rules analyse')
        # a second definition of the same top-level name in the anchor's module
        if any(mn == x for v in names.values() for x in v):
            defs = {}
            for st in tree.body:
                if isinstance(st, (ast.FunctionDef, ast.AsyncFunctionDef)) and st.name in names and mn in names[st.name]:
                    defs.setdefault(st.name, []).append(st)
            for k, v in defs.items():
                if len(v) > 1:
                    n_sites += 1
                    chk.unsure(oid, 'R6', f'{m.relpath}:{v[-1].lineno} <module>', f'def {k} (x{len(v)})', f'{k} is defined {len(v)} times in {mn}: the last definition is the one callers run')
    if not n_sites:
        chk.ok(oid, 'R6', 'outrank/', 'bindings of ' + ', '.join(sorted(names))[:120], 'no module binds an anchored function\'s name to anything else', inspected=len(names))


# ---------------------------------------------------------------------------
# H5 a single-use iterable is consumed once
# ---------------------------------------------------------------------------
CONSUMERS = {'set', 'list', 'tuple', 'sorted', 'sum', 'min', 'max', 'any', 'all', 'dict', 'frozenset', 'Counter', 'enumerate', 'zip', 'map', 'filter', 'reversed', 'iter', 'next',
             'np.array', 'np.fromiter', 'np.asarray', 'numpy.array', 'numpy.fromiter', 'collections.Counter', 'len_of_list'}
CONSUMING_METHODS = {'union', 'update', 'extend', 'join', 'intersection', 'difference', 'symmetric_difference', 'issubset', 'issuperset', 'intersection_update', 'difference_update', 'writelines', 'writerows'}
SINGLE_USE_CALLS = {'map', 'filter', 'zip', 'iter', 'reversed', 'enumerate', 'open', 'csv.reader', 'itertools.chain', 'itertools.islice', 'itertools.combinations', 'itertools.product',
                    'itertools.permutations', 'itertools.combinations_with_replacement', 'itertools.chain.from_iterable'}


def _terminates(body):
    return bool(body) and isinstance(body[-1], (ast.Return, ast.Raise, ast.Continue, ast.Break))


def double_consumption(fn, name, binding=None):
    """first statement on some path through `fn` that iterates the parameter `name` after an earlier statement already did; None when there is none"""
    hit = []

    def consumes(node):
        """consumption sites of `name` inside one simple statement / expression"""
        out = []
        for x in ast.walk(node):
            if isinstance(x, ast.comprehension) and isinstance(x.iter, ast.Name) and x.iter.id == name:
                out.append(x.iter)
            elif isinstance(x, ast.Call):
                f = x.func
                fname = ast.unparse(f) if isinstance(f, (ast.Name, ast.Attribute)) else ''
                args = [a for a in x.args if isinstance(a, ast.Name) and a.id == name] + [a.value for a in x.args if isinstance(a, ast.Starred) and isinstance(a.value, ast.Name) and a.value.id == name]
                if not args:
                    continue
                if fname in CONSUMERS or (isinstance(f, ast.Attribute) and f.attr in CONSUMING_METHODS):
                    out.append(args[0])
        return out

    def walk(body, consumed):
        for st in body:
            if isinstance(st, (ast.FunctionDef, ast.AsyncFunctionDef, ast.ClassDef)):
                continue
            if isinstance(st, ast.If):
                here = consumes(st.test)
                if here and consumed:
                    hit.append(here[0])
                c0 = consumed or bool(here)
                a = walk(st.body, c0)
                b = walk(st.orelse, c0)
                outs = ([a] if not _terminates(st.body) else []) + ([b] if not _terminates(st.orelse) else [])
                consumed = any(outs) if outs else c0
                continue
            if isinstance(st, (ast.For, ast.AsyncFor)):
                over = isinstance(st.iter, ast.Name) and st.iter.id == name
                here = ([st.iter] if over else []) + consumes(st.iter)
                if here and consumed:
                    hit.append(here[0])
                consumed = consumed or bool(here)
                inner = walk(st.body, consumed)
                if inner and not consumed and not over:
                    # consumed inside the body of a loop over something else: the second iteration consumes it again
                    walk(st.body, True)
                consumed = consumed or inner
                consumed = walk(st.orelse, consumed)
                continue
            if isinstance(st, ast.While):
                inner = walk(st.body, consumed)
                if inner and not consumed:
                    walk(st.body, True)
                consumed = consumed or inner
                continue
            if isinstance(st, (ast.With, ast.AsyncWith)):
                consumed = walk(st.body, consumed)
                continue
            if isinstance(st, ast.Try):
                consumed = walk(st.body, consumed)
                for h in st.handlers:
                    walk(h.body, consumed)
                consumed = walk(st.finalbody, walk(st.orelse, consumed))
                continue
            if st is binding:
                consumed = False         # the iterable is created here
                continue
            # re-binding the name materialises / replaces it: stop
            if isinstance(st, ast.Assign) and any(isinstance(t, ast.Name) and t.id == name for t in st.targets):
                here = consumes(st.value)
                if here and consumed:
                    hit.append(here[0])
                return False if not hit else consumed
            here = consumes(st)
            if here:
                if consumed or len(here) > 1:
                    hit.append(here[-1])
                consumed = True
        return consumed
    walk(fn.body, False)
    return hit[0] if hit else None


def _single_use(e, m, gens):
    if isinstance(e, ast.GeneratorExp):
        return 'a generator expression'
    if isinstance(e, ast.Call):
        d = m.dotted(e.func) or ast.unparse(e.func)
        if d in SINGLE_USE_CALLS:
            return f'the iterator returned by {d}(..)'
        if d in gens:
            return f'the generator {d.split(".")[-1]}(..)'
    return None


def check_single_use(repo, chk, pid):
    roots = ROOTS.get(pid)
    if not roots:
        return
    ix = index(repo)
    oid = f'{pid}.H5'
    mine = ix.closure(roots, False)
    # functions that iterate one of their parameters twice on some path
    twice = {}
    for key, fn in ix.funcs.items():
        for a in fn.args.posonlyargs + fn.args.args + fn.args.kwonlyargs:
            if a.arg in ('self', 'cls'):
                continue
            h = double_consumption(fn, a.arg)
            if h is not None:
                twice.setdefault(key, {})[a.arg] = h
    gens = {f'{k[0]}.{k[1]}' for k, fn in ix.funcs.items() if any(isinstance(x, (ast.Yield, ast.YieldFrom)) for x in ast.walk(fn))}
    n_sites = 0
    for key, params in twice.items():
        fn = ix.funcs[key]
        plist = [a.arg for a in fn.args.posonlyargs + fn.args.args]
        is_method = ix.cls_of.get(key) is not None and plist and plist[0] in ('self', 'cls')
        # call sites anywhere in the package
        for ckey, cfn in ix.funcs.items():
            if key not in mine and ckey not in mine:
                continue
            m = repo.modules[ckey[0]]
            for c in ast.walk(cfn):
                if not isinstance(c, ast.Call):
                    continue
                target = None
                f = c.func
                if isinstance(f, ast.Name):
                    r = ix._resolve_name(m, ckey[0], f.id)
                    target = key if r and key in r else None
                elif isinstance(f, ast.Attribute) and f.attr == key[1].split('.')[-1]:
                    if isinstance(f.value, ast.Name) and f.value.id in ('self', 'cls') and ix.cls_of.get(ckey) == ix.cls_of.get(key) and ckey[0] == key[0]:
                        target = key
                    else:
                        d = m.dotted(f)
                        r = ix._resolve_dotted(d) if d else None
                        if r and key in r:
                            target = key
                        elif is_method and _receiver_is(ix, repo, ckey, f.value, key):
                            target = key
                if target is None:
                    continue
                offset = 1 if is_method and not (isinstance(f, ast.Name)) else 0
                for pname, h in params.items():
                    try:
                        pos = plist.index(pname) - offset
                    except ValueError:
                        continue
                    argv = c.args[pos] if 0 <= pos < len(c.args) and not any(isinstance(a, ast.Starred) for a in c.args[:pos + 1]) else next((k.value for k in c.keywords if k.arg == pname), None)
                    if argv is None:
                        continue
                    n_sites += 1
                    su = _single_use(argv, m, gens)
                    if su:
                        chk.bad(oid, 'R19', site(repo, ckey[0], ckey[1], c), norm(c)[:120],
                                f'{key[1]} iterates its parameter {pname} more than once on some path (again at line {h.lineno}: {norm(h)[:40]}), and this call hands it {su}: '
                                'the first pass exhausts it, so the second pass sees nothing and the elements it was meant to process are silently dropped')
    # a LOCAL single-use iterable (a generator expression, map / filter / zip / iter(..)) that the function itself consumes twice on some path:
    # the second consumer sees nothing
    for key in sorted(mine):
        fn = ix.funcs[key]
        stores = {}
        for n_ in ast.walk(fn):
            if isinstance(n_, ast.Name) and isinstance(n_.ctx, ast.Store):
                stores[n_.id] = stores.get(n_.id, 0) + 1
        for n_ in ast.walk(fn):
            if isinstance(n_, ast.Assign) and len(n_.targets) == 1 and isinstance(n_.targets[0], ast.Name) and stores.get(n_.targets[0].id) == 1:
                v = n_.value
                single = isinstance(v, ast.GeneratorExp) or (isinstance(v, ast.Call) and isinstance(v.func, ast.Name) and v.func.id in ('map', 'filter', 'zip', 'iter', 'reversed', 'enumerate'))
                if not single:
                    continue
                h_ = double_consumption(fn, n_.targets[0].id, binding=n_)
                if h_ is not None:
                    n_sites += 1
                    chk.bad(oid, 'R19', site(repo, key[0], key[1], h_), f'{norm(n_)[:70]} ... {norm(h_)[:40]}', f'`{n_.targets[0].id}` is a single-use iterable (a generator / map / filter / zip object) and is consumed a second '
                            'time on this path: the second consumer finds it exhausted, so whatever it was to enumerate is silently empty')
    chk.ok(oid, 'R19', 'outrank/', 'single-use iterables handed to functions that iterate a parameter twice', f'{len(twice)} function(s) of the package iterate a parameter more than once on some path; '
           f'{n_sites} call site(s) on this property\'s path inspected, none passes a generator / iterator there', inspected=max(1, n_sites))


def _receiver_is(ix, repo, ckey, recv, key):
    """evidence that the receiver expression holds an instance of the class of `key`: the expression (or the table it is read from) is assigned a
    constructor call of that class somewhere in the calling module"""
    cls = ix.cls_of.get(key)
    if cls is None:
        return False
    base = recv
    while isinstance(base, (ast.Subscript,)):
        base = base.value
    if not isinstance(base, (ast.Name, ast.Attribute)):
        return False
    bsrc = ast.unparse(base)
    mod = repo.modules[ckey[0]]
    tree = raw_tree(mod)
    for n in ast.walk(tree):
        if isinstance(n, (ast.Assign, ast.AnnAssign)) and getattr(n, 'value', None) is not None:
            tgts = n.targets if isinstance(n, ast.Assign) else [n.target]
            for t in tgts:
                tb = t
                while isinstance(tb, ast.Subscript):
                    tb = tb.value
                if ast.unparse(tb) == bsrc and any(isinstance(x, ast.Call) and ((mod.dotted(x.func) or ast.unparse(x.func)).split('.')[-1] == cls) for x in ast.walk(n.value)):
                    return True
    return False


# ---------------------------------------------------------------------------
# H6 no in-place update through an alias of a shared column / cached array
# ---------------------------------------------------------------------------
ARRAY_HINTS = ('Series', 'ndarray', 'DataFrame', 'NDArray', 'ArrayLike')
INPLACE_PROPS = {'C10', 'C11'}


def _array_containers(fn):
    """names of `fn` whose elements are pandas / numpy objects: parameters annotated so, and locals built from columns of such a parameter"""
    a = fn.args
    out = {p.arg for p in a.posonlyargs + a.args + a.kwonlyargs if p.annotation is not None and any(h in ast.unparse(p.annotation) for h in ARRAY_HINTS)}
    changed = True
    while changed:
        changed = False
        for n in ast.walk(fn):
            if isinstance(n, ast.Assign) and len(n.targets) == 1 and isinstance(n.targets[0], ast.Name) and n.targets[0].id not in out:
                v = n.value
                if isinstance(v, (ast.Dict, ast.DictComp, ast.ListComp, ast.List)) and any(isinstance(x, ast.Subscript) and isinstance(x.value, ast.Name) and x.value.id in out for x in ast.walk(v)):
                    out.add(n.targets[0].id)
                    changed = True
    return out


def inplace_alias_updates(fn):
    """[(binding, augmented assignment, container)]:  x = C[k]  (no copy) ... x += v   with C holding pandas / numpy objects: `+=` on such an object
    works in place, so the element of C (a column of the frame, a cached encoding) is changed for everyone who reads it afterwards"""
    conts = _array_containers(fn)
    if not conts:
        return []
    order = {}

    def number(node):
        order[id(node)] = len(order)
        for c in ast.iter_child_nodes(node):
            number(c)
    number(fn)
    binds = {}
    for n in ast.walk(fn):
        if isinstance(n, ast.Assign) and len(n.targets) == 1 and isinstance(n.targets[0], ast.Name):
            binds.setdefault(n.targets[0].id, []).append(n)
    out = []
    for n in ast.walk(fn):
        if isinstance(n, ast.AugAssign) and isinstance(n.target, ast.Name):
            prev = [b for b in binds.get(n.target.id, []) if order[id(b)] < order[id(n)]]
            if not prev:
                continue
            b = max(prev, key=lambda x: order[id(x)])
            v = b.value
            if isinstance(v, ast.Subscript) and isinstance(v.value, ast.Name) and v.value.id in conts and isinstance(v.ctx, ast.Load):
                out.append((b, n, v.value.id))
    return out


def _array_attrs(ix, key):
    """attributes of the class of `key` that hold pandas / numpy objects: annotated so where they are bound (self.cache: dict[str, pd.Series] = {})"""
    cls = ix.cls_of.get(key)
    if cls is None:
        return set()
    out = set()
    for k, fn in ix.funcs.items():
        if k[0] == key[0] and ix.cls_of.get(k) == cls:
            for n in ast.walk(fn):
                if isinstance(n, ast.AnnAssign) and isinstance(n.target, ast.Attribute) and isinstance(n.target.value, ast.Name) and n.target.value.id == 'self' and any(h in ast.unparse(n.annotation) for h in ARRAY_HINTS):
                    out.add(n.target.attr)
    return out


def returns_shared(ix, key):
    """name of the container when the function can return an object that is also stored in a container of pandas / numpy objects (a cache hit, or
    the object it has just put into the cache) - without copying it"""
    fn = ix.funcs[key]
    attrs = _array_attrs(ix, key)
    conts = _array_containers(fn)

    def container_of(e):
        # C[k] / C.get(k) / self.attr[k] / self.attr.get(k)
        base = None
        if isinstance(e, ast.Subscript):
            base = e.value
        elif isinstance(e, ast.Call) and isinstance(e.func, ast.Attribute) and e.func.attr in ('get', 'setdefault') and e.args:
            base = e.func.value
        if isinstance(base, ast.Name) and base.id in conts:
            return base.id
        if isinstance(base, ast.Attribute) and isinstance(base.value, ast.Name) and base.value.id == 'self' and base.attr in attrs:
            return f'self.{base.attr}'
        return None
    shared = {}
    for n in ast.walk(fn):
        if isinstance(n, ast.Assign) and len(n.targets) == 1:
            t, v = n.targets[0], n.value
            if isinstance(t, ast.Name) and container_of(v):
                shared[t.id] = container_of(v)
            if isinstance(t, ast.Subscript) and isinstance(v, ast.Name):
                c = container_of(ast.Subscript(value=t.value, slice=t.slice, ctx=ast.Load()))
                if c:
                    shared[v.id] = c
    for r in ast.walk(fn):
        if isinstance(r, ast.Return) and r.value is not None:
            if container_of(r.value):
                return container_of(r.value)
            if isinstance(r.value, ast.Name) and r.value.id in shared:
                return shared[r.value.id]
    return None


def inplace_updates_of_shared_results(ix, repo, key):
    """x = f(..) where f can return a shared (cached) pandas / numpy object, then `x += ..`"""
    fn = ix.funcs[key]
    m = repo.modules[key[0]]
    order = {}

    def number(node):
        order[id(node)] = len(order)
        for c in ast.iter_child_nodes(node):
            number(c)
    number(fn)
    binds = {}
    for n in ast.walk(fn):
        if isinstance(n, ast.Assign) and len(n.targets) == 1 and isinstance(n.targets[0], ast.Name):
            binds.setdefault(n.targets[0].id, []).append(n)
    out = []
    for n in ast.walk(fn):
        if isinstance(n, ast.AugAssign) and isinstance(n.target, ast.Name):
            prev = [b for b in binds.get(n.target.id, []) if order[id(b)] < order[id(n)]]
            if not prev:
                continue
            b = max(prev, key=lambda x: order[id(x)])
            v = b.value
            if not isinstance(v, ast.Call):
                continue
            callee = None
            f = v.func
            if isinstance(f, ast.Attribute) and isinstance(f.value, ast.Name) and f.value.id in ('self', 'cls') and ix.cls_of.get(key) is not None:
                callee = (key[0], f'{ix.cls_of[key]}.{f.attr}')
            elif isinstance(f, ast.Name):
                r = ix._resolve_name(m, key[0], f.id)
                callee = next(iter(r)) if r and len(r) == 1 else None
            if callee in ix.funcs:
                c = returns_shared(ix, callee)
                if c:
                    out.append((b, n, c, callee[1]))
    return out


def check_inplace(repo, chk, pid):
    if pid not in INPLACE_PROPS:
        return
    roots = ROOTS.get(pid)
    ix = index(repo)
    oid = f'{pid}.H6'
    funcs = ix.closure(roots, False)
    n = 0
    for key in sorted(funcs):
        fn = ix.funcs[key]
        for b, aug, cont in inplace_alias_updates(fn):
            chk.bad(oid, 'R11', site(repo, key[0], key[1], aug), f'{norm(b)[:60]} ... {norm(aug)[:60]}',
                    f'`{aug.target.id}` is the very object stored in `{cont}` (bound without a copy) and `{norm(aug)[:40]}` updates a pandas / numpy object in place: the element of `{cont}` itself changes, '
                    'so every later reader of it (the next combination that shares the constituent, the caller\'s frame) sees the modified values')
        for b, aug, cont, callee in inplace_updates_of_shared_results(ix, repo, key):
            chk.bad(oid, 'R11', site(repo, key[0], key[1], aug), f'{norm(b)[:60]} ... {norm(aug)[:60]}',
                    f'`{aug.target.id}` is what {callee} returned, and {callee} hands out the object it keeps in `{cont}` (a cache hit, or the object it has just cached) without copying it; `{norm(aug)[:40]}` updates a pandas / numpy '
                    'object in place, so the cached entry itself changes and every later use of it (the next combination that shares the constituent) sees the modified values')
        n += 1
    chk.ok(oid, 'R11', 'outrank/', 'in-place updates through an alias of a column / cached array', f'{n} function(s) on this property\'s path: no `x = C[k]; x += ..` on pandas / numpy elements', inspected=n)


# ---------------------------------------------------------------------------
# H7 no mutable class attribute used as per-instance state
# ---------------------------------------------------------------------------

def shared_class_state(ix, mn, cname):
    """[(attribute, class-level binding, mutating node, method)] - a list / dict / set bound in the CLASS body, mutated through `self.<attr>` by a
    method, and never re-bound per instance in __init__: one object shared by all instances (and all calls that create one)"""
    cls = ix.classes.get((mn, cname))
    if cls is None:
        return []
    bound = {}
    for st in cls.body:
        t, v = None, None
        if isinstance(st, ast.Assign) and len(st.targets) == 1 and isinstance(st.targets[0], ast.Name):
            t, v = st.targets[0].id, st.value
        elif isinstance(st, ast.AnnAssign) and isinstance(st.target, ast.Name) and st.value is not None:
            t, v = st.target.id, st.value
        if t and (isinstance(v, (ast.List, ast.Dict, ast.Set)) or (isinstance(v, ast.Call) and isinstance(v.func, ast.Name) and v.func.id in ('list', 'dict', 'set', 'defaultdict', 'Counter', 'deque') and not v.args)):
            bound[t] = st
    if not bound:
        return []
    init = ix.funcs.get((mn, f'{cname}.__init__'))
    rebound = set()
    for holder in ([init] if init is not None else []) + [ix.funcs[k] for k in ix.funcs if k[0] == mn and k[1] == f'{cname}.__post_init__']:
        for n in ast.walk(holder):
            if isinstance(n, (ast.Assign, ast.AnnAssign)):
                for t in (n.targets if isinstance(n, ast.Assign) else [n.target]):
                    if isinstance(t, ast.Attribute) and isinstance(t.value, ast.Name) and t.value.id == 'self':
                        rebound.add(t.attr)
    out = []
    for k, fn in ix.funcs.items():
        if k[0] != mn or ix.cls_of.get(k) != cname:
            continue
        for n in ast.walk(fn):
            attr = None
            if isinstance(n, ast.Call) and isinstance(n.func, ast.Attribute) and n.func.attr in MUTATORS and isinstance(n.func.value, ast.Attribute) and isinstance(n.func.value.value, ast.Name) and n.func.value.value.id == 'self':
                attr = n.func.value.attr
            elif isinstance(n, (ast.Assign, ast.AugAssign)):
                for t in (n.targets if isinstance(n, ast.Assign) else [n.target]):
                    if isinstance(t, ast.Subscript) and isinstance(t.value, ast.Attribute) and isinstance(t.value.value, ast.Name) and t.value.value.id == 'self':
                        attr = t.value.attr
                    elif isinstance(n, ast.AugAssign) and isinstance(t, ast.Attribute) and isinstance(t.value, ast.Name) and t.value.id == 'self':
                        attr = t.attr
            if attr in bound and attr not in rebound:
                out.append((attr, bound[attr], n, k[1]))
    return out


def check_class_state(repo, chk, pid):
    roots = ROOTS.get(pid)
    if not roots:
        return
    ix = index(repo)
    oid = f'{pid}.H7'
    funcs = ix.closure(roots, pid in DEEP)
    classes = sorted({(k[0], ix.cls_of[k]) for k in funcs if ix.cls_of.get(k)})
    # classes instantiated by the functions on the path
    for k in list(funcs):
        m = repo.modules[k[0]]
        for n in ast.walk(ix.funcs[k]):
            if isinstance(n, ast.Call) and isinstance(n.func, ast.Name):
                if (k[0], n.func.id) in ix.classes:
                    classes.append((k[0], n.func.id))
                else:
                    d = m.imports.get(n.func.id, '')
                    if d.startswith(PKG + '.'):
                        mm, _, cn = d.rpartition('.')
                        if (mm, cn) in ix.classes:
                            classes.append((mm, cn))
    seen = set()
    for mn, cname in classes:
        if (mn, cname) in seen:
            continue
        seen.add((mn, cname))
        for attr, binding, node, meth in shared_class_state(ix, mn, cname)[:1]:
            chk.bad(oid, 'R19', site(repo, mn, meth, node), f'{cname}.{attr} = {norm(binding.value)} (class body) ... {norm(node)[:60]}',
                    f'`{attr}` is bound once, in the class body, to a mutable object and {meth.split(".")[-1]} changes it through `self.{attr}` without __init__ ever giving the instance an object of its own: '
                    'all instances share it, so a second call (a second batch, a second ranking) continues from what the first one left in it')
    chk.ok(oid, 'R19', 'outrank/', 'mutable class attributes used as per-instance state', f'{len(seen)} class(es) on this property\'s path inspected', inspected=max(1, len(seen)))


# ---------------------------------------------------------------------------
# H8 - a memo must be keyed by everything its values depend on
# ---------------------------------------------------------------------------

def _bases(fn, expr, stop_names=frozenset(), limit=400):
    """Names `expr` is computed from, followed backwards through every binding of a local in the function (flow-insensitive): returns the set of all
    names met on the way (locals, loop targets, parameters)."""
    binds = {}
    for n in ast.walk(fn):
        if isinstance(n, (ast.Assign, ast.AnnAssign, ast.AugAssign)) and getattr(n, 'value', None) is not None:
            tg = n.targets if isinstance(n, ast.Assign) else [n.target]
            for t in tg:
                for x in ast.walk(t):
                    if isinstance(x, ast.Name) and isinstance(x.ctx, ast.Store):
                        binds.setdefault(x.id, []).append(n.value)
            # X[k] = v / X.attr = v : the container depends on what is stored into it
            for t in tg:
                if isinstance(t, (ast.Subscript, ast.Attribute)):
                    base = t
                    while isinstance(base, (ast.Subscript, ast.Attribute)):
                        base = base.value
                    if isinstance(base, ast.Name):
                        binds.setdefault(base.id, []).append(n.value)
                        if isinstance(t, ast.Subscript):
                            binds[base.id].append(t.slice)
        elif isinstance(n, ast.Call) and isinstance(n.func, ast.Attribute) and n.func.attr in MUTATORS and isinstance(n.func.value, ast.Name):
            for a in list(n.args) + [k.value for k in n.keywords]:
                binds.setdefault(n.func.value.id, []).append(a)
        elif isinstance(n, (ast.For, ast.comprehension)):
            for x in ast.walk(n.target):
                if isinstance(x, ast.Name):
                    binds.setdefault(x.id, []).append(n.iter)
        elif isinstance(n, ast.withitem) and n.optional_vars is not None:
            for x in ast.walk(n.optional_vars):
                if isinstance(x, ast.Name):
                    binds.setdefault(x.id, []).append(n.context_expr)
    seen, todo = set(), [x.id for x in ast.walk(expr) if isinstance(x, ast.Name)]
    while todo and len(seen) < limit:
        nm = todo.pop()
        if nm in seen or nm in stop_names:
            continue
        seen.add(nm)
        for v in binds.get(nm, ()):
            todo += [x.id for x in ast.walk(v) if isinstance(x, ast.Name)]
    return seen


def coarse_memos(fn):
    """Memo tables filled in `fn` whose key leaves out something the cached value is computed from.
       pattern:  D[K] = V  /  D.setdefault(K, V)   guarded by a look-up of K in D  (K not in D, D.get(K) is None, try: D[K] except KeyError), with D read by key.
       (a) D is created in fn outside a loop L that encloses the fill: the value depends on the loop variable of L, the key does not - the entry of an earlier
           iteration is handed out for a later one;
       (b) D lives outside fn (a closure cell, a module-level name, an attribute of self): the value depends on a parameter of fn, the key does not.
    Returns [(table text, fill node, name left out, 'loop' | 'parameter')]."""
    par = {}
    for p in ast.walk(fn):
        for c in ast.iter_child_nodes(p):
            par[c] = p
    own = [n for n in ast.walk(fn)]
    inner = {id(y) for x in own if isinstance(x, (ast.FunctionDef, ast.AsyncFunctionDef, ast.Lambda)) and x is not fn for y in ast.walk(x) if y is not x}
    params = [a.arg for a in fn.args.posonlyargs + fn.args.args + fn.args.kwonlyargs if a.arg not in ('self', 'cls')]
    out = []
    fills = []
    for n in own:
        if id(n) in inner:
            continue
        if isinstance(n, ast.Assign) and len(n.targets) == 1 and isinstance(n.targets[0], ast.Subscript) and not isinstance(n.targets[0].slice, ast.Slice):
            fills.append((n, n.targets[0].value, n.targets[0].slice, n.value))
        elif isinstance(n, ast.Call) and isinstance(n.func, ast.Attribute) and n.func.attr == 'setdefault' and len(n.args) == 2:
            fills.append((n, n.func.value, n.args[0], n.args[1]))
    for node, table, key, value in fills:
        ttxt = ast.unparse(table)
        if not isinstance(table, (ast.Name, ast.Attribute)):
            continue
        # the memo pattern: the fill is guarded by a look-up of the same table
        guarded = False
        cur, child = par.get(node), node
        while cur is not None and cur is not fn:
            if isinstance(cur, ast.If) and ttxt in ast.unparse(cur.test):
                guarded = True
            if isinstance(cur, ast.If):
                # `hit = D.get(K)` ... `if hit is None:`
                for x in ast.walk(cur.test):
                    if isinstance(x, ast.Name):
                        for a in own:
                            if isinstance(a, ast.Assign) and len(a.targets) == 1 and isinstance(a.targets[0], ast.Name) and a.targets[0].id == x.id and isinstance(a.value, ast.Call) and \
                                    isinstance(a.value.func, ast.Attribute) and a.value.func.attr == 'get' and ast.unparse(a.value.func.value) == ttxt:
                                guarded = True
            if isinstance(cur, ast.ExceptHandler) and cur.type is not None and 'KeyError' in ast.unparse(cur.type):
                guarded = True
            child, cur = cur, par.get(cur)
        if isinstance(node, ast.Call):
            guarded = True        # setdefault is its own look-up
        if not guarded:
            continue
        reads = [x for x in own if (isinstance(x, ast.Subscript) and isinstance(x.ctx, ast.Load) and ast.unparse(x.value) == ttxt) or
                 (isinstance(x, ast.Call) and isinstance(x.func, ast.Attribute) and x.func.attr in ('get', 'setdefault') and ast.unparse(x.func.value) == ttxt)]
        if not reads:
            continue
        kb = _bases(fn, key)
        vb = _bases(fn, value)
        if isinstance(table, ast.Name):
            creations = [a for a in own if id(a) not in inner and isinstance(a, (ast.Assign, ast.AnnAssign)) and a.value is not None and
                         any(isinstance(t, ast.Name) and t.id == table.id for t in (a.targets if isinstance(a, ast.Assign) else [a.target]))]
        else:
            creations = []
        local = bool(creations)
        if local:
            if len(creations) != 1:
                continue
            c0 = creations[0]
            if not (isinstance(c0.value, ast.Dict) and not c0.value.keys) and not (isinstance(c0.value, ast.Call) and ast.unparse(c0.value.func) in ('dict', 'defaultdict', 'collections.defaultdict', 'OrderedDict') and not c0.value.args):
                continue
            # loops that enclose the fill but not the creation
            encl = []
            cur = par.get(node)
            while cur is not None and cur is not fn:
                if isinstance(cur, (ast.For, ast.While)):
                    encl.append(cur)
                cur = par.get(cur)
            c_encl = set()
            cur = par.get(c0)
            while cur is not None and cur is not fn:
                c_encl.add(id(cur))
                cur = par.get(cur)
            for lp in encl:
                if id(lp) in c_encl or not isinstance(lp, ast.For):
                    continue
                tnames = {x.id for x in ast.walk(lp.target) if isinstance(x, ast.Name)}
                missing = sorted((vb & tnames) - kb)
                # what the key is computed from may itself determine the loop variable only through the loop: the key must mention it (or something bound from it)
                if missing:
                    out.append((ttxt, node, missing[0], 'loop', lp))
                    break
        elif table.id not in params if isinstance(table, ast.Name) else (isinstance(table.value, ast.Name) and table.value.id in ('self', 'cls')):
            missing = sorted((vb & set(params)) - kb)
            # a state holder created on first use (a counter / sketch / empty container per key, configured by a parameter) is not a memo of a computed value
            def _holder(v):
                return (isinstance(v, ast.Call) and (ast.unparse(v.func).split('.')[-1][:1].isupper() or ast.unparse(v.func) in MUTABLE_CTORS)) or \
                       (isinstance(v, (ast.Dict, ast.List, ast.Set)) and not ast.dump(v).count('Name('))
            vals = [value]
            if isinstance(value, ast.Name):
                vals = [a.value for a in own if isinstance(a, ast.Assign) and any(isinstance(t, ast.Name) and t.id == value.id for t in a.targets)] or [value]
            holder = any(_holder(v) for v in vals)
            if missing and (kb & set(params)) and not holder:
                out.append((ttxt, node, missing[0], 'parameter', None))
    return out


def check_memos(repo, chk, pid):
    roots = ROOTS.get(pid)
    if not roots:
        return
    ix = index(repo)
    oid = f'{pid}.H8'
    funcs = ix.closure(roots, False)          # the functions the property is anchored in and their helpers, not everything a batch runs through
    n = 0
    for k in sorted(funcs):
        fn = ix.funcs[k]
        cands = [fn] + [x for x in ast.walk(fn) if isinstance(x, (ast.FunctionDef, ast.AsyncFunctionDef)) and x is not fn]
        for g in cands:
            n += 1
            for ttxt, node, name, kind, lp in coarse_memos(g)[:1]:
                if kind == 'loop':
                    why = (f'the memo `{ttxt}` is created outside the loop `for {norm(lp.target)} in {norm(lp.iter)[:40]}` and filled inside it; the cached value depends on the loop variable `{name}`, '
                           f'the key does not: from the second iteration on the entries of an earlier `{name}` are handed out (the memo must be created inside that loop, or `{name}` must be part of the key)')
                else:
                    why = (f'the cached value depends on the parameter `{name}`, which is not part of the key of `{ttxt}`: a later call with another `{name}` and the same key receives the entry computed for the earlier one')
                chk.bad(oid, 'R19', site(repo, k[0], k[1], node), norm(node)[:120], why)
    chk.ok(oid, 'R19', 'outrank/', 'memo tables', f'{n} function(s) on this property\'s path inspected: every memo is keyed by what its values are computed from', inspected=max(1, n))


# ---------------------------------------------------------------------------
# H9 - what an lru_cache'd function returns is the cached object itself
# ---------------------------------------------------------------------------

def _is_cached(fn):
    for d in fn.decorator_list:
        t = ast.unparse(d.func if isinstance(d, ast.Call) else d)
        if t.split('.')[-1] in ('lru_cache', 'cache', 'cached', 'memoize'):
            return True
    return False


def mutated_cache_results(ix, repo, key):
    """x = f(..) with f decorated by functools.lru_cache / cache (no copy in between), then x is changed in place"""
    fn = ix.funcs[key]
    m = repo.modules[key[0]]
    out = []
    for n in ast.walk(fn):
        if not (isinstance(n, ast.Assign) and len(n.targets) == 1 and isinstance(n.targets[0], ast.Name) and isinstance(n.value, ast.Call)):
            continue
        f = n.value.func
        callee = None
        if isinstance(f, ast.Name):
            r = ix._resolve_name(m, key[0], f.id)
            callee = next(iter(r)) if r and len(r) == 1 else None
        elif isinstance(f, ast.Attribute) and isinstance(f.value, ast.Name) and f.value.id in ('self', 'cls') and ix.cls_of.get(key) is not None:
            callee = (key[0], f'{ix.cls_of[key]}.{f.attr}')
        if callee not in ix.funcs or not _is_cached(ix.funcs[callee]):
            continue
        x = n.targets[0].id
        rebinds = [a for a in ast.walk(fn) if isinstance(a, ast.Assign) and a is not n and any(isinstance(t, ast.Name) and t.id == x for t in a.targets)]
        if rebinds:
            continue
        for u in ast.walk(fn):
            hit = None
            if isinstance(u, ast.Call) and isinstance(u.func, ast.Attribute) and u.func.attr in MUTATORS and isinstance(u.func.value, ast.Name) and u.func.value.id == x:
                hit = u
            elif isinstance(u, ast.AugAssign) and isinstance(u.target, ast.Name) and u.target.id == x and not getattr(u, 'from_plain', False):
                hit = u
            elif isinstance(u, (ast.Assign, ast.AugAssign, ast.Delete)):
                tg = u.targets if isinstance(u, (ast.Assign, ast.Delete)) else [u.target]
                if any(isinstance(t, ast.Subscript) and isinstance(t.value, ast.Name) and t.value.id == x for t in tg):
                    hit = u
            if hit is not None and getattr(hit, 'lineno', 0) >= n.lineno:
                out.append((n, hit, callee[1]))
                break
    return out


def check_cache_results(repo, chk, pid):
    roots = ROOTS.get(pid)
    if not roots:
        return
    ix = index(repo)
    oid = f'{pid}.H9'
    funcs = ix.closure(roots, False)
    n_cached = sum(1 for k in ix.funcs if _is_cached(ix.funcs[k]))
    for key in sorted(funcs):
        for b, hit, callee in mutated_cache_results(ix, repo, key)[:1]:
            chk.bad(oid, 'R11', site(repo, key[0], key[1], hit), f'{norm(b)[:70]} ... {norm(hit)[:60]}',
                    f'`{b.targets[0].id}` is the object {callee} keeps in its cache (lru_cache hands out the cached object itself, not a copy) and `{norm(hit)[:50]}` changes it in place: '
                    'the next call with the same arguments - the next batch - receives the modified object')
    chk.ok(oid, 'R11', 'outrank/', 'results of cached functions', f'{len(funcs)} function(s) on this property\'s path, {n_cached} cached function(s) in the package: no cached result is changed in place', inspected=max(1, len(funcs)))


# ---------------------------------------------------------------------------
# H10 - an accumulator that is read after a loop is not re-created inside it
# ---------------------------------------------------------------------------

def reset_accumulators(fn):
    """Containers bound ONLY inside a loop body (to a fresh empty container, at the top level of that body), filled inside the loop and read after
    it: each iteration starts from an empty container, so what is read after the loop holds the last iteration only.
    Returns [(name, binding, loop, first read after the loop)]."""
    par = {}
    for p in ast.walk(fn):
        for c in ast.iter_child_nodes(p):
            par[c] = p
    own = [n for n in ast.walk(fn)]
    inner = {id(y) for x in own if isinstance(x, (ast.FunctionDef, ast.AsyncFunctionDef, ast.Lambda)) and x is not fn for y in ast.walk(x) if y is not x}
    params = {a.arg for a in fn.args.posonlyargs + fn.args.args + fn.args.kwonlyargs}
    out = []
    binds = {}
    for n in own:
        if id(n) in inner:
            continue
        if isinstance(n, ast.Name) and isinstance(n.ctx, (ast.Store, ast.Del)):
            binds.setdefault(n.id, []).append(n)
    for lp in own:
        if not isinstance(lp, ast.For) or id(lp) in inner:
            continue
        for st in lp.body:
            if not (isinstance(st, (ast.Assign, ast.AnnAssign)) and st.value is not None):
                continue
            tg = st.targets[0] if isinstance(st, ast.Assign) and len(st.targets) == 1 else getattr(st, 'target', None)
            if not isinstance(tg, ast.Name) or tg.id in params or len(binds.get(tg.id, [])) != 1:
                continue
            v = st.value
            empty = (isinstance(v, (ast.Dict, ast.List, ast.Set)) and not (getattr(v, 'keys', None) or getattr(v, 'elts', None))) or \
                    (isinstance(v, ast.Call) and not v.args and not v.keywords and ast.unparse(v.func) in ('dict', 'list', 'set', 'defaultdict', 'OrderedDict', 'Counter', 'collections.OrderedDict', 'collections.Counter')) or \
                    (isinstance(v, ast.Call) and ast.unparse(v.func) in ('defaultdict', 'collections.defaultdict') and len(v.args) == 1 and not v.keywords)
            if not empty:
                continue
            D = tg.id
            end = getattr(lp, 'end_lineno', lp.lineno)
            inside = [x for x in ast.walk(lp) if isinstance(x, ast.Name) and x.id == D and x is not tg]
            filled = any((isinstance(par.get(x), ast.Subscript) and isinstance(par[x].ctx, ast.Store) and par[x].value is x) or
                         (isinstance(par.get(x), ast.Attribute) and par[x].attr in MUTATORS and isinstance(par.get(par[x]), ast.Call) and par[par[x]].func is par[x]) for x in inside)
            # handed on inside the loop (appended to an outer list, passed to a call, yielded, returned): a per-iteration object that is consumed there
            consumed = any((isinstance(par.get(x), ast.Call) and x in par[x].args) or isinstance(par.get(x), (ast.Return, ast.Yield, ast.keyword, ast.Tuple, ast.List, ast.Dict)) or
                           (isinstance(par.get(x), ast.Assign) and par[x].value is x) for x in inside if isinstance(x.ctx, ast.Load))
            after = [x for x in own if isinstance(x, ast.Name) and x.id == D and isinstance(x.ctx, ast.Load) and id(x) not in inner and x.lineno > end and not any(x is y for y in ast.walk(lp))]
            # the loop is itself inside another loop that encloses the read: then "after" is still per outer iteration - fine, same reasoning applies
            if filled and not consumed and after:
                out.append((D, st, lp, after[0]))
    return out


def check_accumulators(repo, chk, pid):
    roots = ROOTS.get(pid)
    if not roots:
        return
    ix = index(repo)
    oid = f'{pid}.H10'
    funcs = ix.closure(roots, False)
    for key in sorted(funcs):
        for D, st, lp, rd in reset_accumulators(ix.funcs[key])[:1]:
            chk.bad(oid, 'R13', site(repo, key[0], key[1], st), f'for {norm(lp.target)} in {norm(lp.iter)[:40]}: {norm(st)[:40]} ... (after the loop) {D}',
                    f'`{D}` is created inside the loop `for {norm(lp.target)} in ...`, filled there and read after the loop: every iteration starts from an empty container, so what is read after the loop holds '
                    'the entries of the LAST iteration only - the entries of all earlier iterations are lost')
    chk.ok(oid, 'R13', 'outrank/', 'accumulators read after a loop', f'{len(funcs)} function(s) on this property\'s path: none re-creates inside a loop a container it reads after the loop', inspected=max(1, len(funcs)))


# ---------------------------------------------------------------------------
# H11 - dict.fromkeys(keys, <mutable>) gives every key the SAME object
# ---------------------------------------------------------------------------

def check_fromkeys(repo, chk, pid):
    roots = ROOTS.get(pid)
    if not roots:
        return
    ix = index(repo)
    oid = f'{pid}.H11'
    funcs = set(ix.closure(roots, False))
    # the constructors of the classes these functions belong to build the state they work on
    for k in list(funcs):
        c = ix.cls_of.get(k)
        if c and (k[0], f'{c}.__init__') in ix.funcs:
            funcs.add((k[0], f'{c}.__init__'))
    for key in sorted(funcs):
        for n in ast.walk(ix.funcs[key]):
            if isinstance(n, ast.Call) and isinstance(n.func, ast.Attribute) and n.func.attr == 'fromkeys' and isinstance(n.func.value, ast.Name) and n.func.value.id in ('dict', 'OrderedDict', 'defaultdict') and len(n.args) == 2:
                v = n.args[1]
                mutable = isinstance(v, (ast.List, ast.Dict, ast.Set)) or (isinstance(v, ast.Call) and ast.unparse(v.func) in MUTABLE_CTORS)
                if mutable:
                    chk.bad(oid, 'R11', site(repo, key[0], key[1], n), norm(n)[:100], 'dict.fromkeys(keys, <mutable object>) binds every key to the SAME object: what is appended under one key shows up under all of them '
                            '(here: the sections of the self-description share one list)')
                    return
    chk.ok(oid, 'R11', 'outrank/', 'dict.fromkeys with a mutable default', f'{len(funcs)} function(s) inspected: none shares one mutable object between keys', inspected=max(1, len(funcs)))


def run(repo, chk, pid):
    check_fromkeys(repo, chk, pid)
    check_accumulators(repo, chk, pid)
    check_cache_results(repo, chk, pid)
    check_memos(repo, chk, pid)
    check_class_state(repo, chk, pid)
    check_inplace(repo, chk, pid)
    check_single_use(repo, chk, pid)
    check_config(repo, chk, pid)
    check_defaults(repo, chk, pid)
    check_records(repo, chk, pid)
    check_redirection(repo, chk, pid)
