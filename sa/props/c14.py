"""C14 - cardinality sketch: exact while warm, within 2 % beyond, duplicate-blind.

Decided (DESIGN.md §5 C14):
 1 folded constants: warm-up capacity 2**18, m = 2**p registers (power of two), 32-bit hash, rho >= 1
 2 typestate of add() over {EXACT(<cap), EXACT(=cap), SKETCH} x {value in set, not in set}:
   abstract interpretation of the method body in each abstract pre-state and comparison
   of the effects with the allowed ones
 3 register update: index x & (m-1), rank width - bit_length(x >> p), update by max, fresh hasher per value
 4 __len__: len(set) iff not converted; else linear counting m*ln(m/#zero registers)
 5 derived error bound of linear counting at 2**21 distinct values with the folded m
"""
from __future__ import annotations

import ast
import math

from ..match import calls, expected_term, fold_with, init_constants, returns, term_of
from ..model import Inconclusive, own_nodes, parents
from ..terms import Scope, show, walk_term

EXPLANATION = ('Constant folding of the sketch parameters (R8), typestate analysis of HyperLogLogWCache.add by abstract interpretation of its body in the five abstract '
               'pre-states (R18), canonical-term equality of the register update and of the linear-counting estimator (R15), interval argument for index range and rank >= 1, '
               'and the textbook standard error of linear counting evaluated with the folded register count. Decides the mechanism, not measured accuracy on a stream.')
TRUSTED_BASE = ['xxhash.xxh32(...).intdigest() is a 32-bit unsigned integer determined by seed and bytes',
                'standard error of linear counting with m registers at load t = n/m: sqrt(m (e^t - t - 1)) / n (Whang et al. 1990)']
ASSUMPTIONS = ['32-bit hash collisions among up to 2^21 values cost about n/2^33 = 0.02 % (stated, not computed)']

MOD = 'outrank.algorithms.sketches.counting_ultiloglog'
CLS = 'HyperLogLogWCache'


def run(repo, chk, tier):
    init = repo.func(MOD, f'{CLS}.__init__')
    add = repo.func(MOD, f'{CLS}.add')
    ln = repo.func(MOD, f'{CLS}.__len__')
    # the register-update method: by name, else by what it does (the method that stores into self.M[...])
    m = repo.mod(MOD)
    upd = m.funcs.get(f'{CLS}._hasher_update')
    if upd is None:
        cands = [f for q, f in m.funcs.items() if q.startswith(CLS + '.') and f.name not in ('__init__', 'add', '__len__') and any(isinstance(n, ast.Assign) and isinstance(n.targets[0], ast.Subscript) and _is_self_attr(n.targets[0].value, 'M') for n in own_nodes(f.node))]
        if len(cands) != 1:
            from ..model import AnalysisError
            raise AnalysisError(f'anchor: the register-update method of {CLS} (name _hasher_update, or the one method that stores into self.M[...]) was not found')
        upd = cands[0]
    consts = init_constants(init)
    constants(chk, init, consts)
    typestate(chk, add, consts, upd)
    register_update(chk, upd, consts)
    estimator(chk, ln, consts)
    maintained_zero_count(chk, m, ln)


# -- 1 / 5 constants ---------------------------------------------------------
def constants(chk, init, c):
    need = ['p', 'm', 'warmup_size', 'width']
    missing = [k for k in need if k not in c]
    if missing:
        # found and wrong: the number of index bits is computed from a constructor argument - the warm-up capacity (exactness up to 2**18) and the
        # register count then vary with the caller
        from .common import param_deps
        ip = [q for q in init.params if q != 'self']
        for n_ in own_nodes(init.node):
            if isinstance(n_, ast.Assign) and any(_is_self_attr(t_, 'p') for t_ in n_.targets):
                dep = param_deps(init, n_.value) & set(ip)
                if dep:
                    chk.bad('C14.1', 'R8', init.site(n_), ast.unparse(n_)[:100], f'the number of index bits self.p is computed from the constructor argument `{sorted(dep)[0]}` instead of being 19: the warm-up capacity '
                            '2**(p-1) (the range in which the count is exact) and the number of registers depend on the caller - with the default error rate the count is exact only up to 2**15, not 2**18')
                    return
        chk.unsure('C14.1', 'R8', init.site(), str(missing), 'sketch parameters are not foldable constants of __init__')
        return
    chk.expect(c['warmup_size'] == 2 ** 18, 'C14.1a', 'R8', init.site(), f'warmup_size = {c["warmup_size"]}', 'warm-up capacity folds to 2**18',
               f'the exact range must be 2**18 = 262144 distinct values; the constructor folds to {c["warmup_size"]}')
    m = c['m']
    chk.expect(isinstance(m, int) and m > 0 and m & (m - 1) == 0 and m == 1 << c['p'], 'C14.1b', 'R8', init.site(), f'm = {m}, p = {c["p"]}', 'm = 2**p registers (mask x & (m-1) is a proper bucket index)',
               'the register count must be the power of two 1 << p, otherwise x & (m-1) does not address all registers uniformly')
    # rank: width - bit_length(x >> p) with x < 2**32
    rho_min = c['width'] - max(32 - c['p'], 0)
    chk.expect(rho_min >= 1, 'C14.1c', 'intervals', init.site(), f'width = {c["width"]}, p = {c["p"]} -> rho in [{rho_min}, {c["width"]}]', 'a touched register is always >= 1, so it never looks empty again',
               'rho can be 0 or negative: a touched register can still count as empty, so re-adding values changes the estimate')
    # 5: standard error of linear counting at n = 2**21
    n = 2 ** 21
    t = n / m
    try:
        se = math.sqrt(m * (math.exp(t) - t - 1)) / n
        p_empty = math.exp(-t) * m   # expected number of empty registers
    except OverflowError:
        se, p_empty = float('inf'), 0.0
    ok = 5 * se < 0.02 and p_empty > 100
    chk.expect(ok, 'C14.5', 'R8', init.site(), f'm = {m}: load {t:g}, standard error {se:.4%} at 2**21 distinct values, expected empty registers {p_empty:.0f}',
               '2 % is more than 5 standard errors of linear counting with this register count',
               'with this register count the linear-counting estimate at 2**21 distinct values is not within 2 % (5 sigma) of the truth')
    if 'hll_flag' in c:
        chk.expect(c['hll_flag'] is False, 'C14.1d', 'R8', init.site(), f'hll_flag = {c["hll_flag"]}', 'a new sketch starts in the exact phase', 'a new sketch must start in the exact phase')


# -- 2 typestate -----------------------------------------------------------------
class St:
    def __init__(self, flag, size, member):
        self.flag, self.size, self.member = flag, size, member   # size: 'lt' (n <= cap-2) | 'cm1' (n == cap-1) | 'eq' (n == cap) | '?' ; member: True/False
        self.delta = 0          # values added to the warm-up set by this call so far (the size tests see n + delta)
        self.effects = []
        self.set_is_dict = flag
        self.returned = False

    def __repr__(self):
        sz = {'lt': 'size<cap', 'cm1': 'size=cap-1', 'eq': 'size=cap'}.get(self.size, 'size?')
        return f'{"SKETCH" if self.flag else "EXACT"}({sz}, value {"in" if self.member else "not in"} set)'


def _is_self_attr(e, attr=None):
    return isinstance(e, ast.Attribute) and isinstance(e.value, ast.Name) and e.value.id == 'self' and (attr is None or e.attr == attr)


class AddInterp:
    def __init__(self, fn, consts, upd=None):
        self.fn, self.c = fn, consts
        self.value = [p for p in fn.params if p != 'self'][0]
        self.upd_names = {'_hasher_update'} | ({upd.name} if upd is not None else set())
        self.derived = {}      # local name -> text of the expression it was computed from
        self.value_aliases = set()
        self.tainted_attrs = set()
        self.local_exprs = {}  # local name -> expression (conditions bound to a name, e.g. the result of an expanded helper)
        self.set_aliases = set()   # local names bound to the warm-up set object (valid until self.warmup_set is re-bound)

    def _is_set(self, e):
        return _is_self_attr(e, 'warmup_set') or (isinstance(e, ast.Name) and e.id in self.set_aliases)

    def cond(self, e, st):
        if isinstance(e, ast.UnaryOp) and isinstance(e.op, ast.Not):
            return not self.cond(e.operand, st)
        if isinstance(e, ast.BoolOp):
            vals = [self.cond(v, st) for v in e.values]   # no side effects in atoms: safe to evaluate all
            return all(vals) if isinstance(e.op, ast.And) else any(vals)
        if _is_self_attr(e, 'hll_flag'):
            return st.flag
        if isinstance(e, ast.Constant) and isinstance(e.value, bool):
            return e.value
        if isinstance(e, ast.Name) and e.id in self.local_exprs:
            return self.cond(self.local_exprs[e.id], st)
        if isinstance(e, ast.Call) and isinstance(e.func, ast.Name) and e.func.id == 'isinstance' and e.args and isinstance(e.args[0], ast.Name) and (e.args[0].id == self.value or e.args[0].id in self.derived or e.args[0].id in self.value_aliases):
            return 'both'        # a test of the type of the value: does not depend on the state of the sketch
        if isinstance(e, ast.Call) and isinstance(e.func, ast.Name) and e.func.id == 'bool' and len(e.args) == 1:
            return self.cond(e.args[0], st)
        if isinstance(e, ast.Compare) and len(e.ops) == 1:
            l, op, r = e.left, e.ops[0], e.comparators[0]
            if isinstance(op, (ast.In, ast.NotIn)) and isinstance(l, ast.Name) and (l.id == self.value or l.id in self.derived) and self._is_set(r):
                if l.id != self.value:
                    st.effects.append(('member_test_on', l.id))
                return st.member if isinstance(op, ast.In) else not st.member
            if isinstance(op, (ast.Is, ast.Eq, ast.IsNot, ast.NotEq)) and _is_self_attr(l, 'hll_flag') and isinstance(r, ast.Constant) and isinstance(r.value, bool):
                v = st.flag == r.value
                return v if isinstance(op, (ast.Is, ast.Eq)) else not v
            sz = self._size_cmp(l, op, r, st)
            if sz is not None:
                return sz
        raise Inconclusive(f'unrecognised atom in a branch condition of add(): {ast.unparse(e)}')

    def _size_cmp(self, l, op, r, st):
        def is_len(x):
            return isinstance(x, ast.Call) and isinstance(x.func, ast.Name) and x.func.id == 'len' and len(x.args) == 1 and self._is_set(x.args[0])

        def cap_offset(x):
            try:
                return fold_with(x, self.c) - self.c['warmup_size']
            except (ValueError, KeyError, TypeError):
                return None
        if is_len(l) and cap_offset(r) is not None:
            off = cap_offset(r)
        elif is_len(r) and cap_offset(l) is not None:
            off = cap_offset(l)
            op = {ast.Lt: ast.Gt, ast.Gt: ast.Lt, ast.LtE: ast.GtE, ast.GtE: ast.LtE}.get(type(op), type(op))()
        else:
            return None
        if st.size == '?':
            raise Inconclusive('size of the warm-up set tested after it was modified')
        # abstract sizes: 'lt' stands for every n in [0, cap-1] (we need the answer to be uniform), 'eq' for n == cap
        if st.size == 'eq':
            n_vals = [0]
        elif st.size == 'cm1':
            n_vals = [-1]
        else:
            n_vals = [-self.c['warmup_size'], -2]   # n - cap for n = 0 and n = cap-2
        n_vals = [d + st.delta for d in n_vals]
        res = set()
        for d in n_vals:
            a, b = d, off
            res.add({ast.Lt: a < b, ast.LtE: a <= b, ast.Gt: a > b, ast.GtE: a >= b, ast.Eq: a == b, ast.NotEq: a != b}[type(op)])
        if len(res) != 1:
            # the comparison splits the EXACT(<cap) range: the boundary is not at the capacity
            return ('split', off)
        return res.pop()

    def run(self, st):
        self.block(self.fn.node.body, st)
        return st

    def block(self, body, st):
        for s in body:
            if st.returned:
                return
            self.stmt(s, st)

    def stmt(self, s, st):
        if isinstance(s, ast.Expr) and isinstance(s.value, ast.Constant):
            return
        from ..match import is_noise_stmt
        if is_noise_stmt(s):
            return
        if isinstance(s, ast.If):
            c = self.cond(s.test, st)
            if c == 'both':
                import copy as _copy
                a, b = _copy.deepcopy(st), _copy.deepcopy(st)
                self.block(s.body, a)
                self.block(s.orelse, b)
                if (a.effects, a.flag, a.size, a.member, a.returned) != (b.effects, b.flag, b.size, b.member, b.returned):
                    raise Inconclusive(f'the type of the value decides what add() does: {ast.unparse(s.test)}')
                st.effects, st.flag, st.size, st.member, st.returned = a.effects, a.flag, a.size, a.member, a.returned
                return
            if isinstance(c, tuple):
                st.effects.append(('split-boundary', c[1], ast.unparse(s.test)))
                c = True if st.size == 'lt' else False
            self.block(s.body if c else s.orelse, st)
            return
        if isinstance(s, ast.Return):
            st.returned = True
            return
        if isinstance(s, ast.Pass):
            return
        if isinstance(s, ast.Expr) and isinstance(s.value, ast.Call):
            c = s.value
            f = c.func
            if isinstance(f, ast.Attribute) and f.attr == 'add' and self._is_set(f.value) and len(c.args) == 1:
                a = c.args[0]
                st.effects.append(('set_add', a.id if isinstance(a, ast.Name) else ast.unparse(a)))
                if isinstance(a, ast.Name) and a.id == self.value:
                    if not st.member:
                        st.delta += 1
                    st.member = True
                return
            if isinstance(f, ast.Attribute) and f.attr in self.upd_names and isinstance(f.value, ast.Name) and f.value.id == 'self' and len(c.args) == 1:
                a = c.args[0]
                st.effects.append(('update', a.id if isinstance(a, ast.Name) else ast.unparse(a)))
                return
            if isinstance(f, ast.Attribute) and f.attr in ('clear',) and self._is_set(f.value):
                st.effects.append(('clear_set',))
                st.member, st.size = False, 'lt'
                return
            # feeding the value into an attribute object (self.hasher.update(bytes(value))): what is read from it afterwards is derived from the value
            if isinstance(f, ast.Attribute) and _is_self_attr(f.value) and f.value.attr not in ('warmup_set', 'M'):
                names = {x.id for a in c.args for x in ast.walk(a) if isinstance(x, ast.Name)}
                if names & ({self.value} | self.value_aliases | set(self.derived)):
                    self.tainted_attrs.add(f.value.attr)
                    return
            raise Inconclusive(f'unrecognised call in add(): {ast.unparse(c)}')
        if isinstance(s, ast.Assign) and len(s.targets) == 1 and _is_self_attr(s.targets[0]):
            attr = s.targets[0].attr
            if attr == 'hll_flag' and isinstance(s.value, ast.Constant) and isinstance(s.value.value, bool):
                st.effects.append(('flag', s.value.value))
                st.flag = s.value.value
                return
            if attr == 'M':
                st.effects.append(('alloc', ast.unparse(s.value)))
                return
            if attr == 'warmup_set':
                v = s.value
                self.set_aliases = set()      # the attribute now names another object: the local aliases no longer denote the sketch's set
                empty = (isinstance(v, ast.Dict) and not v.keys) or (isinstance(v, ast.Call) and isinstance(v.func, ast.Name) and v.func.id in ('set', 'dict', 'frozenset') and not v.args) or (isinstance(v, ast.Constant) and v.value is None)
                if empty:
                    st.effects.append(('clear_set',))
                    st.member, st.size = False, 'lt'
                    return
            if attr not in ('hll_flag', 'M', 'warmup_set', 'warmup_size', 'm', 'p', 'width'):
                names = {x.id for x in ast.walk(s.value) if isinstance(x, ast.Name)}
                if names & ({self.value} | self.value_aliases | set(self.derived)):
                    self.tainted_attrs.add(attr)
                return      # scratch attribute (e.g. the hasher object)
            raise Inconclusive(f'unrecognised assignment in add(): {ast.unparse(s)}')
        if isinstance(s, ast.For) and self._is_set(s.iter) and isinstance(s.target, ast.Name):
            from ..match import is_noise_stmt
            body = [b for b in s.body if not isinstance(b, ast.Pass) and not is_noise_stmt(b)]
            ok = len(body) == 1 and isinstance(body[0], ast.Expr) and isinstance(body[0].value, ast.Call)
            if ok:
                c = body[0].value
                ok = isinstance(c.func, ast.Attribute) and c.func.attr in self.upd_names and len(c.args) == 1 and isinstance(c.args[0], ast.Name) and c.args[0].id == s.target.id
            if ok:
                st.effects.append(('transfer',))
                return
            if not body:
                return      # a loop over the warm-up set that transfers nothing: the missing transfer is reported by the obligations
            raise Inconclusive(f'unrecognised loop over the warm-up set in add(): {ast.unparse(s)[:80]}')
        if isinstance(s, ast.Assign) and len(s.targets) == 1 and isinstance(s.targets[0], ast.Name) and s.targets[0].id != self.value:
            # a local computed from the value (e.g. a digest), or a condition bound to a name
            names = {x.id for x in ast.walk(s.value) if isinstance(x, ast.Name)}
            if self._is_set(s.value):
                self.set_aliases.add(s.targets[0].id)
                return
            self.set_aliases.discard(s.targets[0].id)
            if isinstance(s.value, ast.Name) and (s.value.id == self.value or s.value.id in self.value_aliases):
                self.value_aliases.add(s.targets[0].id)
                return
            attrs = {x.attr for x in ast.walk(s.value) if _is_self_attr(x)}
            if self.value in names or names & set(self.derived) or names & self.value_aliases or attrs & self.tainted_attrs:
                self.derived[s.targets[0].id] = ast.unparse(s.value)
            self.local_exprs[s.targets[0].id] = s.value
            return
        raise Inconclusive(f'unrecognised statement in add(): {ast.unparse(s)[:80]}')


def typestate(chk, add, consts, upd=None):
    if 'warmup_size' not in consts:
        chk.unsure('C14.2', 'R18', add.site(), 'add', 'capacity constant unknown')
        return
    states = [St(False, 'lt', True), St(False, 'lt', False), St(False, 'eq', True), St(False, 'eq', False), St(True, 'lt', False), St(False, 'cm1', True), St(False, 'cm1', False)]
    interp = AddInterp(add, consts, upd)
    v = interp.value
    vdefs = [n for n in own_nodes(add.node) if isinstance(n, (ast.Assign, ast.AugAssign)) and any(isinstance(t, ast.Name) and t.id == v for t in (n.targets if isinstance(n, ast.Assign) else [n.target]))]
    chk.expect(not vdefs, 'C14.2g', 'origin', add.site(vdefs[0]) if vdefs else add.site(), ast.unparse(vdefs[0]) if vdefs else f'parameter {v} is not re-bound', 'the value recorded is the value passed in', f'add() re-binds its parameter `{v}` before recording it')
    for st in states:
        name = repr(st)
        pre_flag = st.flag
        try:
            interp.run(st)
        except Inconclusive as e:
            chk.unsure('C14.2', 'R18', add.site(), name, str(e))
            continue
        eff = [e for e in st.effects if e[0] != 'member_test_on']
        kinds = [e[0] for e in eff]
        desc = f'{name}: effects {eff}'
        if any(k == 'split-boundary' for k in kinds):
            off = [e for e in eff if e[0] == 'split-boundary'][0]
            chk.bad('C14.2b', 'R18', add.site(), off[2], f'the exact phase ends at warm-up size {consts["warmup_size"] + off[1]} instead of the capacity {consts["warmup_size"]}: counts are no longer exact up to 2**18')
            continue
        converted = 'transfer' in kinds or ('flag', True) in eff or 'alloc' in kinds or 'clear_set' in kinds
        if not pre_flag and name.endswith('value in set)'):
            # (a) a value already present must change nothing (idempotent set.add is a no-op)
            bad = converted or any(k == 'update' for k in kinds)
            chk.expect(not bad, 'C14.2a', 'R18', add.site(), desc, 're-adding a present value in the exact phase changes nothing',
                       f'in state {name} re-adding a value that is already in the warm-up set triggers a conversion or a register update: the estimate changes when a seen value is re-added')
        elif not pre_flag and st is states[6]:
            # one below the capacity: the new value still fits (the count is exact up to and including the capacity)
            good = ('set_add', v) in eff and not converted and not any(k == 'update' for k in kinds)
            chk.expect(good, 'C14.2b', 'R18', add.site(), desc, 'the value that fills the warm-up set to its capacity is stored exactly, no conversion yet',
                       f'in state {name} the value must simply be added to the warm-up set: converting here ends the exact phase one value early (at exactly {consts["warmup_size"]} distinct values the size is an estimate instead of the exact count)')
        elif not pre_flag and st is states[1]:
            derived_add = [e for e in eff if e[0] == 'set_add' and e[1] != v]
            if derived_add:
                chk.bad('C14.2c', 'R18', add.site(), desc, f'the warm-up set stores `{derived_add[0][1]}` (= {interp.derived.get(derived_add[0][1], "?")}) instead of the value itself: two distinct values with the same digest are merged, so the size is not exact while at most 2**18 distinct values have been seen')
                continue
            good = ('set_add', v) in eff and not converted and not any(k == 'update' for k in kinds)
            chk.expect(good, 'C14.2c', 'R18', add.site(), desc, 'a new value below capacity is stored exactly, no conversion',
                       f'in state {name} the value must be added to the warm-up set and nothing else (no early conversion, no loss)')
        elif not pre_flag and st is states[3]:
            # (b)(c)(d): conversion, every warm-up element transferred before the set is dropped, the trigger value recorded
            idx = {k: i for i, k in reversed(list(enumerate(kinds)))}
            ok_conv = 'alloc' in idx and 'transfer' in idx and ('flag', True) in eff and idx['alloc'] < idx['transfer']
            ok_order = 'clear_set' not in idx or ('transfer' in idx and idx['transfer'] < idx['clear_set'])
            upd = [i for i, e in enumerate(eff) if e == ('update', v)]
            ok_value = bool(upd) and 'alloc' in idx and upd[0] > idx['alloc']
            ok_alloc = True
            al = [e for e in eff if e[0] == 'alloc']
            if al:
                ok_alloc = 'zeros' in al[0][1] and 'self.m' in al[0][1]
            chk.expect(ok_conv and ok_order and ok_alloc, 'C14.2d', 'R18', add.site(), desc, 'at capacity a new value converts: registers allocated (zeros(m)), every warm-up element transferred, then the set dropped, flag set',
                       f'conversion in state {name} is incomplete or mis-ordered (need zeros(self.m) allocation, transfer of all warm-up elements before the set is dropped, flag := True)')
            chk.expect(ok_value, 'C14.2e', 'R18', add.site(), desc, 'the value that triggers the conversion is itself recorded in the registers',
                       f'in state {name} the value passed to add() is recorded neither in the set nor in the registers: one distinct value is lost at the 2**18 boundary')
        else:
            good = eff == [('update', v)]
            chk.expect(good, 'C14.2f', 'R18', add.site(), desc, 'SKETCH is absorbing: only a register update of the value',
                       f'in state {name} add() must only update the registers with the value (no re-allocation, no set insertion, flag stays True)')


# -- 3 register update --------------------------------------------------------------
def register_update(chk, upd, consts):
    m = upd.module
    value = [p for p in upd.params if p != 'self'][0]
    # fresh hasher per value
    ctor = calls(upd, dotted=('xxhash.xxh32', 'xxhash.xxh64', 'xxhash.xxh3_64', 'xxhash.xxh128', 'xxhash.xxh3_128'))
    resets = calls(upd, attr='reset')
    updates = calls(upd, attr='update')
    ctor_data = [c for c in ctor if c.args]          # xxhash.xxh32(<bytes>, seed=...): a fresh hasher over exactly this input
    fresh = (bool(ctor or resets) and bool(updates) and min(c.lineno for c in (ctor + resets)) <= min(c.lineno for c in updates)) or (bool(ctor_data) and not updates)
    if not ctor and not resets:
        # hashing happens elsewhere (one-shot digest helper): every digest call must be a one-shot function of its argument
        oneshot = [c for f in m.funcs.values() if f.cls is upd.cls for c in calls(f) if (m.dotted(c.func) or '').startswith('xxhash.') and (m.dotted(c.func) or '').endswith('digest')]
        fresh = bool(oneshot)
        for c in oneshot:
            chk.expect('xxh32' in m.dotted(c.func), 'C14.3b', 'R8', upd.site(c), ast.unparse(c)[:80], '32-bit digest, as the rank width assumes', 'the rank computation assumes a 32-bit digest')
    chk.expect(fresh, 'C14.3a', 'R1', upd.site(), 'hasher constructed / reset before update', 'every value is hashed by a fresh hasher (hash of a value does not depend on earlier values)',
               'the hasher is not re-initialised per value: the digest depends on all earlier values, so re-adding a value touches new registers')
    if ctor:
        d = m.dotted(ctor[0].func)
        chk.expect(d == 'xxhash.xxh32', 'C14.3b', 'R8', upd.site(ctor[0]), ast.unparse(ctor[0]), '32-bit digest, as the rank width assumes',
                   f'the rank computation (width - bit_length(x >> p)) assumes a 32-bit digest; {d} is used')
    # every digest computed anywhere in the class uses the same algorithm and the same seed
    sigs = {}
    for f in m.funcs.values():
        if f.cls is not upd.cls:
            continue
        for c in calls(f):
            d = m.dotted(c.func) or ''
            if d.startswith('xxhash.'):
                algo = d.split('.')[1].split('_')[0]
                seed = next((ast.unparse(k.value) for k in c.keywords if k.arg == 'seed'), None)
                sigs.setdefault((algo, seed), []).append((f, c))
    if len(sigs) > 1:
        (a1, s1), (a2, s2) = list(sigs)[:2]
        f2, c2 = sigs[(a2, s2)][0]
        chk.bad('C14.3f', 'R6', f2.site(c2), ast.unparse(c2)[:100], f'values are hashed with ({a1}, seed={s1}) on one path and ({a2}, seed={s2}) on another: the same value lands in different registers depending on the path (e.g. conversion of the warm-up set vs later add), so re-adding a seen value changes the estimate')
    else:
        chk.ok('C14.3f', 'R6', upd.site(), f'hash signature(s): {list(sigs)}', 'one hash function and seed for every digest in the sketch', inspected=sum(len(v) for v in sigs.values()))
    # digest variable: x = self.hasher.intdigest()
    stores = [s for s in own_nodes(upd.node) if isinstance(s, ast.Assign) and isinstance(s.targets[0], ast.Subscript) and _is_self_attr(s.targets[0].value, 'M')]
    if len(stores) != 1:
        chk.unsure('C14.3c', 'R15', upd.site(), 'self.M[j] = ...', f'{len(stores)} register stores found, expected 1')
        return
    st = stores[0]
    bound = {}
    digest = [s for s in own_nodes(upd.node) if isinstance(s, ast.Assign) and isinstance(s.targets[0], ast.Name) and isinstance(s.value, ast.Call) and isinstance(s.value.func, ast.Attribute) and s.value.func.attr.endswith('intdigest')]
    if len(digest) == 1:
        bound[digest[0].targets[0].id] = ('role', 'x')
    elif not digest and not ctor:
        bound[value] = ('role', 'x')      # the method receives the digest itself
    else:
        chk.unsure('C14.3c', 'R15', upd.site(), 'x = hasher.intdigest()', 'digest binding not found')
        return
    idx = term_of(upd, st.targets[0].slice, bound)
    val = term_of(upd, st.value, bound)
    E = lambda src: expected_term(m, src, {'x': ('role', 'x')})
    idx_ok = idx in (E('x & (self.m - 1)'), E('x % self.m'))
    # a local of the function that is left in the term (e.g. a loop variable) was not resolved: the comparison would compare names, not values
    sc_u = Scope(upd)
    unresolved = [x[1] for t_ in (idx, val) for x in walk_term(t_) if isinstance(x, tuple) and len(x) == 2 and x[0] == 'name' and x[1] in sc_u.defs and x[1] not in upd.params]
    if unresolved and not idx_ok:
        chk.unsure('C14.3c', 'R15', upd.site(st), ast.unparse(st)[:100], f'the register store is written over the local `{unresolved[0]}` that this rule cannot resolve (bound by a loop or more than once): bucket and rank are not compared')
        return
    chk.expect(idx_ok, 'C14.3c', 'R15', upd.site(st), ast.unparse(st.targets[0]), 'bucket = low p bits of the digest, in [0, m)', f'the register index must be x & (m-1); found {show(idx)[:100]}')
    rho = 'self.width - (x >> self.p).bit_length()'
    m_is_2p_ = consts.get('m') is not None and consts.get('p') is not None and consts.get('m') == 2 ** consts.get('p')
    if m_is_2p_:
        # with m == 2**p, x // m is x >> p (and x % m is x & (m - 1)) for the non-negative digest
        rho_div = 'self.width - (x // self.m).bit_length()'
        alt = [E(f'max(self.M[x % self.m], {rho_div})'), E(f'max({rho_div}, self.M[x % self.m])'), E(f'max(self.M[x & (self.m - 1)], {rho_div})'), E(f'numpy.maximum(self.M[x % self.m], {rho_div})')]
        if val in alt:
            val = E(f'max(self.M[x & (self.m - 1)], {rho})')
    val_ok = val in (E(f'max(self.M[x & (self.m - 1)], {rho})'), E(f'max({rho}, self.M[x & (self.m - 1)])'), E(f'max(self.M[x % self.m], {rho})'),
                     E(f'numpy.maximum(self.M[x & (self.m - 1)], {rho})'))
    if not val_ok:
        # the same update written as a guarded store:  if rho > M[j]: M[j] = rho
        par_u = parents(upd.node)
        g = par_u.get(st)
        rho_t, cell_forms = E(rho), (E('self.M[x & (self.m - 1)]'), E('self.M[x % self.m]'))
        writes_M = lambda b: any(isinstance(x, (ast.Assign, ast.AugAssign)) and any(isinstance(t_, ast.Subscript) and ast.unparse(t_.value) == 'self.M' for t_ in (x.targets if isinstance(x, ast.Assign) else [x.target]))
                                 or (isinstance(x, ast.Assign) and any(ast.unparse(t_) == 'self.M' for t_ in x.targets)) for x in ast.walk(b))
        # other statements under the guard (book-keeping of other attributes) are not part of the register update
        if isinstance(g, ast.If) and not g.orelse and any(b is st for b in g.body) and not any(writes_M(b) for b in g.body if b is not st) and val == rho_t:
            gt = term_of(upd, g.test, bound)
            val_ok = any(gt in (('cmp', '<', cell, rho_t), ('cmp', '<=', cell, rho_t)) for cell in cell_forms)
    chk.expect(val_ok, 'C14.3d', 'R15', upd.site(st), ast.unparse(st.value), 'register := max(register, width - bit_length(x >> p)): monotone, order independent',
               f'the register update must be max(old, width - bit_length(x >> p)) at the same bucket; found {show(val)[:160]}')
    # value is converted to bytes (str encoded) before hashing; every path updates the hasher exactly with the value
    from ..match import local_aliases
    vnames = {value} | local_aliases(upd, {value})
    # names computed from the value only (value = value.encode(...), v2 = bytes(value)) carry the value as well
    for n in own_nodes(upd.node):
        if isinstance(n, ast.Assign) and len(n.targets) == 1 and isinstance(n.targets[0], ast.Name):
            used = {x.id for x in ast.walk(n.value) if isinstance(x, ast.Name)} - {'bytes', 'str', 'repr', 'isinstance'}
            if used and used <= vnames:
                vnames.add(n.targets[0].id)
    for u in updates + ctor_data:
        a = u.args[0] if u.args else None
        ok = a is not None and bool(vnames & {n.id for n in ast.walk(a) if isinstance(n, ast.Name)})
        chk.expect(ok, 'C14.3e', 'origin', upd.site(u), ast.unparse(u), 'the hashed bytes are those of the value', 'the hasher is not fed with the value passed in', soft=True)


    fed_on_every_path(chk, upd)


def fed_on_every_path(chk, upd):
    """C14.3g - on every path of the register update the digest is taken from a hasher that was fed with the value: a path on which nothing is fed
    hashes every value of that kind (e.g. every str) to the digest of the empty input, i.e. to one register"""
    from ..match import run_paths
    if not calls(upd, attr=('intdigest', 'digest', 'hexdigest')):
        return
    paths = run_paths(upd, None, None, max_forks=4)
    if paths is None or any(res.unknown is not None for _a, res in paths):
        chk.unsure('C14.3g', 'R1', upd.site(), 'hasher.update(value) on every path', 'the paths of the register update could not be enumerated')
        return
    bad = None
    n = 0
    for assume, res in paths:
        if res.raised is not None:
            continue
        n += 1
        fed = [c for c in res.calls if isinstance(c['call'].func, ast.Attribute) and c['call'].func.attr == 'update' and c['call'].args]
        fed += [c for c in res.calls if (upd.module.dotted(c['call'].func) or '').startswith('xxhash.') and c['call'].args]
        # a one-shot constructor with data may also sit in a binding of the path
        fed += [1 for v in (res.env or {}).values() if v is not None for x in ast.walk(v) if isinstance(x, ast.Call) and (upd.module.dotted(x.func) or '').startswith('xxhash.') and x.args]
        if not fed:
            bad = assume
            break
    if bad is not None:
        cond = ' and '.join(('' if v else 'not ') + f'({ast.unparse(t)[:40]})' for t, v in bad) or 'the only path'
        chk.bad('C14.3g', 'R1', upd.site(), f'path: {cond}', 'on this path the digest is taken although nothing was fed to the hasher: every value taking this path gets the digest of the empty input and lands in ONE register, '
                'so beyond the warm-up capacity all such values count as one')
    else:
        chk.ok('C14.3g', 'R1', upd.site(), 'hasher.update(<value>) on every path', f'{n} path(s): the hasher is fed before the digest is taken on each', inspected=n)


# -- 4 estimator --------------------------------------------------------------------
def estimator(chk, ln, consts):
    m = ln.module
    rets = returns(ln)
    E = lambda s: expected_term(m, s)
    zero_forms = ['len(numpy.where(self.M == 0)[0])', 'numpy.count_nonzero(self.M == 0)', 'numpy.sum(self.M == 0)', '(self.M == 0).sum()', 'self.m - numpy.count_nonzero(self.M)']
    zero_forms += [f'int({z})' for z in zero_forms] + ['len(numpy.flatnonzero(self.M == 0))', 'numpy.flatnonzero(self.M == 0).size', 'numpy.where(self.M == 0)[0].size']
    cores = [E(f'self.m * numpy.log(self.m / {z})') for z in zero_forms] + [E(f'self.m * numpy.log(numpy.divide(self.m, {z}))') for z in zero_forms] + \
            [E(f'self.m * math.log(self.m / {z})') for z in zero_forms] + [E(f'-self.m * numpy.log({z} / self.m)') for z in zero_forms]
    exact = E('len(self.warmup_set)')
    # path evaluation of __len__, forking on the flag (and on the saturation test): what is returned in each phase
    from ..match import run_paths
    paths = run_paths(ln, None, None, max_forks=4)
    if paths is None:
        chk.unsure('C14.4a', 'R15', ln.site(), '__len__', 'too many undecidable tests in __len__')
        return
    seen_exact = seen_lc = False
    problems = []
    m_is_2p = consts.get('m') is not None and consts.get('p') is not None and consts.get('m') == 2 ** consts.get('p')
    for assume, res in paths:
        if res.unknown is not None or res.returned is None:
            chk.unsure('C14.4a', 'R15', ln.site(res.unknown) if res.unknown is not None else ln.site(), '__len__', 'a statement outside the path vocabulary decides what __len__ returns')
            continue
        flag = None
        for t_ast, v in res.assumed:
            tt = term_of(ln, t_ast, inline=False)
            if tt == E('self.hll_flag'):
                flag = v
            elif tt in (E('not self.hll_flag'), E('self.hll_flag == False'), E('self.hll_flag is False')):
                flag = not v
            elif tt in (E('self.hll_flag == True'), E('self.hll_flag is True')):
                flag = v
        t = term_of(ln, res.returned, inline=False)
        site = ln.site(res.returned) if hasattr(res.returned, 'lineno') else ln.site()
        shown = ast.unparse(res.returned)[:140]
        if flag is None:
            chk.unsure('C14.4a', 'R15', site, shown, 'the phase flag is not tested on this path of __len__')
            continue
        if not flag:
            if t == exact:
                seen_exact = True
            else:
                problems.append((site, shown, '__len__ must return len(warmup_set) exactly when hll_flag is False and the linear-counting estimate otherwise'))
            continue
        if any(c in list(walk_term(t)) for c in cores):
            seen_lc = True
            ok = _only_wrappers(t, cores)
            chk.expect(ok, 'C14.4b', 'R15', site, shown, 'linear counting m*ln(m/V), rounded', f'the estimate must be m*ln(m/#empty registers) up to rounding; found {show(t)[:160]}')
            continue
        saturation = t[0] in ('num', '**', '<<') or (t[0] == 'call' and t[1] == ('name', 'int')) or (t == E('self.m') and m_is_2p)
        # the saturation fallback is only reachable through a test of the estimate against infinity
        if saturation and any('inf' in ast.unparse(x).lower() for x, _ in res.assumed):
            continue
        occ = [E(z) for z in ('numpy.count_nonzero(self.M)', 'int(numpy.count_nonzero(self.M))', 'numpy.count_nonzero(self.M != 0)', 'numpy.sum(self.M != 0)', 'numpy.count_nonzero(self.M > 0)', 'len(numpy.nonzero(self.M)[0])',
                                    'len(numpy.flatnonzero(self.M))')]
        occ_src = ('numpy.count_nonzero(self.M)', 'int(numpy.count_nonzero(self.M))', 'numpy.count_nonzero(self.M != 0)', 'numpy.sum(self.M != 0)', 'numpy.count_nonzero(self.M > 0)', 'len(numpy.nonzero(self.M)[0])',
                   'len(numpy.flatnonzero(self.M))')
        occ_logs = [E(f'numpy.log(self.m / {z})') for z in occ_src] + [E(f'numpy.log(numpy.divide(self.m, {z}))') for z in occ_src]
        if any(o_ in list(walk_term(t)) for o_ in occ_logs):
            chk.bad('C14.4b', 'R15', site, shown, 'the linear-counting estimate m*ln(m/V) is computed with V = the number of OCCUPIED registers (count_nonzero(M)) instead of the number of empty ones: the estimate is '
                    'far off as soon as the sketch has left the exact phase')
            continue
        other_log = [x for x in walk_term(t) if isinstance(x, tuple) and x[:1] == ('call',) and x[1][0] == 'lib' and x[1][1] in ('numpy.log2', 'numpy.log10', 'numpy.log1p', 'math.log2', 'math.log10', 'math.log1p')]
        if other_log:
            chk.bad('C14.4b', 'R15', site, shown, f'the linear-counting estimate is m*ln(m/#empty registers) with the natural logarithm; found {show(other_log[0][1])}')
        elif t == exact:
            problems.append((site, shown, '__len__ must return len(warmup_set) exactly when hll_flag is False and the linear-counting estimate otherwise'))
        else:
            chk.bad('C14.4b', 'R15', site, shown, f'__len__ returns something that is neither len(warm-up set) nor the linear-counting estimate: {show(t)[:120]}', soft=True)
    for site, shown, why in problems[:1]:
        chk.bad('C14.4a', 'R15', site, shown, why)
    if not problems:
        chk.expect(seen_exact and seen_lc, 'C14.4a', 'R15', ln.site(), 'if self.hll_flag: <linear counting> else: len(self.warmup_set)',
                   'exact size while not converted, estimator afterwards', '__len__ must return len(warmup_set) exactly when hll_flag is False and the linear-counting estimate otherwise', soft=True)


def maintained_zero_count(chk, m, ln):
    """C14.4c - when __len__ reads a maintained counter instead of counting the empty registers, the counter must be decremented exactly when a register
    leaves 0.  Every `self.<counter> -= 1` of the class must sit under a test that the OLD value of the register is 0 (directly, or through the boolean a
    helper method returns); a decrement on every raise of a register counts collisions twice and the estimate drifts upwards."""
    try:
        from ..baseline import ATTRS
        known = set(ATTRS.get(MOD, {}).get(CLS, ()))
    except ImportError:
        known = set()
    if not known:
        return
    counters = sorted({x.attr for x in own_nodes(ln.node) if _is_self_attr(x) and isinstance(x.ctx, ast.Load) and x.attr not in known and not (isinstance(parents(ln.node).get(x), ast.Call) and parents(ln.node).get(x).func is x)})
    methods = {q.split('.', 1)[1]: f for q, f in m.funcs.items() if q.startswith(CLS + '.') and q.count('.') == 1}
    counters = [c for c in counters if c not in methods]
    if not counters:
        return

    def reg_reads(f):
        """locals bound to self.M[...] (the old value of a register)"""
        return {n.targets[0].id for n in own_nodes(f.node) if isinstance(n, ast.Assign) and len(n.targets) == 1 and isinstance(n.targets[0], ast.Name) and isinstance(n.value, ast.Subscript) and _is_self_attr(n.value.value, 'M')}

    def is_zero_test(f, t):
        olds = reg_reads(f)
        is_old = lambda e: (isinstance(e, ast.Name) and e.id in olds) or (isinstance(e, ast.Subscript) and _is_self_attr(e.value, 'M'))
        for x in ast.walk(t):
            if isinstance(x, ast.Compare) and len(x.ops) == 1:
                l, r = x.left, x.comparators[0]
                zero = lambda e: isinstance(e, ast.Constant) and e.value == 0 and not isinstance(e.value, bool)
                one = lambda e: isinstance(e, ast.Constant) and e.value == 1 and not isinstance(e.value, bool)
                if isinstance(x.ops[0], ast.Eq) and ((is_old(l) and zero(r)) or (zero(l) and is_old(r))):
                    return True
                if isinstance(x.ops[0], ast.Lt) and is_old(l) and one(r):
                    return True
                if isinstance(x.ops[0], ast.LtE) and is_old(l) and zero(r):
                    return True
            if isinstance(x, ast.UnaryOp) and isinstance(x.op, ast.Not) and is_old(x.operand):
                return True
        return False

    def guards(f, node):
        par = parents(f.node)
        out, cur, child = [], par.get(node), node
        while cur is not None and cur is not f.node:
            if isinstance(cur, ast.If) and any(child is b for b in cur.body):
                out.append(cur.test)
            child, cur = cur, par.get(cur)
        return out

    def helper_true_only_from_zero(h):
        """every `return <truthy>` of the helper sits under a zero test of the old register (or returns the zero test itself)"""
        verdict = True
        for r in returns(h):
            v = r.value
            if v is None or (isinstance(v, ast.Constant) and not v.value):
                continue
            if is_zero_test(h, v):
                continue
            if isinstance(v, ast.Constant) and v.value is True:
                if any(is_zero_test(h, t) for t in guards(h, r)):
                    continue
                return False
            verdict = None
        return verdict

    for c in counters:
        decs = [(f, n) for f in methods.values() for n in own_nodes(f.node) if isinstance(n, ast.AugAssign) and _is_self_attr(n.target, c)]
        if not decs:
            chk.unsure('C14.4c', 'R13', ln.site(), f'self.{c}', f'__len__ reads self.{c} instead of counting the empty registers, and no method keeps it up to date by `-= 1`: that it equals the number of empty registers is not decided')
            continue
        verdicts = []
        for f, n in decs:
            if not (isinstance(n.op, ast.Sub) and isinstance(n.value, ast.Constant) and n.value.value == 1):
                verdicts.append((None, f, n))
                continue
            gs = guards(f, n)
            if any(is_zero_test(f, t) for t in gs):
                verdicts.append((True, f, n))
                continue
            via = [methods[x.func.attr] for t in gs for x in ast.walk(t) if isinstance(x, ast.Call) and _is_self_attr(x.func) and x.func.attr in methods]
            if via:
                hv = [helper_true_only_from_zero(h) for h in via]
                verdicts.append((False if any(v is False for v in hv) else (True if all(v is True for v in hv) else None), f, n))
                continue
            raises = any(isinstance(x, ast.Compare) and len(x.ops) == 1 and isinstance(x.ops[0], (ast.Gt, ast.Lt, ast.GtE, ast.LtE)) for t in gs for x in ast.walk(t)) or \
                     any(isinstance(b, ast.Assign) and isinstance(b.targets[0], ast.Subscript) and _is_self_attr(b.targets[0].value, 'M') for b in own_nodes(f.node))
            verdicts.append((False if raises else None, f, n))
        for v, f, n in verdicts:
            if v is False:
                chk.bad('C14.4c', 'R13', f.site(n), ast.unparse(n), f'self.{c} (read by __len__ as the number of empty registers) is decremented without a test that the register was empty before the write: '
                        'every later raise of an already non-empty register (a collision) is counted again, the count falls below the true number of empty registers and the estimate drifts upwards')
                break
        else:
            if all(v is True for v, _, _ in verdicts):
                chk.ok('C14.4c', 'R13', decs[0][0].site(decs[0][1]), f'{len(decs)} decrement(s) of self.{c}', 'the maintained count of empty registers is decremented exactly when a register leaves 0')
            else:
                f, n = next((f, n) for v, f, n in verdicts if v is None)
                chk.unsure('C14.4c', 'R13', f.site(n), ast.unparse(n), f'self.{c} is read by __len__ as the number of empty registers; that this update keeps it equal to that number is not decided')


def _only_wrappers(t, cores):
    if t in cores:
        return True
    if t[0] == 'call' and len(t[2]) == 1 and (t[1] in (('name', 'int'), ('name', 'round'), ('lib', 'numpy.ceil'), ('lib', 'numpy.floor'), ('lib', 'numpy.round'), ('lib', 'math.ceil'), ('lib', 'math.floor'), ('lib', 'numpy.rint'))):
        return _only_wrappers(t[2][0], cores)
    if t[0] == '+':
        nums = [x for x in t[1] if x[0] == 'num']
        rest = [x for x in t[1] if x[0] != 'num']
        return len(rest) == 1 and all(abs(x[1]) <= 1 for x in nums) and _only_wrappers(rest[0], cores)
    return False
