"""C02 - scores depend on co-occurrence structure, not on numeric category codes.

 1 codes are opaque: inside the kernel, code vectors and value arrays flow only into ==/!= against codes, the histogram and
   positional operations (use restriction)
 2 the self-pair test is an exact identity test (element-wise / reduction domain)
 3 batch columns are coded injectively (.cat.codes of the category-typed copy, factorize, LabelEncoder)
"""
from __future__ import annotations

import ast

from ..match import calls, term_of
from ..model import own_nodes
from .kernel_rules import code_uses, histogram, self_pair_test

EXPLANATION = ('Use-restriction (taint) analysis over the five kernel functions: every use of a code-valued name is classified; arithmetic, ordering comparisons and hashing of codes are violations '
               '(values touched only through equality => a finite set of orderings cannot matter). Classification of the self-pair predicate in the element-wise/reduction domain (a cancelling '
               'reduction is inexact). Sibling agreement of the column coder with the enumerated injective encoders.')
TRUSTED_BASE = ["Series.astype('category').cat.codes assigns one code per distinct value (injective)", 'the histogram numba_unique only permutes the strata of a commutative sum under relabelling (C01.1)']
ASSUMPTIONS = ['invariance up to rounding as a number is not decided']

CR = 'outrank.core_ranking'


def run(repo, chk, tier):
    code_uses(repo, chk, 'C02.1')
    histogram(repo, chk, 'C02.1h')
    self_pair_test(repo, chk, 'C02.2')
    coder(repo, chk)


def coder(repo, chk):
    fn = repo.func(CR, 'mixed_rank_graph')
    m = fn.module
    frame = fn.params[0]
    # the frame captured by the worker closure
    inner = [f for q, f in m.funcs.items() if q.startswith('mixed_rank_graph.')]
    cap = None
    for f in inner:
        for c in calls(f):
            for k in c.keywords:
                if k.arg == 'tmp_df' and isinstance(k.value, ast.Name):
                    cap = k.value.id
            if cap is None and len(c.args) >= 4 and isinstance(c.args[3], ast.Name):
                cap = c.args[3].id
    if cap is None:
        chk.unsure('C02.3', 'R6', fn.site(), 'frame handed to the workers', 'cannot find the coded frame captured by the worker closure')
        return
    defs = [n for n in own_nodes(fn.node) if isinstance(n, ast.Assign) and any(isinstance(t, ast.Name) and t.id == cap for t in n.targets)]
    defs.sort(key=lambda n: n.lineno)
    last = defs[-1] if defs else None
    ok = False
    if last is not None and isinstance(last.value, ast.Call) and m.dotted(last.value.func) == 'pandas.DataFrame' and last.value.args and isinstance(last.value.args[0], ast.DictComp):
        dc = last.value.args[0]
        g = dc.generators[0]
        k = g.target.id if isinstance(g.target, ast.Name) else None
        val = ast.unparse(dc.value)
        it_t = term_of(fn, g.iter, inline=True)
        from ..match import expected_term
        cols_ok = it_t in (expected_term(m, f'{frame}.columns'), expected_term(m, frame)) and not g.ifs and ast.unparse(dc.key) == k
        prev = defs[-2] if len(defs) > 1 else None
        cat_ok = prev is not None and ".astype('category')" in ast.unparse(prev.value) and frame in ast.unparse(prev.value)
        ok = cols_ok and ((val == f'{cap}[{k}].cat.codes' and cat_ok) or val in (f'pd.factorize({frame}[{k}])[0]', f'{frame}[{k}].factorize()[0]', f"{frame}[{k}].astype('category').cat.codes"))
    chk.expect(ok, 'C02.3', 'R6', fn.site(last) if last is not None else fn.site(), ast.unparse(last)[:140] if last is not None else '', 'every column handed to the scorers is coded injectively (.cat.codes of the category-typed copy)',
               'every column of the frame handed to the workers must be coded by an injective encoder (.cat.codes / factorize) of that same column: a non-injective coding merges categories')
