"""C02 - scores depend on co-occurrence structure, not on numeric category codes.

 1 codes are opaque: inside the kernel, code vectors and value arrays flow only into ==/!= against codes, the histogram and
   positional operations (use restriction)
 2 the self-pair test is an exact identity test (element-wise / reduction domain)
 3 batch columns are coded injectively (.cat.codes of the category-typed copy, factorize, LabelEncoder)
"""
from __future__ import annotations

import ast

from ..match import calls, term_of
from ..model import own_nodes
from .kernel_rules import code_uses, histogram, self_pair_test

EXPLANATION = ('Use-restriction (taint) analysis over the five kernel functions: every use of a code-valued name is classified; arithmetic, ordering comparisons and hashing of codes are violations '
               '(values touched only through equality => a finite set of orderings cannot matter). Classification of the self-pair predicate in the element-wise/reduction domain (a cancelling '
               'reduction is inexact). Sibling agreement of the column coder with the enumerated injective encoders.')
TRUSTED_BASE = ["Series.astype('category').cat.codes assigns one code per distinct value (injective)", 'the histogram numba_unique only permutes the strata of a commutative sum under relabelling (C01.1)']
ASSUMPTIONS = ['invariance up to rounding as a number is not decided']

CR = 'outrank.core_ranking'


def run(repo, chk, tier):
    code_uses(repo, chk, 'C02.1')
    histogram(repo, chk, 'C02.1h')
    self_pair_test(repo, chk, 'C02.2')
    from .kernel_rules import labelling_obligations
    labelling_obligations(repo, chk, 'C02.5')
    coder(repo, chk)
    from .common import vector_casts
    vector_casts(repo, chk, 'C02.4')


def coder(repo, chk):
    """Every column of the frame the workers read is an injective coding of the same column of the batch (decided on the path
    summary of mixed_rank_graph: the frame bound to the worker, written over the parameters)."""
    from .common import column_coding, mrg_model
    M = mrg_model(repo)
    fn = M.fn
    done = set()
    for p in M.paths:
        if p.heuristic == 'Constant':
            continue
        wb = M.worker_binding(p) if p.res.unknown is None else None
        target = repo.func('outrank.algorithms.importance_estimator', 'get_importances_estimate_pairwise')
        fparam = target.params[3] if len(target.params) > 3 else 'tmp_df'
        if wb is None or fparam not in wb:
            if 'unres' not in done:
                done.add('unres')
                chk.unsure('C02.3', 'R6', fn.site(), 'frame handed to the workers', 'cannot find the coded frame bound to the worker function')
            continue
        key = ast.unparse(wb[fparam])
        if key in done:
            continue
        done.add(key)
        kind, detail = column_coding(repo, fn, wb[fparam])
        site = fn.site(wb['__site__']) if hasattr(wb.get('__site__'), 'lineno') else fn.site()
        if kind in ('category', 'factorize-sorted', 'factorize'):
            chk.ok('C02.3', 'R6', site, key[:140], f'every column handed to the scorers is coded injectively ({kind}: {detail})')
        elif ast.unparse(wb[fparam]) == fn.params[0]:
            chk.bad('C02.3', 'R6', site, key[:140], 'the workers read the uncoded batch frame: the estimators need integer category codes produced by an injective encoder of each column')
        else:
            frame_t = term_of(fn, wb[fparam], inline=False)
            from ..terms import walk_term
            lossy = [x for x in walk_term(frame_t) if isinstance(x, tuple) and x and x[0] in ('%', '//') or (isinstance(x, tuple) and x[:1] == ('call',) and x[1] in (('name', 'hash'), ('name', 'len'), ('lib', 'builtins.hash')))]
            if lossy:
                chk.bad('C02.3', 'R6', site, key[:140], 'every column of the frame handed to the workers must be coded by an injective encoder (.cat.codes / factorize) of that same column: a non-injective coding (modulo / hash / length) merges categories')
            else:
                chk.unsure('C02.3', 'R6', site, key[:140], f'cannot establish that the frame handed to the workers is an injective coding of the batch columns: {detail}')


